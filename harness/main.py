"""bin/check Cxx [--tier quick|thorough] [--replay FILE]

Decision procedure shared by all checks (DESIGN.md section 4):
  1. proof gate   : lake build, forbidden-token grep, #print axioms of the property's theorems
  2. corpus + generated cases run on the real implementation (scratch copy of /repo's working tree)
  3. correspondence: the Lean driver replays every case in the model and diffs the observations
  4. property oracle: the Lean Spec predicate evaluated on the implementation's observations
  5. verdict, shrinking, replay file, known findings, evidence
"""
import argparse
import collections
import importlib
import json
import os
import random
import sys

sys.setrecursionlimit(12000)   # programs are deeply nested lists (json, S-expressions)
import time

sys.path.insert(0, os.path.dirname(os.path.abspath(__file__)))
import framework as fw  # noqa: E402


def load_check(pid):
    try:
        return importlib.import_module("checks.%s" % pid.lower())
    except ModuleNotFoundError as e:
        if "checks." in str(e):
            raise fw.Broken("no check for property %s" % pid)
        raise


def judge(chk, results):
    """run the Lean driver on the implementation's observations; returns {id: verdict}"""
    lines, ids = [], []
    verdicts = {}
    for r in results:
        if r.get("skipped"):
            verdicts[r["id"]] = {"id": r["id"], "corr": "ok", "spec": "ok", "specm": "ok", "detail": "skipped after repeated hangs", "skipped": True}
            continue
        if r.get("crash") or r.get("error"):
            what = "hang" if r.get("hang") else ("crash" if r.get("crash") else "harness-error")
            v = {"id": r["id"], "corr": "diff", "spec": "ok", "specm": "ok",
                 "detail": "%s of the implementation run: %s" % (what, (r.get("error") or r.get("stderr") or "")[-600:])}
            if hasattr(chk, "on_crash"):
                v = chk.on_crash(r, v)
            verdicts[r["id"]] = v
            continue
        lines.extend(r["lines"])
        ids.append(r["id"])
    if lines:
        out = fw.run_driver(lines)
        for l in out:
            if l.startswith("R "):
                v = fw.parse_verdict(l)
                verdicts[v["id"]] = v
        missing = [i for i in ids if i not in verdicts]
        if missing:
            raise fw.Broken("driver gave no verdict for cases %s; output tail: %s" % (missing[:5], out[-3:]))
    return verdicts


def bad(v):
    return v["spec"] != "ok" or v["corr"] != "ok" or v.get("specm", "ok") != "ok"


def failing_kind(v):
    if v["spec"] != "ok":
        return "spec:" + v["spec"]
    if v["corr"] != "ok":
        return "corr"
    if v.get("specm", "ok") != "ok":
        return "specm:" + v["specm"]
    return None


def run_cases(chk, sc, build, cases, nworkers, timeout=600):
    results = fw.run_parallel(sc, build, chk.PID, cases, nworkers=nworkers, timeout=timeout)
    verdicts = judge(chk, results)
    return {r["id"]: r for r in results}, verdicts


def shrink(chk, sc, build, case, kind, deadline):
    """greedy delta debugging on the IMPLEMENTATION: keep a smaller case while the same kind of failure persists"""
    if not hasattr(chk, "shrink"):
        return case
    cur = case
    improved = True
    rounds = 0
    while improved and time.time() < deadline:
        improved = False
        cands = []
        for i, c in enumerate(chk.shrink(cur)):
            c = dict(c)
            c["id"] = i
            cands.append(c)
            if len(cands) >= 64:
                break
        if not cands:
            break
        for off in range(0, len(cands), 16):
            batch = cands[off:off + 16]
            _, verdicts = run_cases(chk, sc, build, batch, nworkers=len(batch), timeout=60)
            hit = [c for c in batch if c["id"] in verdicts and failing_kind(verdicts[c["id"]]) == kind]
            if hit:
                cur = hit[0]
                improved = True
                rounds += 1
                break
            if time.time() > deadline:
                break
    return cur


def main():
    ap = argparse.ArgumentParser()
    ap.add_argument("pid")
    ap.add_argument("--tier", default=os.environ.get("VERIF_TIER", "quick"))
    ap.add_argument("--replay")
    args = ap.parse_args()
    tier = args.tier if args.tier in ("quick", "thorough") else "quick"
    try:
        seed = int(os.environ.get("VERIF_SEED", "0"))
    except ValueError:
        seed = 0
    pid = args.pid.upper()
    t0 = time.time()
    try:
        chk = load_check(pid)
        rc = run_check(chk, tier, seed, args.replay, t0)
    except fw.Broken as e:
        print("BROKEN-CHECK property=%s: %s" % (pid, e))
        sys.exit(2)
    except Exception:  # a failure of the machinery itself is never a violation
        import traceback
        print("BROKEN-CHECK property=%s: internal error\n%s" % (pid, traceback.format_exc()[-3000:]))
        sys.exit(2)
    sys.exit(rc)


def run_check(chk, tier, seed, replay, t0):
    pid = chk.PID
    gate = fw.proof_gate(chk.LEAN_MODULES, chk.THEOREMS, tier)
    fw.log("[%s] proof gate: %d/%d theorems, axioms %s, build %.1fs" % (
        pid, gate["discharged"], gate["obligations"], gate["axioms"], gate["build_s"]))
    builds = chk.BUILDS[tier]
    if replay:
        # a replay runs on the build the violation was found on (recorded in the replay file), else the pure-Python one
        try:
            with open(replay) as f:
                rb = json.load(f).get("build")
        except Exception:
            rb = None
        builds = [rb] if rb in ("py", "cy") else ["py"]
    nworkers = int(os.environ.get("VERIF_WORKERS", "12"))
    known = fw.known_findings(pid)
    reports = []          # (kind, build, case, verdict)
    feats = collections.Counter()
    nontrivial = set()
    evaluations = 0
    samples = []
    corr_ok = 0
    with fw.Scratch(builds) as sc:
        if replay:
            with open(replay) as f:
                payload = json.load(f)
            cases = [dict(payload["case"], id=0)]
        else:
            cases = chk.plan(tier, seed)
            for i, c in enumerate(cases):
                c["id"] = i
        for build in builds:
            res, verdicts = run_cases(chk, sc, build, cases, nworkers)
            for c in cases:
                v = verdicts.get(c["id"])
                r = res.get(c["id"], {})
                if v is None:
                    raise fw.Broken("case %s has no verdict" % c["id"])
                evaluations += 1
                for ft in r.get("features", []):
                    feats[ft] += 1
                k = r.get("nontrivial")
                if k is not None:
                    nontrivial.add(k)
                if len(samples) < 3 and k is not None and build == builds[0]:
                    samples.append({"case": {kk: vv for kk, vv in c.items() if kk != "id"},
                                    "observations": r.get("lines", [])[:12], "verdict": v})
                if bad(v):
                    reports.append((failing_kind(v), build, c, v, r))
                else:
                    corr_ok += 1
        # ---- confirmation: a report must reproduce --------------------------------------------------
        # Every reported case is run a second time (few at a time, so that a loaded machine cannot turn a slow case into a
        # watchdog hang); a report that does not reproduce is dropped and counted as flaky in a NOTE line of the output.
        # (A change that breaks a property only sometimes is still found: the reports of a run are many and the
        # neighbourhood search and the shrinker re-run cases anyway.)
        flaky = 0
        if reports and not replay:
            confirmed = []
            by_build = {}
            for x in reports:
                by_build.setdefault(x[1], []).append(x)
            for b, xs in by_build.items():
                # spec failures with a recorded signature are re-run too, but at most 400 reports per build
                todo, rest = xs[:400], xs[400:]
                again = [dict(x[2], id=i) for i, x in enumerate(todo)]
                _, vv2 = run_cases(chk, sc, b, again, min(4, nworkers))
                for i, x in enumerate(todo):
                    v2 = vv2.get(i)
                    if v2 is not None and not bad(v2):
                        flaky += 1
                    else:
                        confirmed.append(x if v2 is None else (failing_kind(v2), x[1], x[2], v2, x[4]))
                confirmed.extend(rest)
            reports = confirmed
        # ---- verdict -------------------------------------------------------------------------
        out_lines = []
        if flaky:
            out_lines.append("NOTE: %d report(s) did not reproduce on a second run and were dropped (flaky under load)" % flaky)
        violations = 0
        budget = 40 if tier == "quick" else 300
        spec_fail = [x for x in reports if x[0].startswith("spec:")]
        corr_only = [x for x in reports if not x[0].startswith("spec:")]
        seen_sig = set()
        spec_deadline = time.time() + budget
        for kind, build, case, v, r in sorted(spec_fail, key=lambda x: len(json.dumps(x[2]))):
            sig = chk.signature(case, v) if hasattr(chk, "signature") else kind
            if sig in seen_sig:
                continue
            seen_sig.add(sig)
            if violations >= 3:
                continue
            kf = [e for e in known if e.get("signature") == sig]
            if kf:
                out_lines.append("KNOWN-FINDING: property=%s %s" % (pid, kf[0].get("what", sig)))
                # a recorded finding explains a case only when the model (which mirrors the recorded behaviour) agrees
                # with the implementation on it; a case with this signature AND a broken correspondence is something
                # else hiding behind the finding's name: hand it to the neighbourhood search below
                # (families judged by a direct expectation have no model run: their verdict lines say CORR=diff whenever
                # the expectation fails, so the rule does not apply to them)
                extra = [x for x in spec_fail if x[3].get("corr") != "ok" and not x[2].get("special") and
                         (chk.signature(x[2], x[3]) if hasattr(chk, "signature") else x[0]) == sig]
                corr_only.extend(("corr",) + tuple(x[1:]) for x in extra[:8])
                continue
            small = shrink(chk, sc, build, case, kind, min(spec_deadline, time.time() + budget / 3))
            rr, vv = run_cases(chk, sc, build, [dict(small, id=0)], 1)
            path = fw.write_replay(pid, {
                "property": pid, "kind": kind, "signature": sig, "build": build, "seed": seed,
                "case": {k: x for k, x in small.items() if k != "id"},
                "original_case": {k: x for k, x in case.items() if k != "id"},
                "verdict": vv.get(0, v), "implementation_observations": rr.get(0, {}).get("lines", r.get("lines", [])),
                "how_to_replay": "bin/check %s --replay <this file>" % pid,
            })
            out_lines.append("VIOLATION property=%s replay=%s" % (pid, path))
            violations += 1
        if corr_only and not violations:
            # correspondence (or the model's own spec) broke without a failing input so far: search around
            deadline = time.time() + budget
            found = None
            rng = random.Random(seed * 7919 + 13)
            tried = 0
            if hasattr(chk, "neighbours"):
                while time.time() < deadline and found is None:
                    batch = []
                    for kind, build, case, v, r in corr_only[:8]:
                        for c in chk.neighbours(case, rng):
                            batch.append(dict(c))
                            if len(batch) >= 64:
                                break
                    if not batch:
                        break
                    for i, c in enumerate(batch):
                        c["id"] = i
                    build = corr_only[0][1]
                    rr, vv = run_cases(chk, sc, build, batch, nworkers)
                    tried += len(batch)
                    for c in batch:
                        x = vv.get(c["id"])
                        if x and x["spec"] != "ok":
                            # a neighbour that merely re-finds a RECORDED finding explains nothing about this broken
                            # correspondence: keep searching (otherwise an open finding would mask the alarm)
                            sg = chk.signature(c, x) if hasattr(chk, "signature") else failing_kind(x)
                            if any(e.get("signature") == sg for e in known):
                                continue
                            found = (c, x, rr.get(c["id"], {}), build)
                            break
            if found:
                c, x, r, build = found
                kind = failing_kind(x)
                sig = chk.signature(c, x) if hasattr(chk, "signature") else kind
                kf = [e for e in known if e.get("signature") == sig]
                if kf:
                    out_lines.append("KNOWN-FINDING: property=%s %s" % (pid, kf[0].get("what", sig)))
                else:
                    small = shrink(chk, sc, build, c, kind, time.time() + budget / 2)
                    rr, vv = run_cases(chk, sc, build, [dict(small, id=0)], 1)
                    path = fw.write_replay(pid, {
                        "property": pid, "kind": kind, "signature": sig, "build": build, "seed": seed,
                        "case": {k: y for k, y in small.items() if k != "id"},
                        "verdict": vv.get(0, x),
                        "implementation_observations": rr.get(0, {}).get("lines", []),
                        "how_to_replay": "bin/check %s --replay <this file>" % pid,
                    })
                    out_lines.append("VIOLATION property=%s replay=%s" % (pid, path))
                    violations += 1
            else:
                kind, build, case, v, r = corr_only[0]
                small = shrink(chk, sc, build, case, kind, time.time() + budget / 4)
                rr, vv = run_cases(chk, sc, build, [dict(small, id=0)], 1)
                path = fw.write_replay(pid, {
                    "property": pid, "kind": kind, "build": build, "seed": seed,
                    "broken": "correspondence between the Lean model and the implementation (theorems %s no longer transfer)"
                              % ", ".join(chk.THEOREMS),
                    "first_disagreement": vv.get(0, v).get("detail"),
                    "case": {k: y for k, y in small.items() if k != "id"},
                    "implementation_observations": rr.get(0, {}).get("lines", r.get("lines", [])),
                    "searched_neighbours": tried, "disagreeing_cases": len(corr_only),
                    "how_to_replay": "bin/check %s --replay <this file>" % pid,
                })
                out_lines.append("VIOLATION property=%s replay=%s no-failing-input-found" % (pid, path))
                violations += 1
    wall = time.time() - t0
    cov = dict(
        obligations=gate["obligations"],
        discharged=gate["discharged"],
        checker_cmd=gate["checker_cmd"],
        trusted_base=["Lean 4.33.0 kernel", "axioms: %s" % (", ".join(gate["axioms"]) or "none")] + list(chk.TRUSTED),
        theorems=gate["theorems"],
        evaluations=evaluations,
        distinct_nontrivial=len(nontrivial),
        rule=chk.RULE,
        samples=samples,
        programs=evaluations,
        traces_validated_against_impl=corr_ok,
        disagreements_checked=len(reports),
        builds=builds,
        source_hash=fw.source_hash(),
        features=dict(sorted(feats.items())),
        exhaustive=bool(getattr(chk, "EXHAUSTIVE", {}).get(tier, False)),
    )
    if not replay and fw.REPO == "/repo":   # runs against a scratch repository (mutation testing) leave the evidence alone
        fw.write_evidence(pid, tier, seed, chk.LEVEL, cov, list(chk.ASSUMPTIONS), wall, violations)
    for l in out_lines:
        print(l)
    print("[%s] tier=%s seed=%d builds=%s cases=%d corr_ok=%d reports=%d violations=%d wall=%.1fs" % (
        pid, tier, seed, ",".join(builds), evaluations, corr_ok, len(reports), violations, wall))
    return 1 if violations else 0


if __name__ == "__main__":
    main()
