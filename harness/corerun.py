"""Interpreter of the task-program language (DESIGN.md 3.1) on the REAL asynq library, recording the observable
trace.  The same programs are interpreted by the Lean machine (AsynqModel.Core.Machine); the trace vocabulary is
identical on both sides.  Only public API is used, plus read-only access to TaskScheduler._tasks/_batches."""
import sys



def _let_timeouts_through(e):
    """`except BaseException` around code of the implementation must not swallow the worker's per-case watchdog
    (worker.CaseTimeout): a hang is reported as a hang (and the worker restarted), not as an outcome `raised-CaseTimeout`"""
    if type(e).__name__ == "CaseTimeout":
        raise e


def sx(x):
    """JSON-ish nested lists -> S-expression text (iterative: programs can be nested thousands of levels deep)"""
    out = []
    stack = [x]
    while stack:
        y = stack.pop()
        if isinstance(y, (list, tuple)):
            out.append("(")
            stack.append(_CLOSE)
            stack.extend(reversed(y))
        elif y is _CLOSE:
            out.append(")")
        elif y is True:
            out.append("1")
        elif y is False:
            out.append("0")
        elif y is None:
            out.append("none")
        else:
            out.append(str(y))
    # join with spaces, but not after "(" nor before ")"
    res = []
    for i, t in enumerate(out):
        if i and t != ")" and out[i - 1] != "(":
            res.append(" ")
        res.append(t)
    return "".join(res)


_CLOSE = object()


class Node(object):
    __slots__ = ("tag", "kids")

    def __init__(self, tag, kids):
        self.tag = tag
        self.kids = kids


class UserError(Exception):
    pass


class AttrCell(object):
    """a plain attribute overridden with asynq.scoped_value.async_override"""

    def __init__(self):
        self.value = 0

    def get(self):
        return self.value


class FlushError(Exception):
    pass


class FalsyError(Exception):
    """user error token 2: an exception instance that is falsy (len() == 0)"""

    def __len__(self):
        return 0


class FlushAbort(BaseException):
    """what the flush body of an odd batch kind raises: not an Exception"""


class Holder(list):
    """the third argument of every task: its repr() raises - RecursionError for every other holder, a plain ValueError for
    the rest (asynq's task descriptions must cope with arguments that cannot be printed)"""
    count = 0

    def __init__(self, *a):
        list.__init__(self, *a)
        Holder.count += 1
        self.kind = Holder.count % 2

    def __repr__(self):
        if self.kind:
            raise RecursionError("argument cannot be repr()ed")
        raise ValueError("argument cannot be repr()ed")


class AbortError(BaseException):
    """user error token 3: derives from BaseException only (asynq treats it like any other task failure)"""


class Harness(object):
    def __init__(self, cfg):
        import asynq
        import asynq.scheduler
        from asynq import batching, contexts, futures, scoped_value

        self.asynq = asynq
        self.futures = futures
        self.batching = batching
        self.cfg = cfg  # {"kinds": {k: {"prio": ..., "raises": bool}}}
        self.trace = []
        self.objs = []          # keeps every future alive (ids stay unique, generators are not finalised early)
        self.ids = {}           # id(obj) -> future number
        self.nctx = 0
        self.ctx_objs = []
        self.err = {}
        self.err_tok = {}
        self.flush_err = {}
        self.cur = {}           # kind -> active HBatch
        self.batches = {}
        self.sv = {}
        self.max_events = cfg.get("max_events", 200000)
        self.njunk = 0
        self.closed = False
        self.salt = cfg.get("salt", 0)
        self.JUNK = [12345, 0, "", False, 0.0, "x", frozenset(), 7.5]
        H = self

        class HBatch(batching.BatchBase):
            def __init__(self, kind, seq):
                batching.BatchBase.__init__(self)
                self.kind = kind
                self.seq = seq
                H.batches[(kind, seq)] = self
                self.on_computed.subscribe(lambda b: H.emit(["bdone", [kind, seq], 1 if b.error() is None else 0]))

            # deterministic (per case) position in TaskScheduler._batches: ties between batches of equal priority are
            # broken by set iteration order; the salt varies that order from case to case, reproducibly
            def __hash__(self):
                return hash((self.kind * 7919 + self.seq * 104729 + H.salt) % 1000003)

            def __eq__(self, other):
                return self is other

            def _try_switch_active_batch(self):
                if H.cur.get(self.kind) is self:
                    H.cur[self.kind] = HBatch(self.kind, self.seq + 1)

            def _flush(self):
                H.emit(["flushI", [self.kind, self.seq], [H.fid(i) for i in self.items]])
                for it in list(self.items):
                    mode = it.mode
                    if mode == "ok":
                        it.set_value(H.item_val(self.kind, it.payload))
                    elif mode == "unset":
                        pass
                    else:
                        it.set_error(H.get_err(mode[1]))
                if H.kcfg(self.kind).get("raises"):
                    raise H.get_flush_err(self.kind)

            def get_priority(self):
                p = H.kcfg(self.kind).get("prio", "default")
                if H.cfg.get("intprio") and p != "default" and p != "rev":
                    return p[1] - 2        # plain ints, 0 (falsy) among them; same order as the model's (p, 0)
                if p == "default":
                    return (0, len(self.items))
                if p == "rev":
                    return (0, 100 - len(self.items))
                return (p[1], 0)

        class HItem(batching.BatchItemBase):
            def __init__(self, kind, payload, mode):
                b = H.cur.get(kind)
                if b is None:
                    b = H.cur[kind] = HBatch(kind, 0)
                batching.BatchItemBase.__init__(self, b)
                self.payload = payload
                self.mode = mode

        class HCtx(contexts.AsyncContext):
            def __init__(self, cid):
                self.cid = cid

            def __exit__(self, ty, value, tb):
                try:
                    return contexts.AsyncContext.__exit__(self, ty, value, tb)
                finally:
                    H.emit(["ctxX", self.cid])

            def resume(self):
                H.emit(["ctx", "R", self.cid])

            def pause(self):
                H.emit(["ctx", "P", self.cid])

        class HNonAsync(contexts.NonAsyncContext):
            def __init__(self, cid):
                self.cid = cid

            def __exit__(self, ty, value, tb):
                try:
                    return contexts.NonAsyncContext.__exit__(self, ty, value, tb)
                finally:
                    H.emit(["ctxX", self.cid])

        self.HBatch, self.HItem, self.HCtx, self.HNonAsync = HBatch, HItem, HCtx, HNonAsync
        self.scoped_value = scoped_value
        self._override_cls = None
        self._attr_override_cls = None

        @asynq.asynq()
        def task_fn(body, inh, me):
            return (yield from H.task_body(body, inh, me))

        self.task_fn = task_fn

    # ------------------------------------------------------------------ tokens
    def kcfg(self, kind):
        return self.cfg.get("kinds", {}).get(str(kind), {})

    def get_err(self, n):
        e = self.err.get(n)
        if e is None:
            e = self.err[n] = (AbortError if n == 3 else FalsyError if n == 2 else UserError)("user error %d" % n)
            self.err_tok[id(e)] = ["u", n]
        return e

    def get_flush_err(self, kind):
        e = self.flush_err.get(kind)
        if e is None:
            e = self.flush_err[kind] = (FlushAbort if kind % 2 else FlushError)("flush of kind %s raises" % kind)
            self.err_tok[id(e)] = ["flushraise", kind]
        return e

    @staticmethod
    def item_val(kind, payload):
        return 1000 * (kind + 1) + payload

    def etok(self, e):
        t = self.err_tok.get(id(e))
        if t is not None:
            return t
        if isinstance(e, TypeError) and "Cannot unwrap" in str(e):
            return ["typeerr"]
        # (the NonAsyncContext message embeds str(task), which may quote other exceptions' texts: match exactly)
        if isinstance(e, AssertionError) and str(e) == "Value of this item wasn't set on batch flush.":
            return ["notset"]
        if isinstance(e, AssertionError) and str(e).startswith("Task ") and "cannot yield while" in str(e):
            return ["nonasync"]
        if isinstance(e, RuntimeError) and "exceeded maximum threshold" in str(e):
            return ["stackguard"]
        return ["other", type(e).__name__]

    def vtok(self, v, depth=0):
        if depth > 60:
            return ["deep"]
        if v is None:
            return "none"
        if isinstance(v, bool):
            return ["other", "bool"]
        if isinstance(v, int):
            return ["a", v]
        if isinstance(v, Node):
            return ["node", v.tag] + [self.vtok(k, depth + 1) for k in v.kids]
        if type(v) is tuple:
            return ["tup"] + [self.vtok(k, depth + 1) for k in v]
        if type(v) is list:
            return ["lst"] + [self.vtok(k, depth + 1) for k in v]
        if type(v) is dict:
            return ["dict"] + [[k, self.vtok(x, depth + 1)] for k, x in v.items()]
        return ["other", type(v).__name__]

    def outcome_of(self, f):
        try:
            v = f.value()
        except BaseException as e:
            _let_timeouts_through(e)
            return ["err", self.etok(e)]
        return ["ok", self.vtok(v)]

    # ------------------------------------------------------------------ trace
    def emit(self, ev):
        if self.closed:
            return   # the run is over: events caused by garbage collection of suspended generators are not behaviour
        if len(self.trace) > self.max_events:
            raise RuntimeError("trace too long")
        self.trace.append(ev)

    def fid(self, obj):
        return self.ids.get(id(obj), "unknown")

    def reg(self, obj, kind, creator=None):
        n = len(self.objs)
        self.objs.append(obj)
        self.ids[id(obj)] = n
        if kind == "task":
            cr = getattr(obj, "creator", None)
            ev = ["new", n, "task", "none" if cr is None else self.fid(cr)]
        else:
            ev = ["new", n] + (kind if isinstance(kind, list) else [kind])
        self.emit(ev)
        if not (isinstance(kind, list) and kind[0] in ("const", "errfut")):
            obj.on_computed.subscribe(lambda f, n=n: self.emit(["done", n, self.outcome_of(f)]))
        return n

    # ------------------------------------------------------------------ interpreter
    def resolve(self, st, r):
        return st["own"][r[1]] if r[0] == "own" else st["inh"][r[1]]

    def build(self, st, y, leaves):
        """returns (python object to yield, the same structure with future numbers)"""
        if y == "none":
            return None, "none"
        if y == "junk":
            self.njunk += 1
            return self.JUNK[self.njunk % len(self.JUNK)], "junk"
        tag = y[0]
        if tag == "f":
            f = self.resolve(st, y[1])
            leaves.append(f)
            return f, ["f", self.fid(f)]
        if tag in ("tup", "lst"):
            parts = [self.build(st, x, leaves) for x in y[1:]]
            objs = [p[0] for p in parts]
            return (tuple(objs) if tag == "tup" else objs), [tag] + [p[1] for p in parts]
        if tag == "dict":
            parts = [(k, self.build(st, x, leaves)) for k, x in y[1:]]
            return {k: p[0] for k, p in parts}, ["dict"] + [[k, p[1]] for k, p in parts]
        raise ValueError(y)

    def make_ctx(self, c, me):
        cid = self.nctx
        self.nctx += 1
        if c[0] == "override":
            self.get_sv(c[1])
        self.emit(["ctxN", cid, me, c])
        if c[0] == "plain":
            obj = self.HCtx(cid)
        elif c[0] == "nonasync":
            obj = self.HNonAsync(cid)
        elif c[0] == "override" and c[1] != 0:
            cell = self.get_sv(c[1])
            if self._attr_override_cls is None:
                base = self.scoped_value.async_override
                H = self

                class LoggedAttrOverride(base):
                    def resume(self):
                        H.emit(["ctx", "R", self.cid])
                        base.resume(self)

                    def pause(self):
                        H.emit(["ctx", "P", self.cid])
                        base.pause(self)

                    def __exit__(self, ty, value, tb):
                        try:
                            return base.__exit__(self, ty, value, tb)
                        finally:
                            H.emit(["ctxX", self.cid])

                self._attr_override_cls = LoggedAttrOverride
            obj = self._attr_override_cls(cell, "value", c[2])
            obj.cid = cid
        elif c[0] == "override":
            sv = self.get_sv(c[1])
            if self._override_cls is None:
                base = type(sv.override(0))
                H = self

                class LoggedOverride(base):
                    def resume(self):
                        H.emit(["ctx", "R", self.cid])
                        base.resume(self)

                    def pause(self):
                        H.emit(["ctx", "P", self.cid])
                        base.pause(self)

                    def __exit__(self, ty, value, tb):
                        try:
                            return base.__exit__(self, ty, value, tb)
                        finally:
                            H.emit(["ctxX", self.cid])

                self._override_cls = LoggedOverride
            obj = self._override_cls(sv, c[2])
            obj.cid = cid
        else:
            raise ValueError(c)
        self.ctx_objs.append(obj)
        return obj

    def get_sv(self, var):
        """variable 0 is an AsyncScopedValue, every other variable is an attribute overridden with async_override
        (both are modelled by the same save/restore context in the machine)"""
        sv = self.sv.get(var)
        if sv is None:
            if var == 0:
                sv = self.scoped_value.AsyncScopedValue(0)
            else:
                sv = AttrCell()
            self.sv[var] = sv
        return sv

    def spawn(self, st, child, passrefs):
        me = Holder([None])
        t = self.task_fn.asynq(child, [self.resolve(st, r) for r in passrefs], me)
        me[0] = self.reg(t, "task")
        return t

    def task_body(self, body, inh, me):
        if me[0] is None:  # created by a plain synchronous call fn(...): register on first step
            t = self.asynq.scheduler.get_active_task()
            me[0] = self.reg(t if t is not None else object(), "task")
        st = {"own": [], "inh": inh, "env": [], "caught": None, "me": me[0], "resumes": 0}
        self.emit(["run", st["me"], 0, 1, "start"])
        r = yield from self.block(st, body)
        if r[0] == "ret":
            return r[1]
        return None

    def block(self, st, body):
        asynq = self.asynq
        me = st["me"]
        while True:
            op = body[0]
            if op == "ret":
                return ("ret", Node(body[1], tuple(st["env"])))
            elif op == "res":
                asynq.result(Node(body[1], tuple(st["env"])))
            elif op == "raise":
                raise self.get_err(body[1])
            elif op == "reraise":
                raise (st["caught"] if st["caught"] is not None else self.get_err(0))
            elif op == "spawn":
                st["own"].append(self.spawn(st, body[1], body[2]))
                body = body[3]
            elif op == "item":
                it = self.HItem(body[1], body[2], body[3])
                self.reg(it, ["item", body[1], it.batch.seq, it.index, body[2], body[3]])
                st["own"].append(it)
                body = body[4]
            elif op == "const":
                f = self.futures.ConstFuture(body[1])
                self.reg(f, ["const", body[1]])
                st["own"].append(f)
                body = body[2]
            elif op == "errfut":
                f = self.futures.ErrorFuture(self.get_err(body[1]))
                self.reg(f, ["errfut", body[1]])
                st["own"].append(f)
                body = body[2]
            elif op == "lazy":
                out = body[1]
                if out[0] == "ok":
                    f = self.futures.Future(lambda v=out[1]: v)
                else:
                    def prov(e=out[1]):
                        raise self.get_err(e)
                    f = self.futures.Future(prov)
                self.reg(f, "lazy")
                st["own"].append(f)
                body = body[2]
            elif op in ("yld", "reyld"):
                if op == "yld":
                    leaves = []
                    y, ry = self.build(st, body[1], leaves)
                    st["lasty"] = (y, ry, leaves)
                    kk, hh = body[2], body[3]
                else:
                    y, ry, leaves = st.get("lasty", (None, "none", []))
                    kk, hh = body[1], body[2]
                self.emit(["yield", me, st["resumes"], ry])
                try:
                    v = yield y
                except GeneratorExit:
                    raise
                except BaseException as e:
                    _let_timeouts_through(e)
                    recv = ["err", self.etok(e)]
                    st["caught"] = e
                    body = hh
                else:
                    recv = ["ok", self.vtok(v)]
                    st["env"].append(v)
                    body = kk
                st["resumes"] += 1
                dc = 1 if all(f.is_computed() for f in leaves) else 0
                self.emit(["run", me, st["resumes"], dc, recv])
            elif op == "sync":
                t = self.spawn(st, body[1], body[2])
                st["own"].append(t)
                self.emit(["syncE", me, self.fid(t)])
                try:
                    v = t.value()
                except GeneratorExit:
                    raise
                except BaseException as e:
                    _let_timeouts_through(e)
                    self.emit(["syncX", me, self.fid(t), ["err", self.etok(e)]])
                    st["caught"] = e
                    body = body[4]
                else:
                    self.emit(["syncX", me, self.fid(t), ["ok", self.vtok(v)]])
                    st["env"].append(v)
                    body = body[3]
            elif op == "syncfut":
                f = self.resolve(st, body[1])
                self.emit(["syncE", me, self.fid(f)])
                try:
                    v = f.value()
                except GeneratorExit:
                    raise
                except BaseException as e:
                    _let_timeouts_through(e)
                    self.emit(["syncX", me, self.fid(f), ["err", self.etok(e)]])
                    st["caught"] = e
                    body = body[3]
                else:
                    self.emit(["syncX", me, self.fid(f), ["ok", self.vtok(v)]])
                    st["env"].append(v)
                    body = body[2]
            elif op == "with":
                c = self.make_ctx(body[1], me)
                with c:
                    r = yield from self.block(st, body[2])
                if r[0] == "ret":
                    return r
                body = body[3]
            elif op == "endwith":
                return ("fall", None)
            elif op == "read":
                self.emit(["read", me, body[1], self.vtok(self.get_sv(body[1]).get())])
                body = body[2]
            elif op == "active":
                t = asynq.scheduler.get_active_task()
                self.emit(["active", me, "none" if t is None else self.fid(t)])
                body = body[1]
            else:
                raise ValueError("bad body %r" % (body,))

    # ------------------------------------------------------------------ top level
    def run_top(self, idx, conv, body):
        asynq = self.asynq
        sched = asynq.scheduler.get_scheduler()
        self.emit(["top", idx, conv])
        try:
            if conv == "call":
                v = self.task_fn(body, [], Holder([None]))
            else:
                me = Holder([None])
                t = self.task_fn.asynq(body, [], me)
                me[0] = self.reg(t, "task")
                v = t.value()
            out = ["ok", self.vtok(v)]
        except BaseException as e:
            if type(e).__name__ == "CaseTimeout":
                raise
            out = ["err", self.etok(e)]
        self.emit(["ret", out])
        sched2 = asynq.scheduler.get_scheduler()
        act = sched2.active_task
        nlive = len([b for b in sched2._batches if b.items and not b.is_flushed()])
        self.emit(["sched", 1 if sched2 is sched else 0, len(sched2._tasks), len(sched2._batches), nlive,
                   "none" if act is None else self.fid(act)])
        self.emit(["svals"] + [[k, self.vtok(sv.get())] for k, sv in sorted(self.sv.items())])


def prio_pair(b):
    p = b.get_priority()
    if isinstance(p, int):
        return [p + 2, 0]
    return list(p)


def pending_snapshot(H, sched, chosen):
    res = []
    for b in sched._batches:
        if hasattr(b, "kind"):
            res.append([b.kind, b.seq, len(b.items), 1 if b.is_flushed() else 0, prio_pair(b)])
    res.sort()
    return res


def run_program(case):
    """case: {"cfg": {...}, "tops": [[conv, body], ...], "opts": {...}} -> trace (list of event lists)"""
    import asynq
    import asynq.scheduler

    asynq.scheduler.reset()
    H = Harness(case.get("cfg", {}))
    sched = asynq.scheduler.get_scheduler()

    def before(batch):
        H.emit(["flushB", [getattr(batch, "kind", "?"), getattr(batch, "seq", "?")],
                [H.fid(i) for i in batch.items], prio_pair(batch), pending_snapshot(H, sched, batch)])

    def after(batch):
        H.emit(["flushE", [getattr(batch, "kind", "?"), getattr(batch, "seq", "?")]])

    def peek(batch):
        # a handler that looks at an item's value: forces the very batch the scheduler is about to flush
        try:
            if batch.items:
                batch.items[0].value()
            H.emit(["hookpeek", "ok"])
        except BaseException as e:
            _let_timeouts_through(e)
            H.emit(["hookpeek", H.etok(e)])

    sched.on_before_batch_flush.subscribe(before)
    if case.get("hook") == "peek":
        sched.on_before_batch_flush.subscribe(peek)
    sched.on_after_batch_flush.subscribe(after)
    opts = dict(case.get("opts", {}))
    clock = opts.pop("_clock", None)
    saved = {}
    dbg = asynq.debug.options
    real_utime = getattr(asynq.scheduler, "utime", None)
    try:
        if clock is not None:
            # scripted clock for the profiling code: every call advances by the next scripted amount (microseconds)
            state = {"now": 1000000, "i": 0}

            def fake_utime():
                state["now"] += clock[state["i"] % len(clock)]
                state["i"] += 1
                return state["now"]

            asynq.scheduler.utime = fake_utime
        for k, v in opts.items():
            saved[k] = getattr(dbg, k)
            setattr(dbg, k, v)
        for i, (conv, body) in enumerate(case["tops"]):
            H.run_top(i, conv, body)
    finally:
        for k, v in saved.items():
            setattr(dbg, k, v)
        if clock is not None and real_utime is not None:
            asynq.scheduler.utime = real_utime
        try:
            asynq.profiler.reset()
        except Exception:
            pass
        asynq.scheduler.reset()
        H.closed = True
    return list(H.trace)
