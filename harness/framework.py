"""Shared machinery of every check: proof gate, scratch builds of /repo, workers, Lean driver,
verdicts, shrinking, replays, known findings, evidence.  Stdlib only."""
import fcntl
import hashlib
import json
import os
import random
import re
import shutil
import subprocess
import sys
import tempfile
import time

VERIF = os.path.dirname(os.path.dirname(os.path.abspath(__file__)))
REPO = os.environ.get("ASYNQ_REPO", "/repo")
LEAN_DIR = os.path.join(VERIF, "lean")
DRIVER = os.path.join(LEAN_DIR, ".lake", "build", "bin", "driver")
CACHE = os.path.join(VERIF, ".cache")
PY = "/venv/bin/python"
ALLOWED_AXIOMS = {"propext", "Classical.choice", "Quot.sound"}
FORBIDDEN = re.compile(
    r"\bsorry\b|\badmit\b|^\s*axiom\s|native_decide|bv_decide|implemented_by|\bunsafe\s|maxHeartbeats\s+0\b"
)


class Broken(Exception):
    """the check itself cannot run (exit 2) - never a violation"""


def log(*a):
    print(*a, file=sys.stderr, flush=True)


# ----------------------------------------------------------------------------------------------
# Lean: build, forbidden-token grep, axiom audit
# ----------------------------------------------------------------------------------------------

def _strip_comments(src):
    # remove /- ... -/ (nested) and -- line comments
    out = []
    i, n, depth = 0, len(src), 0
    while i < n:
        if src.startswith("/-", i):
            depth += 1
            i += 2
        elif depth and src.startswith("-/", i):
            depth -= 1
            i += 2
        elif depth:
            if src[i] == "\n":
                out.append("\n")
            i += 1
        elif src.startswith("--", i):
            while i < n and src[i] != "\n":
                i += 1
        else:
            out.append(src[i])
            i += 1
    return "".join(out)


def lean_sources():
    res = []
    for root, dirs, files in os.walk(LEAN_DIR):
        dirs[:] = [d for d in dirs if d != ".lake"]
        for f in files:
            if f.endswith(".lean"):
                res.append(os.path.join(root, f))
    return sorted(res)


def lean_hash():
    h = hashlib.sha256()
    for p in lean_sources() + [os.path.join(LEAN_DIR, "lakefile.toml")]:
        h.update(p.encode())
        with open(p, "rb") as f:
            h.update(f.read())
    return h.hexdigest()[:20]


def lean_build():
    os.makedirs(os.path.join(LEAN_DIR, ".lake"), exist_ok=True)
    lock = open(os.path.join(LEAN_DIR, ".lake", "verif.lock"), "w")
    fcntl.flock(lock, fcntl.LOCK_EX)
    try:
        t0 = time.time()
        p = subprocess.run(["lake", "build"], cwd=LEAN_DIR, capture_output=True, text=True)
        if p.returncode != 0:
            raise Broken("lake build failed:\n" + p.stdout[-4000:] + p.stderr[-2000:])
        if not os.path.exists(DRIVER):
            raise Broken("driver executable missing after lake build")
        return time.time() - t0
    finally:
        fcntl.flock(lock, fcntl.LOCK_UN)
        lock.close()


def forbidden_tokens():
    hits = []
    for p in lean_sources():
        with open(p) as f:
            src = _strip_comments(f.read())
        for ln, line in enumerate(src.split("\n"), 1):
            if FORBIDDEN.search(line):
                hits.append("%s:%d: %s" % (os.path.relpath(p, VERIF), ln, line.strip()))
    return hits


def audit_axioms(modules, theorems):
    """#print axioms on every property theorem; returns {theorem: [axioms]}"""
    os.makedirs(CACHE, exist_ok=True)
    key = hashlib.sha256((lean_hash() + "|" + ",".join(modules) + "|" + ",".join(theorems)).encode()).hexdigest()[:20]
    cf = os.path.join(CACHE, "audit-%s.json" % key)
    if os.path.exists(cf):
        try:
            with open(cf) as f:
                return json.load(f)
        except ValueError:      # another check is writing it right now: compute it ourselves
            pass
    src = "".join("import %s\n" % m for m in modules) + "".join("#print axioms %s\n" % t for t in theorems)
    fd, path = tempfile.mkstemp(suffix=".lean", prefix="Audit", dir=CACHE)
    os.write(fd, src.encode())
    os.close(fd)
    try:
        p = subprocess.run(["lake", "env", "lean", path], cwd=LEAN_DIR, capture_output=True, text=True)
    finally:
        os.unlink(path)
    out = p.stdout + p.stderr
    if p.returncode != 0:
        raise Broken("axiom audit failed:\n" + out[-3000:])
    res = {}
    text = out.replace("\n  ", " ").replace("\n ", " ")
    for m in re.finditer(r"'([^']+)' depends on axioms: \[([^\]]*)\]", text):
        res[m.group(1)] = [a.strip() for a in m.group(2).split(",") if a.strip()]
    for m in re.finditer(r"'([^']+)' does not depend on any axioms", text):
        res[m.group(1)] = []
    missing = [t for t in theorems if t not in res]
    if missing:
        raise Broken("axiom audit: no answer for %s\n%s" % (missing, out[-2000:]))
    fd, tmp = tempfile.mkstemp(suffix=".json", prefix="audit-", dir=CACHE)
    with os.fdopen(fd, "w") as f:
        json.dump(res, f)
    os.replace(tmp, cf)         # atomic: concurrent checks never see a half-written cache file
    return res


def proof_gate(modules, theorems, tier):
    """returns dict(obligations, discharged, axioms, checker_cmd, build_s)"""
    build_s = lean_build()
    hits = forbidden_tokens()
    if hits:
        raise Broken("forbidden tokens in Lean sources:\n" + "\n".join(hits))
    ax = audit_axioms(modules, theorems)
    bad = {t: a for t, a in ax.items() if not set(a) <= ALLOWED_AXIOMS}
    if bad:
        raise Broken("theorems depend on non-standard axioms: %r" % bad)
    checker = "cd lean && lake build && lake env lean <#print axioms of %d theorems>" % len(theorems)
    if tier == "thorough" and modules:
        p = subprocess.run(["lake", "env", "leanchecker"] + modules, cwd=LEAN_DIR, capture_output=True, text=True)
        if p.returncode != 0:
            raise Broken("leanchecker failed:\n" + (p.stdout + p.stderr)[-3000:])
        checker += " && lake env leanchecker " + " ".join(modules)
    return dict(
        obligations=len(theorems),
        discharged=len(ax),
        axioms=sorted({a for v in ax.values() for a in v}),
        theorems=theorems,
        checker_cmd=checker,
        build_s=round(build_s, 2),
    )


# ----------------------------------------------------------------------------------------------
# scratch builds of /repo's current working tree
# ----------------------------------------------------------------------------------------------

SRC_EXT = (".py", ".pxd", ".pyi", ".typed")


def _copy_sources(dst):
    src = os.path.join(REPO, "asynq")
    os.makedirs(os.path.join(dst, "asynq"))
    for name in sorted(os.listdir(src)):
        p = os.path.join(src, name)
        if os.path.isfile(p) and name.endswith(SRC_EXT):
            shutil.copy2(p, os.path.join(dst, "asynq", name))
    # tests are not needed; setup.py + README for the compiled build
    for name in ("setup.py", "README.rst"):
        p = os.path.join(REPO, name)
        if os.path.exists(p):
            shutil.copy2(p, os.path.join(dst, name))


def source_hash():
    h = hashlib.sha256()
    src = os.path.join(REPO, "asynq")
    for name in sorted(os.listdir(src)):
        p = os.path.join(src, name)
        if os.path.isfile(p) and name.endswith((".py", ".pxd")):
            h.update(name.encode())
            with open(p, "rb") as f:
                h.update(f.read())
    with open(os.path.join(REPO, "setup.py"), "rb") as f:
        h.update(f.read())
    return h.hexdigest()[:20]


class Scratch:
    """pure-Python (and optionally Cython-compiled) copies of /repo's current tree, removed on exit"""

    def __init__(self, builds=("py",)):
        self.root = tempfile.mkdtemp(prefix="asynq-verif.")
        self.builds = {}
        self.hash = source_hash()
        try:
            for b in builds:
                if b == "py":
                    d = os.path.join(self.root, "py")
                    _copy_sources(d)
                    self.builds["py"] = d
                elif b == "cy":
                    self.builds["cy"] = self._cython()
        except BaseException:
            self.close()
            raise

    def _cython(self):
        os.makedirs(os.path.join(CACHE, "cy"), exist_ok=True)
        dst = os.path.join(CACHE, "cy", self.hash)
        lock = open(os.path.join(CACHE, "cy", "lock"), "w")
        fcntl.flock(lock, fcntl.LOCK_EX)
        try:
            if not os.path.exists(os.path.join(dst, "OK")):
                shutil.rmtree(dst, ignore_errors=True)
                tmp = dst + ".tmp"
                shutil.rmtree(tmp, ignore_errors=True)
                _copy_sources(tmp)
                p = subprocess.run(
                    [PY, "setup.py", "build_ext", "--inplace", "-j16"], cwd=tmp, capture_output=True, text=True
                )
                if p.returncode != 0:
                    shutil.rmtree(tmp, ignore_errors=True)
                    # a tree that no longer compiles is not a property violation of the pure build; report as broken
                    raise Broken("cython build of /repo's tree failed:\n" + (p.stdout + p.stderr)[-3000:])
                shutil.rmtree(os.path.join(tmp, "build"), ignore_errors=True)
                for f in os.listdir(os.path.join(tmp, "asynq")):
                    if f.endswith(".c"):
                        os.unlink(os.path.join(tmp, "asynq", f))
                open(os.path.join(tmp, "OK"), "w").close()
                os.rename(tmp, dst)
                # keep only the two newest compiled builds (disk)
                olds = sorted(
                    (d for d in os.listdir(os.path.join(CACHE, "cy")) if len(d) == 20),
                    key=lambda d: os.path.getmtime(os.path.join(CACHE, "cy", d)),
                )
                for d in olds[:-2]:
                    shutil.rmtree(os.path.join(CACHE, "cy", d), ignore_errors=True)
            return dst
        finally:
            fcntl.flock(lock, fcntl.LOCK_UN)
            lock.close()

    def env(self, build):
        e = dict(os.environ)
        e["PYTHONPATH"] = self.builds[build] + os.pathsep + os.path.join(VERIF, "harness")
        e["ASYNQ_VERIF_BUILD_DIR"] = self.builds[build]
        e["ASYNQ_VERIF_BUILD"] = build
        e["PYTHONDONTWRITEBYTECODE"] = "1"
        e["PYTHONHASHSEED"] = e.get("PYTHONHASHSEED", "0")
        return e

    def close(self):
        shutil.rmtree(self.root, ignore_errors=True)

    def __enter__(self):
        return self

    def __exit__(self, *a):
        self.close()


# ----------------------------------------------------------------------------------------------
# workers (run the real implementation) and the Lean driver (runs the model)
# ----------------------------------------------------------------------------------------------

def run_worker(scratch, build, pid, cases, timeout, hangs=0):
    """run the cases on the implementation in a subprocess; returns list of per-case dicts
    {id, lines:[...], obs:{...}, error?}.  A case on which the implementation hangs is reported with hang=True."""
    inp = os.path.join(scratch.root, "cases-%s-%d.json" % (build, random.getrandbits(40)))
    outp = inp + ".out"
    with open(inp, "w") as f:
        json.dump(cases, f)
    cmd = [PY, "-B", os.path.join(VERIF, "harness", "worker.py"), pid, inp, outp]
    try:
        p = subprocess.run(cmd, env=scratch.env(build), capture_output=True, text=True, timeout=timeout, cwd=scratch.root)
        err = p.stderr
        rc = p.returncode
    except subprocess.TimeoutExpired as e:
        err = "worker timeout"
        rc = -9
    res = []
    if os.path.exists(outp):
        with open(outp) as f:
            for line in f:
                try:
                    res.append(json.loads(line))
                except ValueError:
                    pass
    done = {r["id"] for r in res}
    if rc == 75:
        # a case hung (recorded); after 3 hangs in this slice the remaining cases are not run: they would only repeat
        # the finding at the price of a watchdog timeout each
        rest = [c for c in cases if c["id"] not in done]
        if rest and hangs + 1 < 3:
            res.extend(run_worker(scratch, build, pid, rest, timeout, hangs + 1))
        else:
            res.extend({"id": c["id"], "lines": [], "skipped": True} for c in rest)
    elif rc != 0:
        # the first case not reported is the one that killed / hung the worker
        rest = [c for c in cases if c["id"] not in done]
        if rest:
            res.append({"id": rest[0]["id"], "lines": [], "crash": True, "hang": rc == -9, "stderr": err[-2000:]})
            if len(rest) > 1:
                res.extend(run_worker(scratch, build, pid, rest[1:], timeout))
        elif not res:
            raise Broken("worker failed without output:\n" + err[-3000:])
    for f in (inp, outp):
        if os.path.exists(f):
            os.unlink(f)
    return res


def run_parallel(scratch, build, pid, cases, nworkers=12, timeout=600):
    from concurrent.futures import ThreadPoolExecutor

    if not cases:
        return []
    nworkers = max(1, min(nworkers, len(cases)))
    chunks = [cases[i::nworkers] for i in range(nworkers)]
    with ThreadPoolExecutor(nworkers) as ex:
        parts = list(ex.map(lambda ch: run_worker(scratch, build, pid, ch, timeout), chunks))
    res = [r for part in parts for r in part]
    res.sort(key=lambda r: r["id"])
    return res


def run_driver(lines):
    """feed protocol lines to the compiled Lean driver, return its output lines"""
    p = subprocess.run([DRIVER], input="\n".join(lines) + "\n", capture_output=True, text=True)
    if p.returncode != 0:
        raise Broken("lean driver failed: rc=%s\n%s" % (p.returncode, (p.stdout + p.stderr)[-3000:]))
    return [l for l in p.stdout.split("\n") if l.strip()]


def parse_verdict(line):
    """R <id> CORR=ok|diff SPEC=ok|fail:<clause> SPECM=ok|fail:<clause> | detail"""
    head, _, detail = line.partition(" | ")
    parts = head.split()
    if len(parts) < 5 or parts[0] != "R":
        raise Broken("unparsable driver line: %r" % line)
    v = {"id": int(parts[1]), "detail": detail}
    for kv in parts[2:]:
        k, _, val = kv.partition("=")
        v[k.lower()] = val
    return v


# ----------------------------------------------------------------------------------------------
# known findings
# ----------------------------------------------------------------------------------------------

def known_findings(pid):
    p = os.path.join(VERIF, "known_findings.json")
    if not os.path.exists(p):
        return []
    with open(p) as f:
        data = json.load(f)
    return [e for e in data.get("findings", []) if e.get("property") == pid and e.get("status") == "open"]


# ----------------------------------------------------------------------------------------------
# evidence
# ----------------------------------------------------------------------------------------------

def write_evidence(pid, tier, seed, level, coverage, assumptions, wall_s, violations):
    os.makedirs(os.path.join(VERIF, "evidence"), exist_ok=True)
    ev = dict(
        property_id=pid,
        tier=tier,
        seed=seed,
        level=level,
        coverage=coverage,
        assumptions=assumptions,
        wall_s=round(wall_s, 2),
        violations=violations,
    )
    tmp = os.path.join(VERIF, "evidence", ".%s.json.tmp" % pid)
    with open(tmp, "w") as f:
        json.dump(ev, f, indent=1, sort_keys=True)
    os.replace(tmp, os.path.join(VERIF, "evidence", "%s.json" % pid))


def write_replay(pid, payload):
    os.makedirs(os.path.join(VERIF, "replays"), exist_ok=True)
    blob = json.dumps(payload, indent=1, sort_keys=True, default=str)
    h = hashlib.sha256(blob.encode()).hexdigest()[:12]
    path = os.path.join(VERIF, "replays", "%s-%s.json" % (pid, h))
    with open(path, "w") as f:
        f.write(blob)
    return os.path.relpath(path, VERIF)
