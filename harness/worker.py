"""worker.py PID cases.json out.jsonl  -- runs cases on the real implementation (scratch build on PYTHONPATH)"""
import importlib
import io
import json
import os
import signal
import sys

sys.setrecursionlimit(12000)   # programs are deeply nested lists (json, S-expressions)
import traceback

sys.path.insert(0, os.path.dirname(os.path.abspath(__file__)))


class CaseTimeout(BaseException):
    pass


def _alarm(signum, frame):
    raise CaseTimeout()


def main():
    pid, inp, outp = sys.argv[1:4]
    bdir = os.environ["ASYNQ_VERIF_BUILD_DIR"]
    import asynq
    import asynq.scheduler

    for m in (asynq, asynq.scheduler):
        f = os.path.realpath(m.__file__)
        if not f.startswith(os.path.realpath(bdir) + os.sep):
            print("asynq imported from %s, expected under %s" % (f, bdir), file=sys.stderr)
            sys.exit(3)
    if os.environ.get("ASYNQ_VERIF_BUILD") == "cy" and not asynq.scheduler.__file__.endswith(".so"):
        print("compiled build requested but %s is not compiled" % asynq.scheduler.__file__, file=sys.stderr)
        sys.exit(3)
    chk = importlib.import_module("checks.%s" % pid.lower())
    with open(inp) as f:
        cases = json.load(f)
    signal.signal(signal.SIGALRM, _alarm)
    per_case = float(os.environ.get("VERIF_CASE_TIMEOUT", getattr(chk, "CASE_TIMEOUT", 20)))
    real_stdout = sys.stdout
    with open(outp, "w") as out:
        for case in cases:
            rec = {"id": case["id"]}
            sys.stdout = io.StringIO()  # asynq prints diagnostics; keep them out of the way
            try:
                signal.setitimer(signal.ITIMER_REAL, per_case)
                try:
                    r = chk.run_case(case)
                finally:
                    signal.setitimer(signal.ITIMER_REAL, 0)
                rec.update(r)
            except CaseTimeout:
                rec.update({"crash": True, "hang": True, "lines": [], "stderr": "case exceeded %ss" % per_case})
            except Exception:
                rec.update({"error": traceback.format_exc()[-1500:], "lines": []})
            finally:
                sys.stdout = real_stdout
            out.write(json.dumps(rec) + "\n")
            out.flush()
            if rec.get("hang"):
                # interpreter state after an interrupted scheduler run is not trustworthy: restart
                os._exit(75)


if __name__ == "__main__":
    main()
