"""C03 - see DESIGN.md section 5; shared machinery in corecommon.py"""
from checks import corecommon as cc
from checks import corefam8

PID = "C03"
LEVEL = cc.LEVEL
BUILDS = cc.BUILDS
CASE_TIMEOUT = cc.CASE_TIMEOUT
LEAN_MODULES = ['AsynqModel.Theorems.Acyclic', 'AsynqModel.Theorems.C03', 'AsynqModel.Theorems.C03b', 'AsynqModel.Theorems.C03c', 'AsynqModel.Theorems.C03d', 'AsynqModel.Theorems.SpecC03']
THEOREMS = ["AsynqModel.Core." + n for n in ['acyclic_refs', 'acyclic_deps', 'no_await_cycle', 'await_rank', 'no_reentrancy', 'no_revisit_between_visits', 'no_stuck_wellscoped_partial', 'C03_ready', 'C03_once', 'C03_once_range', 'C03_runIdx_complete', 'C03_no_run_after_done', 'C03_running_uncomputed', 'C03_done_is_final', 'C03_yield_then_resume', 'C03_invariant', 'gensOf_map_fst', 'C03_inv_gensDistinct', 'C03_inv_buriedNotPending', 'C03_inv_ready', 'C03_lazy_start', 'C03_never_awaited_never_runs', 'C03_never_awaited_never_runs_dec', 'C03_never_awaited_not_started', 'C03_startable_awaited', 'C03_extract_reverse', 'C03_order_stack', 'C03_order_stack_step', 'C03_flush_has_batch', 'C03_terminates_yieldonly', 'C03_terminates_yieldonly_silent', 'C03_guard_never', 'C03_terminates', 'C03_terminates_silent', 'C03_sync_measure_decreases', 'C03_started_awaited', 'C03d_flush_finds_no_batch', 'C03d_wellscoped_needed', 'Spec_C03_accepts', 'Spec_C03_accepts_ws', 'Spec_C03_accepts_partial', 'Spec_C03_only_order_ret', 'C03_started_computed_at_return', 'C03_order_invariant', 'C03_order_at_start', 'Spec_C03_ret_needs_guard', 'Spec_C03_ret_needs_noNonAsync']]
LEAN_MODULES = LEAN_MODULES + ['AsynqModel.Theorems.C03e']
THEOREMS = THEOREMS + ["AsynqModel.Core." + n for n in ['no_stuck_wellscoped', 'no_stuck_wellscoped_silent', 'no_stuck_wellscoped_iff', 'no_stuck_wellscoped_full', 'no_syncret_stuck', 'oracle_needed', 'C03_terminates_strong', 'C03_terminates_strong_silent', 'C03_tops_accounted', 'guard_never_static', 'guard_never_stackBound', 'C03_stack_bound', 'C03_terminates_static', 'C03_terminates_static_silent']]
LEAN_MODULES = LEAN_MODULES + ['AsynqModel.Theorems.C03f']
THEOREMS = THEOREMS + ["AsynqModel.Core." + n for n in ['C03_terminates_guard', 'C03_terminates_guard_silent', 'C03_terminates_any', 'C03_measure_decreases_any', 'C03_terminates_nonasync', 'C03_terminates_nonasync_silent', 'C03_terminates_nonasync_nofail', 'C03f_guard_needed_for_orphans']]
LEAN_MODULES = LEAN_MODULES + ['AsynqModel.Theorems.NoNA']
THEOREMS = THEOREMS + ["AsynqModel.Core." + n for n in ['Spec_C03_accepts_order_any', 'Spec_C03_only_ret_any', 'C03_order_invariant_any']]
MIX = [('yield',3),('yield_err',2),('full',2),('sync',1)]
RULE = ("grammar-generated task programs (profiles %s; trees and DAGs of tasks, 1-3 batch kinds with priority overrides "
        "and raising flushes, nested yield structures, errors, try/except, synchronous re-entry, contexts) interpreted on "
        "the real scheduler and replayed in the Lean machine with the implementation's flush choices; non-trivial = at "
        "least 2 tasks and 1 scheduler flush; distinct by hash of (configuration, programs)" % (", ".join(p for p, _ in MIX)))
RULE += cc.ASYNCIO_RULE
RULE += "; plus family reawait (tasks left unfinished by an exception that ESCAPED the scheduler - KeyboardInterrupt / BaseException-only error / SystemExit of a lazy provider, the MAX_TASK_STACK_SIZE guard - are awaited again by a later computation: completed, every step once), judged by direct expectation (Drv/Families6t.lean)"
RULE += "; plus round-6 family deepfail (chains of 10..4000 tasks - thorough 20000 -, under the interpreter's default recursion limit, each task created inside the body of the one above, whose k-th level FAILS, with / without a handler above: value() raises that instance or returns, every task computed, every body started and resumed once), judged by direct expectation (Drv/Families8.lean)"
TRUSTED = cc.TRUSTED_CORE + cc.TRUSTED_ASYNCIO
ASSUMPTIONS = cc.ASSUMPTIONS_CORE


def extra(tier, rng):
    """chains of awaiting tasks far deeper than the interpreter's recursion limit, and structured trees"""
    import coregen
    res = [cc.chain_case(n, k) for n in ((50, 1200, 5000) if tier == "quick" else (50, 1200, 5000, 20000, 50000)) for k in ("plain", "item")]
    for d, f in ((1, 3), (2, 3), (3, 2), (2, 5)):
        res.append({"cfg": {"kinds": {}}, "profile": "tree", "tops": [["value", coregen.balanced_tree(d, f)]]})
    for n in (2, 5, 12, 30):
        res.append({"cfg": {"kinds": {}}, "profile": "chain", "tops": [["call", coregen.dependent_chain(n)]]})
    res += [{"special": "longloop", "n": n} for n in ((30, 2500) if tier == "quick" else (30, 2500, 20000))]
    res.append({"cfg": {"kinds": {}}, "family": ["many-yields", 1200 if tier == "quick" else 3000]})
    res.append({"cfg": {"kinds": {}}, "family": ["wide", 1100 if tier == "quick" else 2600]})
    res += cc.asyncio_cases(PID, tier, cc.fork(rng, "aio"))
    res += cc.corefam4.aiostart_cases(tier, cc.fork(rng, "aiostart"))
    res += cc.corefam6t.reawait_cases(tier, cc.fork(rng, "reawait"))
    res += corefam8.deepfail_cases(tier, cc.fork(rng, "deepfail"))
    return res


def plan(tier, seed):
    return cc.make_plan(PID, tier, seed, MIX, 3000, 40000, ntops=(1,), extra=extra)


def run_case(case):
    if case.get("special") in corefam8.RUNNERS:
        return corefam8.run(case, PID)
    return cc.run_case_for(PID, case)


def shrink(case):
    if case.get("special") in corefam8.RUNNERS:
        return corefam8.shrink(case)
    return cc.shrink_case(case)


def neighbours(case, rng):
    return cc.neighbours_case(case, rng, [p for p, _ in MIX])


def signature(case, v):
    return cc.signature_for(case, v)


def on_crash(r, v):
    return cc.on_crash_terminates(r, v)
