"""C07 - see DESIGN.md section 5; shared machinery in corecommon.py"""
from checks import corecommon as cc
from checks import ctxhist
from checks import corefam7

PID = "C07"
LEVEL = cc.LEVEL
BUILDS = cc.BUILDS
CASE_TIMEOUT = cc.CASE_TIMEOUT
LEAN_MODULES = ['AsynqModel.Theorems.C07', 'AsynqModel.Theorems.C07b', 'AsynqModel.Theorems.Acyclic', 'AsynqModel.Theorems.SpecC07']
THEOREMS = ["AsynqModel.Core." + n for n in ['C07_saverestore', 'C07_saverestore_task', 'C07_exited_paused', 'C07_all_paused_at_top', 'C07_lifo_of_norevisit', 'C07_values_of_norevisit', 'C07_restored_of_norevisit', 'C07_svals_zero_of_norevisit', 'C07_norevisit_of_cold', 'C07b_final_reachNR', 'C07_noRevisit', 'C07_lifo', 'C07_values', 'C07_restored_at_top', 'C07_svals_zero', 'C07b_final_ws', 'Spec_C07_accepts', 'Spec_C07_accepts_ws', 'Spec_C07_accepts_run', 'Spec_C07_read_value']]
LEAN_MODULES = LEAN_MODULES + ['AsynqModel.Theorems.C07c']
THEOREMS = THEOREMS + ["AsynqModel.Core." + n for n in ['C07_reads_sequential', 'C07_reads_sequential_at', 'C07_reads_complete', 'C07_read_env', 'C07_block_restores', 'C07_reference_conservative']]
LEAN_MODULES = LEAN_MODULES + ['AsynqModel.Theorems.NoNA']
THEOREMS = THEOREMS + ["AsynqModel.Core." + n for n in ['C07_lifo_any', 'C07_lifo_needs_noNonAsync', 'C07_values_any', 'C07_restored_at_top_any', 'C07_all_paused_at_top_any', 'Spec_C07_accepts_any', 'Spec_C07_read_value_any']]
LEAN_MODULES = LEAN_MODULES + ['AsynqModel.Theorems.C07d']
THEOREMS = THEOREMS + ["AsynqModel.Core." + n for n in ['C07_read_value_dag', 'C07_read_value_dag_running', 'C07_read_value_dag_run', 'C07_spine_label_chain', 'C07_spine_unique', 'C07_resumed_iff_on_spine', 'C07_read_value_tree', 'Spec_C07_read_value_spine', 'C07_shared_read_depends_on_scheduler', 'C07d_both_await', 'C07d_long_spine', 'C07d_needs_guard', 'C07d_needs_wellscoped']]
LEAN_MODULES = LEAN_MODULES + ['AsynqModel.Theorems.C07e']
THEOREMS = THEOREMS + ["AsynqModel.Core." + n for n in ['C07_read_from_somewhere', 'C07_read_from_spine', 'C07e_expect_cases']]
MIX = [('yield_ctx',5),('full',3)]
RULE = ("grammar-generated task programs (profiles %s; trees and DAGs of tasks, 1-3 batch kinds with priority overrides "
        "and raising flushes, nested yield structures, errors, try/except, synchronous re-entry, contexts) interpreted on "
        "the real scheduler and replayed in the Lean machine with the implementation's flush choices; non-trivial = at "
        "least 2 tasks and 1 scheduler flush; distinct by hash of (configuration, programs)" % (", ".join(p for p, _ in MIX)))
LEAN_MODULES = LEAN_MODULES + ctxhist.LEAN_MODULES
THEOREMS = THEOREMS + ["AsynqModel.Contexts." + n for n in ctxhist.THEOREMS]
RULE += "; plus " + ctxhist.RULE
RULE += "; plus family afterthrow (overrides entered after a task caught a thrown-in error), judged by direct expectation (Drv/Families6c.lean)"
RULE += corefam7.RULE
TRUSTED = cc.TRUSTED_CORE + ctxhist.TRUSTED
ASSUMPTIONS = cc.ASSUMPTIONS_CORE + ctxhist.ASSUMPTIONS


def extra(tier, rng):
    import coregen
    return [coregen.override_family(rng) for _ in range(150 if tier == "quick" else 3000)] + \
        [coregen.shared_override_family(rng) for _ in range(100 if tier == "quick" else 2000)] + \
        ctxhist.cases(tier, rng, focus="ov") + cc.corefam4.callctx_cases(tier, cc.fork(rng, "callctx")) + \
        cc.guard_ctx_cases(tier, cc.fork(rng, "guard")) + cc.corefam6c.afterthrow_cases(tier, cc.fork(rng, "afterthrow")) + \
        corefam7.sharedread_cases(tier, cc.fork(rng, "sharedread"))


def plan(tier, seed):
    return cc.make_plan(PID, tier, seed, MIX, 3000, 40000, ntops=(1,), extra=extra)


def run_case(case):
    if case.get("special") in ("ctxhist", "ctxwith"):
        return ctxhist.run(case)
    if case.get("special") == "sharedread":
        return corefam7.run_sharedread(case, PID)
    return cc.run_case_for(PID, case)


def shrink(case):
    if case.get("special") in ("ctxhist", "ctxwith"):
        return ctxhist.shrink(case)
    if case.get("special") == "sharedread":
        return corefam7.shrink(case)
    return cc.shrink_case(case)


def neighbours(case, rng):
    if case.get("special") in ("ctxhist", "ctxwith"):
        return ctxhist.neighbours(case, rng)
    return cc.neighbours_case(case, rng, [p for p, _ in MIX])


def signature(case, v):
    return cc.signature_for(case, v, PID)
