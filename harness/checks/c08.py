"""C08 - see DESIGN.md section 5; shared machinery in corecommon.py"""
from checks import corecommon as cc
from checks import corefam8
from checks import ctxhist

PID = "C08"
LEVEL = cc.LEVEL
BUILDS = cc.BUILDS
CASE_TIMEOUT = cc.CASE_TIMEOUT
LEAN_MODULES = ["AsynqModel.Theorems.C08", "AsynqModel.Theorems.SpecC08"]
THEOREMS = ["AsynqModel.Core." + n for n in (
    "C08_active_invariant_min", "C08_active_min", "C08_creator_min", "C08_frames_min", "C08_clean_always", "C08_clean_min",
    "C08_active_none_at_top_always", "C08_active_none_at_top_min", "C08_guard_resets", "C08_guard_step", "C08_guard_only",
    "C08_active_always", "Spec_C08_accepts", "Spec_C08_accepts_spec", "Spec_C08_accepts_clean", "Spec_C08_accepts_partial",
    "Spec_C08_live_source")]
LEAN_MODULES = LEAN_MODULES + ['AsynqModel.Theorems.C08b', 'AsynqModel.Theorems.AuditFixes', 'AsynqModel.Theorems.SpecC04b']
THEOREMS = THEOREMS + ["AsynqModel.Core." + n for n in ['C08_no_stale_batch', 'C08_no_stale_batch_trace', 'Spec_C08_accepts_nonasync_free', 'Spec_C08_accepts_nonasync_free_run', 'C08_fresh_state', 'C08_unflushed_is_current', 'C08_leftover_iff', 'C08_dead_entries_invisible', 'C08_fresh_equiv']]
MIX = [('full',4),('sync',3),('yield_err',1),('nonasync',1)]
RULE = ("grammar-generated task programs (profiles %s; trees and DAGs of tasks, 1-3 batch kinds with priority overrides "
        "and raising flushes, nested yield structures, errors, try/except, synchronous re-entry, contexts) interpreted on "
        "the real scheduler and replayed in the Lean machine with the implementation's flush choices; non-trivial = at "
        "least 2 tasks and 1 scheduler flush; distinct by hash of (configuration, programs)" % (", ".join(p for p, _ in MIX)))
LEAN_MODULES = LEAN_MODULES + ctxhist.WITH_LEAN_MODULES
THEOREMS = THEOREMS + ["AsynqModel.Contexts." + n for n in ctxhist.WITH_THEOREMS]
# audited with the rest, but true by construction of the with-block model and not part of the claim (see ctxhist.WITH_BY_CONSTRUCTION)
BY_CONSTRUCTION = ["AsynqModel.Contexts." + n for n in ctxhist.WITH_BY_CONSTRUCTION]
RULE += "; plus round-6 family flushabort (a flush that fails BEFORE the batch is executed - raising on_before_batch_flush handler, raising _try_switch_active_batch - or right after it, at top level or in a nested synchronous call; then an unrelated computation: scheduler clean, only its own batch flushed, hooks for its batch only, no item of the first computation touched), judged by direct expectation (Drv/Families8.lean)"
RULE += "; plus " + ctxhist.WITH_RULE
RULE += "; plus families hookenter, composite (Drv/Families6c.lean) crossthread and reawait (Drv/Families6t.lean), judged by direct expectation"
TRUSTED = cc.TRUSTED_CORE + ["family ctxwith: hand-written Lean model AsynqModel.Contexts.runW (Lib/ContextsWith.lean: with-blocks of a "
                             "generator, generator.close(), unwinding) tied to the code by the differential run of "
                             "harness/checks/ctxhist.py only"]
ASSUMPTIONS = cc.ASSUMPTIONS_CORE


def extra(tier, rng):
    """computations that hit the runaway-recursion guard (MAX_TASK_STACK_SIZE lowered), alone and nested in
    synchronous calls whose callers catch the RuntimeError, followed by further computations on the same thread"""
    import coregen
    res = [coregen.foreign_sync_family(rng) for _ in range(40 if tier == "quick" else 600)]
    res += [{"special": "resetbetween", "resets": r, "sync": sy} for r in (0, 1, 2) for sy in (False, True)]
    res += cc.ctxraise_cases(two_hooks=True)
    res += cc.guard_cases(tier, rng)
    res += cc.corefam4.selfawait_cases(tier, cc.fork(rng, "selfawait"))
    res += ctxhist.with_cases(tier, cc.fork(rng, "ctxwith"))
    res += corefam8.flushabort_cases(tier, cc.fork(rng, "flushabort"))
    res += cc.corefam6c.hookenter_cases(tier, cc.fork(rng, "hookenter")) + cc.corefam6c.composite_cases(tier, cc.fork(rng, "composite"))
    res += cc.corefam6t.crossthread_cases(tier, cc.fork(rng, "crossthread")) + cc.corefam6t.reawait_cases(tier, cc.fork(rng, "reawait"))
    return res


def plan(tier, seed):
    return cc.make_plan(PID, tier, seed, MIX, 2000, 30000, ntops=(1,2,3,4), extra=extra)


def run_case(case):
    if case.get("special") in corefam8.RUNNERS:
        return corefam8.run(case, PID)
    if case.get("special") == "ctxwith":
        return ctxhist.run(case)
    return cc.run_case_for(PID, case)


def shrink(case):
    if case.get("special") in corefam8.RUNNERS:
        return corefam8.shrink(case)
    if case.get("special") == "ctxwith":
        return ctxhist.shrink(case)
    return cc.shrink_case(case)


def neighbours(case, rng):
    if case.get("special") == "ctxwith":
        return ctxhist.neighbours(case, rng)
    return cc.neighbours_case(case, rng, [p for p, _ in MIX])


def signature(case, v):
    if case.get("special") == "ctxwith":
        return ctxhist.with_signature(case, v)
    return cc.signature_for(case, v, PID)


def on_crash(r, v):
    return cc.on_crash_terminates(r, v)
