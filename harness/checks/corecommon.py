"""Shared part of the checks C01-C08: task programs interpreted on the real scheduler (corerun) and replayed in the
Lean machine (AsynqModel.Core.Machine) by the driver mode `core`."""
import hashlib
import json
import os
import random

import coregen
from corerun import sx

LEVEL = "proof"
BUILDS = {"quick": ["py"], "thorough": ["py", "cy"]}
CASE_TIMEOUT = 30
TRUSTED_CORE = [
    "hand-written Lean machine AsynqModel.Core.Machine (scheduler.py/async_task.py/batching.py/contexts.py as one "
    "small-step function) tied to the code by this differential run only",
    "harness/corerun.py: interpreter of the program language on the real library, trace recorder, canonical numbering",
    "CPython generator / with-statement semantics, qcore.EventHook",
]
ASSUMPTIONS_CORE = [
    "user flush code answers each item independently of batch composition (itemVal / item modes)",
    "task bodies are first-order programs of the model language (success/failure branching only)",
    "failures are Exceptions (BaseException such as KeyboardInterrupt is out of scope)",
]


def cfg_sx(cfg):
    kinds = [[int(k), v.get("prio", "default"), 1 if v.get("raises") else 0] for k, v in sorted(cfg.get("kinds", {}).items())]
    return ["cfg", ["kinds"] + kinds, ["maxStack", cfg.get("maxStack", 1000000)], ["keepDeps", 1 if cfg.get("keepDeps") else 0]]


def corpus(pid):
    import glob
    d = os.path.join(os.path.dirname(os.path.dirname(os.path.dirname(os.path.abspath(__file__)))), "corpus", pid)
    res = []
    for p in sorted(glob.glob(os.path.join(d, "*.json"))):
        with open(p) as f:
            res.append(json.load(f))
    return res


def chain_case(n, kind):
    return {"special": "chain", "n": n, "kind": kind}


def run_chain(case):
    """chains far deeper than the interpreter's recursion limit (C03): the explicit stack must be used"""
    import asynq
    from asynq import batching
    n = case["n"]

    flushes = [0]

    class B(batching.BatchBase):
        def _try_switch_active_batch(self):
            if cur[0] is self:
                cur[0] = B()

        def _flush(self):
            flushes[0] += 1
            for it in self.items:
                it.set_value(it.payload)

    class I(batching.BatchItemBase):
        def __init__(self, payload):
            batching.BatchItemBase.__init__(self, cur[0])
            self.payload = payload

    cur = [None]
    cur[0] = B()

    @asynq.asynq()
    def chain(k):
        if k == 0:
            if case["kind"] == "item":
                return (yield I(7))
            return 7
        v = yield chain.asynq(k - 1)
        return v + 1

    asynq.scheduler.reset()
    try:
        v = chain(n)
        res = ["ok", v - 7, flushes[0]]
    except RecursionError:
        res = ["recursion-error", 0, flushes[0]]
    except Exception as e:
        res = ["error-" + type(e).__name__, 0, flushes[0]]
    sched = asynq.scheduler.get_scheduler()
    clean = 1 if (len(sched._tasks) == 0 and sched.active_task is None) else 0
    asynq.scheduler.reset()
    lines = ["(case chain %d %d %s)" % (case["id"], n, case["kind"]), "(result %s %d %d %d)" % (res[0], res[1], res[2], clean), "(end)"]
    return {"lines": lines, "features": ["chain<=%d" % next(b for b in (100, 1000, 10000, 10**9) if n <= b)],
            "nontrivial": "chain-%d-%s" % (n, case["kind"])}


def ctxraise_case(when, nest, handler, sibling):
    return {"special": "ctxraise", "when": when, "nest": nest, "handler": handler, "sibling": sibling}


def run_ctxraise(case):
    """a context whose pause() or resume() raises while the scheduler suspends / continues the task that entered it
    (C08: failure points 'context pause/resume'; C06).  Outside the machine's language (its contexts never raise
    except NonAsyncContext), so the expectation is stated directly: the task fails with THAT exception, a parent with
    try/except can handle it, nothing else escapes, and the scheduler is clean afterwards."""
    import asynq
    from asynq import batching, contexts

    class B(batching.BatchBase):
        def _try_switch_active_batch(self):
            if cur[0] is self:
                cur[0] = B()

        def _flush(self):
            for it in self.items:
                it.set_value(it.payload)

    class I(batching.BatchItemBase):
        def __init__(self, payload):
            batching.BatchItemBase.__init__(self, cur[0])
            self.payload = payload

    cur = [None]
    cur[0] = B()
    boom = RuntimeError("context hook raises")
    log = []

    class Raising(contexts.AsyncContext):
        def __init__(self):
            self.resumes = 0
            self.pauses = 0

        def resume(self):
            self.resumes += 1
            if case["when"] == "resume" and self.resumes == 2:
                raise boom

        def pause(self):
            self.pauses += 1
            if case["when"] == "pause" and self.pauses == 1:
                raise boom

    class Plain(contexts.AsyncContext):
        def resume(self):
            log.append("R")

        def pause(self):
            log.append("P")

    @asynq.asynq()
    def inner():
        if case["nest"] == 0:
            with Raising():
                v = yield I(1)
        elif case["nest"] == 1:
            with Plain():
                with Raising():
                    v = yield I(1)
        else:
            with Raising():
                with Plain():
                    v = yield I(1)
        return v

    @asynq.asynq()
    def other():
        return (yield I(2))

    @asynq.asynq()
    def root():
        futs = [inner.asynq()] + ([other.asynq()] if case["sibling"] else [])
        if case["handler"]:
            try:
                yield futs
            except RuntimeError as e:
                return "handled" if e is boom else "handled-other"
            return "no-error"
        yield futs
        return "no-error"

    asynq.scheduler.reset()
    sched = asynq.scheduler.get_scheduler()
    try:
        out = root()
    except BaseException as e:
        out = "raised-boom" if e is boom else "raised-" + type(e).__name__
    clean = 1 if (len(sched._tasks) == 0 and sched.active_task is None) else 0
    # the next computation on the same thread
    try:
        nxt = other()
    except BaseException as e:
        nxt = "raised-" + type(e).__name__
    ok_next = 1 if nxt == 2 else 0
    asynq.scheduler.reset()
    lines = ["(case ctxraise %d %s %d %d %d)" % (case["id"], case["when"], case["nest"], case["handler"], case["sibling"]),
             "(result %s %d %d)" % (out, clean, ok_next), "(end)"]
    return {"lines": lines, "features": ["ctxraise=" + case["when"]], "nontrivial": "ctxraise-%s-%d-%d-%d" % (
        case["when"], case["nest"], case["handler"], case["sibling"])}


def cancel_case(na, nb, handler, with_error):
    return {"special": "cancel", "na": na, "nb": nb, "handler": handler, "with_error": with_error}


def run_cancel(case):
    """C05: 'never flushes an ... already flushed/cancelled batch'.  A batch that tasks are already blocked on is
    cancelled by a sibling task (cancel() is not in the machine's language; judged by a direct expectation): the
    scheduler must not flush it (no before/after events, no flush body, no BatchingError), the blocked tasks receive the
    cancellation error at their yield, the other batch is flushed normally."""
    import asynq
    from asynq import batching

    log = []

    class B(batching.BatchBase):
        def __init__(self, name):
            batching.BatchBase.__init__(self)
            self.name = name

        def _try_switch_active_batch(self):
            if cur[self.name] is self:
                cur[self.name] = B(self.name)

        def _flush(self):
            log.append("body-" + self.name)
            for it in self.items:
                it.set_value(it.payload)

    class I(batching.BatchItemBase):
        def __init__(self, name, payload):
            batching.BatchItemBase.__init__(self, cur[name])
            self.payload = payload

    cur = {}
    cur["A"] = B("A")
    cur["B"] = B("B")
    boom = ValueError("cancelled by user")

    @asynq.asynq()
    def waiter(i):
        return (yield I("A", i))

    @asynq.asynq()
    def canceller():
        batch = cur["A"]
        if case["with_error"]:
            batch.cancel(boom)
        else:
            batch.cancel()
        vals = yield [I("B", j) for j in range(case["nb"])]
        return sum(vals)

    @asynq.asynq()
    def root():
        futs = [waiter.asynq(i) for i in range(case["na"])] + [canceller.asynq()]
        if case["handler"]:
            try:
                yield futs
            except Exception as e:
                ok = (e is boom) if case["with_error"] else isinstance(e, batching.BatchCancelledError)
                return "handled" if ok else "handled-" + type(e).__name__
            return "no-error"
        yield futs
        return "no-error"

    asynq.scheduler.reset()
    sched = asynq.scheduler.get_scheduler()
    sched.on_before_batch_flush.subscribe(lambda b: log.append("before-" + b.name))
    sched.on_after_batch_flush.subscribe(lambda b: log.append("after-" + b.name))
    try:
        out = root()
    except BaseException as e:
        ok = (e is boom) if case["with_error"] else isinstance(e, batching.BatchCancelledError)
        out = "raised-cancel" if ok else "raised-" + type(e).__name__
    clean = 1 if (len(sched._tasks) == 0 and sched.active_task is None) else 0
    asynq.scheduler.reset()
    lines = ["(case cancelfam %d %d %d %d %d)" % (case["id"], case["na"], case["nb"], case["handler"], case["with_error"]),
             "(result %s %d (%s))" % (out, clean, " ".join(log)), "(end)"]
    return {"lines": lines, "features": ["cancel"], "nontrivial": "cancel-%d-%d-%d-%d" % (case["na"], case["nb"], case["handler"], case["with_error"])}


def run_reflush(case):
    """C05: a flush body that synchronously calls an asynq function which creates (and awaits) an item of ITS OWN
    kind: the new item must join a FRESH batch (the flushed one stopped being active before its body ran), so every
    batch is flushed exactly once and the events nest properly (flush bodies calling asynq are not in the machine's
    language; judged by a direct expectation)."""
    import asynq
    from asynq import batching

    log = []

    class B(batching.BatchBase):
        def __init__(self, seq):
            batching.BatchBase.__init__(self)
            self.seq = seq

        def _try_switch_active_batch(self):
            if cur[0] is self:
                cur[0] = B(self.seq + 1)

        def _flush(self):
            log.append("body-%d" % self.seq)
            if self.seq < case["depth"]:
                nested_values.append(helper(100 + self.seq))     # synchronous call from inside the flush body
            for it in self.items:
                it.set_value(it.payload * 2)

    class I(batching.BatchItemBase):
        def __init__(self, payload):
            batching.BatchItemBase.__init__(self, cur[0])
            self.payload = payload

    cur = [None]
    cur[0] = B(0)
    nested_values = []

    @asynq.asynq()
    def helper(x):
        return (yield I(x))

    @asynq.asynq()
    def root():
        vals = yield [helper.asynq(i) for i in range(case["n"])]
        return sum(vals)

    asynq.scheduler.reset()
    sched = asynq.scheduler.get_scheduler()
    sched.on_before_batch_flush.subscribe(lambda b: log.append("before-%d" % b.seq))
    sched.on_after_batch_flush.subscribe(lambda b: log.append("after-%d" % b.seq))
    try:
        out = root()
        out = "ok" if out == 2 * sum(range(case["n"])) and nested_values == [2 * (100 + d) for d in reversed(range(case["depth"]))] else "wrong-value"
    except BaseException as e:
        out = "raised-" + type(e).__name__
    clean = 1 if (len(sched._tasks) == 0 and sched.active_task is None) else 0
    asynq.scheduler.reset()
    lines = ["(case reflush %d %d %d)" % (case["id"], case["n"], case["depth"]),
             "(result %s %d (%s))" % (out, clean, " ".join(log)), "(end)"]
    return {"lines": lines, "features": ["reflush"], "nontrivial": "reflush-%d-%d" % (case["n"], case["depth"])}


def run_overlap(case):
    """C06: two with-blocks of one task that OVERLAP without being nested (the first lives in a helper generator the
    task drives with next()): leaving the older one must not disturb the newer one, which is paused for the flush and
    resumed afterwards (not expressible with the structured with of the machine's language; direct expectation)."""
    import asynq
    from asynq import batching, contexts

    log = []

    class B(batching.BatchBase):
        def _try_switch_active_batch(self):
            if cur[0] is self:
                cur[0] = B()

        def _flush(self):
            log.append("flush")
            for it in self.items:
                it.set_value(1)

    class I(batching.BatchItemBase):
        def __init__(self):
            batching.BatchItemBase.__init__(self, cur[0])

    class C(contexts.AsyncContext):
        def __init__(self, name):
            self.name = name

        def resume(self):
            log.append("R" + self.name)

        def pause(self):
            log.append("P" + self.name)

    cur = [None]
    cur[0] = B()

    def helper():
        with C("a"):
            yield 1          # suspended inside block a
        yield 2

    @asynq.asynq()
    def task():
        h = helper()
        next(h)              # enter a
        with C("b"):         # enter b while a is open
            next(h)          # leave a: blocks a and b overlap
            if case["extra"]:
                with C("c"):
                    yield I()
            else:
                yield I()
        return 1

    asynq.scheduler.reset()
    try:
        out = "ok" if task() == 1 else "wrong-value"
    except BaseException as e:
        out = "raised-" + type(e).__name__
    asynq.scheduler.reset()
    lines = ["(case overlap %d %d)" % (case["id"], 1 if case["extra"] else 0), "(result %s (%s))" % (out, " ".join(log)), "(end)"]
    return {"lines": lines, "features": ["overlap"], "nontrivial": "overlap-%s" % case["extra"]}


def run_resetbetween(case):
    """C08: a task is created, then asynq.scheduler.reset() installs a fresh scheduler for the thread, then the task is
    computed: inside its code get_active_task() must be that task, and nested tasks see their creator."""
    import asynq

    seen = []

    @asynq.asynq()
    def inner():
        seen.append(asynq.scheduler.get_active_task())
        return 1

    @asynq.asynq()
    def outer():
        me = asynq.scheduler.get_active_task()
        seen.append(me)
        t = inner.asynq()
        v = yield t
        seen.append(asynq.scheduler.get_active_task())
        if case["sync"]:
            inner()
            seen.append("after-sync")
            seen.append(asynq.scheduler.get_active_task())
        return (t, v)

    asynq.scheduler.reset()
    task = outer.asynq()
    for _ in range(case["resets"]):
        asynq.scheduler.reset()
    try:
        t_inner, v = task.value()
        exp = [task, t_inner, task] + (["SKIP", "after-sync", task] if case["sync"] else [])
        ok = len(seen) == len(exp) and all(e == "SKIP" or (s is e if not isinstance(e, str) else s == e) for s, e in zip(seen, exp))
        out = "ok" if ok and v == 1 else "wrong-active-task"
    except BaseException as e:
        out = "raised-" + type(e).__name__
    sched = asynq.scheduler.get_scheduler()
    clean = 1 if (len(sched._tasks) == 0 and sched.active_task is None) else 0
    asynq.scheduler.reset()
    lines = ["(case resetbetween %d %d %d)" % (case["id"], case["resets"], 1 if case["sync"] else 0), "(result %s %d)" % (out, clean), "(end)"]
    return {"lines": lines, "features": ["reset-between"], "nontrivial": "resetbetween-%d-%s" % (case["resets"], case["sync"])}


def run_longloop(case):
    """C03 (termination 'far beyond the interpreter's recursion limit'): ONE task that yields already computed futures
    n times in a row (a loop over cache hits), and a chain of n tasks each awaiting the next, run under the interpreter's
    DEFAULT recursion limit (the core interpreter itself needs a raised one for deep programs, which would hide a
    scheduler that recurses once per yield).  Direct expectation: normal termination, one resumption per yield."""
    import sys
    import asynq
    n = case["n"]
    resumed = [0, 0]

    @asynq.asynq()
    def one():
        return 1

    @asynq.asynq()
    def loop_task(shared):
        total = 0
        for _ in range(n):
            total += yield shared
            resumed[0] += 1
        return total

    @asynq.asynq()
    def loop_const():
        total = 0
        for _ in range(n):
            total += yield asynq.ConstFuture(1)
            resumed[1] += 1
        return total

    @asynq.asynq()
    def chain(k):
        if k == 0:
            return 0
        return 1 + (yield chain.asynq(k - 1))

    @asynq.asynq()
    def root():
        shared = one.asynq()
        yield shared
        a, b, c = yield loop_task.asynq(shared), loop_const.asynq(), chain.asynq(n)
        return (a, b, c)

    old = sys.getrecursionlimit()
    sys.setrecursionlimit(1000)
    asynq.scheduler.reset()
    try:
        try:
            out = "ok" if root() == (n, n, n) else "wrong-value"
        except BaseException as e:
            out = "raised-" + type(e).__name__
    finally:
        sys.setrecursionlimit(old)
    asynq.scheduler.reset()
    lines = ["(case longloop %d %d)" % (case["id"], n), "(result %s %d %d)" % (out, resumed[0], resumed[1]), "(end)"]
    return {"lines": lines, "features": ["longloop"], "nontrivial": "longloop-%d" % n}


EXOTIC_SHAPES = ["bare", "tuple1", "tuple2", "tuple3", "tuple5", "list3", "dict3", "nested"]
EXOTIC_ERRS = ["Exception", "StopIteration", "StopAsyncIteration", "GeneratorExit", "KeyboardInterrupt", "SystemExit", "falsy"]
EXOTIC_SRC = ["errfut", "lazy", "task"]


def run_exotic(case):
    """C02 (delivery at the yield): a task awaits a structure (every container shape the unwrap code special-cases)
    in which one future failed with an error of an exotic class (StopIteration, GeneratorExit, KeyboardInterrupt, a falsy
    one ...): the VERY error object is raised at the yield (identity), the task can catch it and go on, and when every
    future succeeded the structure of values arrives with the same shape.  (CPython's special treatment of these
    classes inside generators is not in the machine's language; direct expectation.)"""
    import asynq
    shape, ename, src, pos = case["shape"], case["err"], case["src"], case["pos"]

    class Falsy(Exception):
        def __len__(self):
            return 0

    class MyStop(StopIteration):
        pass

    cls = {"Exception": ValueError, "StopIteration": MyStop, "StopAsyncIteration": StopAsyncIteration, "GeneratorExit": GeneratorExit,
           "KeyboardInterrupt": KeyboardInterrupt, "SystemExit": SystemExit, "falsy": Falsy}[ename]
    err = cls("exotic")

    def raiser():
        raise err

    @asynq.asynq()
    def failing_task():
        if ename in ("StopIteration", "StopAsyncIteration"):
            # (a generator cannot fail with StopIteration itself: CPython turns it into RuntimeError; use the
            # outside-completion path instead: somebody sets the error on the task)
            asynq.scheduler.get_active_task().set_error(err)
            return None
        raise err
        yield

    def failing():
        if src == "errfut":
            return asynq.ErrorFuture(err)
        if src == "lazy":
            return asynq.Future(raiser)
        return failing_task.asynq()

    def build(fail):
        n = {"bare": 1, "tuple1": 1, "tuple2": 2, "tuple3": 3, "tuple5": 5, "list3": 3, "dict3": 3, "nested": 4}[shape]
        p = pos % n
        fs = [failing() if (fail and i == p) else asynq.ConstFuture(10 + i) for i in range(n)]
        vals = [10 + i for i in range(n)]

        def mk(xs):
            if shape == "bare":
                return xs[0]
            if shape.startswith("tuple"):
                return tuple(xs)
            if shape == "list3":
                return list(xs)
            if shape == "dict3":
                return {i: x for i, x in enumerate(xs)}
            return (xs[0], [xs[1], {"k": (xs[2], xs[3], None)}], None)
        return mk(fs), mk(vals)

    log = []

    @asynq.asynq()
    def root():
        ok_struct, ok_vals = build(False)
        got = yield ok_struct
        log.append("values-ok" if (got == ok_vals and type(got) is type(ok_vals)) else "values-wrong")
        bad_struct, _ = build(True)
        try:
            yield bad_struct
            log.append("no-error-raised")
        except BaseException as e:
            log.append("same-error" if e is err else "other-error-%s" % type(e).__name__)
        got = yield ok_struct
        log.append("values-ok" if got == ok_vals else "values-wrong")
        return 7

    asynq.scheduler.reset()
    try:
        out = "ok" if root() == 7 else "wrong-value"
    except BaseException as e:
        out = "raised-" + type(e).__name__
    asynq.scheduler.reset()
    lines = ["(case exotic %d)" % case["id"], "(result %s (%s))" % (out, " ".join(log)), "(end)"]
    return {"lines": lines, "features": ["exotic-" + ename, "shape-" + shape], "nontrivial": "exotic-%s-%s-%s-%d" % (shape, ename, src, pos)}


def exotic_cases():
    return [{"special": "exotic", "shape": sh, "err": e, "src": src, "pos": p} for sh in EXOTIC_SHAPES for e in EXOTIC_ERRS
            for src in EXOTIC_SRC
            # a lazily computed Future stores only Exception subclasses (BaseExceptions of a provider keep their normal
            # behaviour by design, futures.py), and a generator ending with a plain GeneratorExit counts as returning None
            if not (src == "lazy" and e in ("GeneratorExit", "KeyboardInterrupt", "SystemExit"))
            if not (src == "task" and e == "GeneratorExit")
            for p in ((0,) if sh in ("bare", "tuple1") else (0, 1, 2) if sh != "tuple5" else (0, 2, 4))]


def run_case_for(pid, case):
    from corerun import run_program
    if case.get("special") == "exotic":
        return run_exotic(case)
    if case.get("special") == "longloop":
        return run_longloop(case)
    if case.get("special") == "reflush":
        return run_reflush(case)
    if case.get("special") == "overlap":
        return run_overlap(case)
    if case.get("special") == "resetbetween":
        return run_resetbetween(case)
    if case.get("special") == "cancel":
        return run_cancel(case)
    if case.get("special") == "chain":
        return run_chain(case)
    if case.get("special") == "ctxraise":
        return run_ctxraise(case)
    if case.get("family"):
        # structured stress programs are kept compact in the case and expanded here (they nest thousands of levels deep)
        fam = case["family"]
        body = {"wide": lambda: coregen.balanced_tree(1, fam[1]), "many-yields": lambda: coregen.many_yields(fam[1])}[fam[0]]()
        case = dict(case, tops=[["value", body]], profile=fam[0])
    opts = dict(case.get("opts", {}))
    ms = case.get("cfg", {}).get("maxStack")
    if ms is not None:
        opts["MAX_TASK_STACK_SIZE"] = ms
    if case.get("cfg", {}).get("keepDeps"):
        opts["KEEP_DEPENDENCIES"] = True
    c2 = dict(case)
    c2["opts"] = opts
    tr = run_program(c2)
    lines = ["(case core %d %s %s %s)" % (case["id"], pid, sx(cfg_sx(case.get("cfg", {}))),
                                           sx(["tops"] + [[c, b] for c, b in case["tops"]]))]
    lines += [sx(e) for e in tr]
    lines.append("(end)")
    st = coregen.stats(case) if not case.get("family") else {}
    ntasks = sum(1 for e in tr if e[0] == "new" and e[2] == "task")
    nflush = sum(1 for e in tr if e[0] == "flushB")
    feats = ["profile=" + case.get("profile", "?"), "tops=%d" % len(case["tops"]),
             "tasks<=%d" % next(b for b in (1, 3, 8, 20, 50, 10**9) if ntasks <= b),
             "flushes<=%d" % next(b for b in (0, 1, 3, 8, 10**9) if nflush <= b),
             "events<=%d" % next(b for b in (10, 30, 100, 300, 10**9) if len(tr) <= b)]
    for k in ("sync", "syncfut", "with", "handler", "shared", "lazy", "errfut", "raise", "read", "active"):
        if st.get(k):
            feats.append("has=" + k)
    kinds = case.get("cfg", {}).get("kinds", {})
    if any(v.get("raises") for v in kinds.values()):
        feats.append("has=flush-raises")
    if any(v.get("prio") for v in kinds.values()):
        feats.append("has=priority-override")
    if any(e[0] == "run" and isinstance(e[4], list) and e[4][0] == "err" for e in tr):
        feats.append("has=error-delivered")
    nontrivial = None
    if ntasks >= 2 and nflush >= 1:
        # (family cases are thousands of levels deep: hash their compact description, not the expanded program)
        what = case["family"] if case.get("family") else case["tops"]
        nontrivial = hashlib.sha1(json.dumps([case.get("cfg"), what], sort_keys=True).encode()).hexdigest()[:16]
    return {"lines": lines, "features": feats, "nontrivial": nontrivial}


def shrink_case(case):
    if case.get("family"):
        if case["family"][1] > 40:
            yield dict(case, family=[case["family"][0], case["family"][1] // 2])
        return
    if case.get("special"):
        if case.get("n", 0) > 10:
            yield dict(case, n=case["n"] // 2)
        return
    tops = case["tops"]
    if len(tops) > 1:
        for i in range(len(tops)):
            yield dict(case, tops=tops[:i] + tops[i + 1:])
    kinds = case.get("cfg", {}).get("kinds", {})
    for k in list(kinds):
        cfg = dict(case["cfg"])
        cfg["kinds"] = {a: b for a, b in kinds.items() if a != k}
        yield dict(case, cfg=cfg)
    for i, (conv, body) in enumerate(tops):
        n = 0
        for b in coregen.shrink_body(body):
            if coregen.well_scoped(b):
                yield dict(case, tops=tops[:i] + [[conv, b]] + tops[i + 1:])
                n += 1
                if n > 200:
                    break


def neighbours_case(case, rng, profiles):
    if case.get("special") or case.get("family"):
        return
    for _ in range(16):
        c = coregen.gen_case(rng, rng.choice(profiles), ntops=len(case["tops"]))
        if case.get("cfg", {}).get("maxStack") is not None:
            c["cfg"]["maxStack"] = case["cfg"]["maxStack"]
        yield c
    # the same programs under other configurations
    for prio in ("default", "rev"):
        cfg = dict(case.get("cfg", {}))
        cfg["kinds"] = {k: dict(v, prio=prio) for k, v in cfg.get("kinds", {}).items()}
        yield dict(case, cfg=cfg)


def signature_for(case, v):
    sig = v["spec"]
    if case.get("family"):
        return sig + "/" + case["family"][0]
    if not case.get("special") and "nonasync" in json.dumps(case.get("tops")):
        sig += "/program-with-NonAsyncContext"
    if not case.get("special") and case.get("cfg", {}).get("maxStack") is not None and "active-task" in sig:
        sig += "/after-MAX_TASK_STACK_SIZE-reset"
    return sig


def make_plan(pid, tier, seed, mix, quick_n, thorough_n, ntops=(1,), extra=None):
    rng = random.Random(seed * 1000003 + int(pid[1:]))
    n = quick_n if tier == "quick" else thorough_n
    cases = corpus(pid)
    if extra:
        cases += extra(tier, rng)
    profs = [p for p, w in mix for _ in range(w)]
    for _ in range(n):
        c = coregen.gen_case(rng, rng.choice(profs), ntops=rng.choice(ntops))
        if rng.random() < 0.12:
            # debug / profiling options are part of "configurations": none of them may change behaviour (C20), so the
            # machine (which has no such options) must still agree
            c["opts"] = {o: True for o in rng.sample(DEBUG_OPTS, rng.randint(1, 3))}
        cases.append(c)
    return cases


DEBUG_OPTS = ["COLLECT_PERF_STATS", "COLLECT_PERF_STATS", "DUMP_NEW_TASKS", "DUMP_CONTINUE_TASK", "DUMP_SCHEDULE_BATCH",
              "DUMP_FLUSH_BATCH", "DUMP_COMPUTED", "DUMP_DEPENDENCIES", "DUMP_CONTEXTS", "DUMP_QUEUED_RESULTS"]


def on_crash_terminates(r, v):
    """C03 / C08: a computation of the model language always terminates - a hang of the implementation is a failing input"""
    if r.get("hang"):
        v = dict(v, spec="fail:computation-does-not-terminate")
    return v
