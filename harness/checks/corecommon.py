"""Shared part of the checks C01-C08: task programs interpreted on the real scheduler (corerun) and replayed in the
Lean machine (AsynqModel.Core.Machine) by the driver mode `core`."""
import hashlib
import json
import os
import random

import coregen
from corerun import sx
from checks import corefam4, corefam6t, corefam6v, corefam6c

LEVEL = "proof"
BUILDS = {"quick": ["py"], "thorough": ["py", "cy"]}
CASE_TIMEOUT = 30
TRUSTED_CORE = [
    "hand-written Lean machine AsynqModel.Core.Machine (scheduler.py/async_task.py/batching.py/contexts.py as one "
    "small-step function) tied to the code by this differential run only",
    "harness/corerun.py: interpreter of the program language on the real library, trace recorder, canonical numbering",
    "CPython generator / with-statement semantics, qcore.EventHook",
]
ASYNCIO_RULE = ("; plus the asyncio-mode family: 400 (thorough 5 000) batch-free programs of the C15 language (checks/c15.py), selected "
                "for what this property speaks about and outside C15's open findings, each run as fn(args), .asynq().value() and "
                "three ways of `await fn.asyncio(args)` under an event loop and judged by the C15 model (driver mode asyncio)")
TRUSTED_ASYNCIO = ["asyncio-mode family: hand-written Lean model AsynqModel.Lib.Asyncio and harness checks/c15.py (see the C15 check; "
                   "its theorems are audited by `bin/check C15`)"]
ASSUMPTIONS_CORE = [
    "user flush code answers each item independently of batch composition (itemVal / item modes)",
    "task bodies are first-order programs of the model language (success/failure branching only)",
    "failures are exception OBJECTS delivered by identity; the machine (and so every theorem) does not distinguish their classes. "
    "Classes CPython or asynq treat specially - application errors deriving from BaseException only, KeyboardInterrupt, SystemExit, "
    "StopIteration, GeneratorExit, AsyncTaskCancelledError - are exercised by the interpreter's error tokens and by the family "
    "`exotic` (C02: stored as the task's failure and delivered at the yield, which is what `except BaseException` in "
    "async_task.py does on purpose), by direct expectation only; a KeyboardInterrupt raised asynchronously by a signal INSIDE "
    "scheduler code is out of scope",
]


def cfg_sx(cfg):
    kinds = [[int(k), v.get("prio", "default"), 1 if v.get("raises") else 0] for k, v in sorted(cfg.get("kinds", {}).items())]
    return ["cfg", ["kinds"] + kinds, ["maxStack", cfg.get("maxStack", 1000000)], ["keepDeps", 1 if cfg.get("keepDeps") else 0]]


def corpus(pid):
    import glob
    d = os.path.join(os.path.dirname(os.path.dirname(os.path.dirname(os.path.abspath(__file__)))), "corpus", pid)
    res = []
    for p in sorted(glob.glob(os.path.join(d, "*.json"))):
        with open(p) as f:
            res.append(json.load(f))
    return res


def chain_case(n, kind):
    return {"special": "chain", "n": n, "kind": kind}


def run_chain(case):
    """chains far deeper than the interpreter's recursion limit (C03): the explicit stack must be used"""
    import asynq
    from asynq import batching
    n = case["n"]

    flushes = [0]

    class B(batching.BatchBase):
        def _try_switch_active_batch(self):
            if cur[0] is self:
                cur[0] = B()

        def _flush(self):
            flushes[0] += 1
            for it in self.items:
                it.set_value(it.payload)

    class I(batching.BatchItemBase):
        def __init__(self, payload):
            batching.BatchItemBase.__init__(self, cur[0])
            self.payload = payload

    cur = [None]
    cur[0] = B()

    @asynq.asynq()
    def chain(k):
        if k == 0:
            if case["kind"] == "item":
                return (yield I(7))
            return 7
        v = yield chain.asynq(k - 1)
        return v + 1

    import sys
    old_limit = sys.getrecursionlimit()
    # the interpreter's DEFAULT limit (the worker raises it to 12 000 for deeply nested programs, which would let a scheduler
    # that recurses once per chain level pass every quick-tier chain)
    sys.setrecursionlimit(1000)
    limit = sys.getrecursionlimit()
    asynq.scheduler.reset()
    try:
        try:
            v = chain(n)
            res = ["ok", v - 7, flushes[0]]
        except RecursionError:
            res = ["recursion-error", 0, flushes[0]]
        except Exception as e:
            res = ["error-" + type(e).__name__, 0, flushes[0]]
    finally:
        sys.setrecursionlimit(old_limit)
    sched = asynq.scheduler.get_scheduler()
    clean = "(clean %d %d %d)" % sched_state(sched)
    asynq.scheduler.reset()
    lines = ["(case chain %d %d %s)" % (case["id"], n, case["kind"]), "(result %s %d %d %s (limit %d))" % (res[0], res[1], res[2], clean, limit), "(end)"]
    return {"lines": lines, "features": ["chain<=%d" % next(b for b in (100, 1000, 10000, 10**9) if n <= b)],
            "nontrivial": "chain-%d-%s" % (n, case["kind"])}


def ctxraise_case(when, nest, handler, sibling, second=0):
    return {"special": "ctxraise", "when": when, "nest": nest, "handler": handler, "sibling": sibling, "second": second}


def ctxraise_cases(two_hooks=False):
    """every combination of the raising hook (pause at the first suspension / resume at the first continuation), the nesting
    with a well-behaved context, a handler in the awaiting task and a sibling; `two_hooks`: also the cases in which the
    well-behaved context's pause() raises a SECOND error while generator.close() leaves the blocks of the task that the
    raising resume() has just failed (second audit, item 2; C08 only)"""
    res = [ctxraise_case(w, n, h, sb) for w in ("pause", "resume") for n in (0, 1, 2) for h in (0, 1) for sb in (0, 1)]
    if two_hooks:
        res += [ctxraise_case(w, n, h, sb, 1) for w in ("pause", "resume") for n in (1, 2) for h in (0, 1) for sb in (0, 1)]
    return res


def sched_state(sched):
    """what "the scheduler is clean" means for the direct-expectation families: no task on the stack, no active task, and no
    batch left scheduled (entries of `_batches`, and the LIVE ones among them: unflushed and non-empty - an already flushed or
    empty entry is dropped by the next _select_batch_to_flush, a live one is flushed by the next computation)"""
    clean = 1 if (len(sched._tasks) == 0 and sched.active_task is None) else 0
    nb = len(sched._batches)
    live = sum(1 for b in sched._batches if b.items and not b.is_flushed())
    return clean, nb, live


let_timeouts_through = corefam4.let_timeouts_through


def run_ctxraise(case, pid="C08"):
    """a context whose pause() or resume() raises while the scheduler suspends / continues the task that entered it
    (C08: failure points 'context pause/resume'; C06).  Outside the machine's language (its contexts never raise
    except NonAsyncContext), so the expectation is stated directly (lean/Driver.lean, mode ctxraise): the task fails with
    THAT exception, a parent with try/except can handle it, nothing else escapes, the scheduler is clean afterwards (tasks,
    active task, batches), the next computation works; and (C06) the well-behaved context next to the raising one and the
    raising one itself got exactly the alternating resume/pause calls the case prescribes - each pause once."""
    import asynq
    from asynq import batching, contexts

    class B(batching.BatchBase):
        def _try_switch_active_batch(self):
            if cur[0] is self:
                cur[0] = B()

        def _flush(self):
            for it in self.items:
                it.set_value(it.payload)

    class I(batching.BatchItemBase):
        def __init__(self, payload):
            batching.BatchItemBase.__init__(self, cur[0])
            self.payload = payload

    cur = [None]
    cur[0] = B()
    boom = RuntimeError("context hook raises")
    boom2 = RuntimeError("pause() of the well-behaved context raises while the generator is closed")
    log = []
    raising = []

    class Raising(contexts.AsyncContext):
        def __init__(self):
            self.resumes = 0
            self.pauses = 0
            raising.append(self)

        def resume(self):
            self.resumes += 1
            if case["when"] == "resume" and self.resumes == 2:
                raise boom

        def pause(self):
            self.pauses += 1
            if case["when"] == "pause" and self.pauses == 1:
                raise boom

    class Plain(contexts.AsyncContext):
        def resume(self):
            log.append("R")

        def pause(self):
            log.append("P")
            if case.get("second") and log.count("P") == 2:
                raise boom2

    @asynq.asynq()
    def inner():
        if case["nest"] == 0:
            with Raising():
                v = yield I(1)
        elif case["nest"] == 1:
            with Plain():
                with Raising():
                    v = yield I(1)
        else:
            with Raising():
                with Plain():
                    v = yield I(1)
        return v

    @asynq.asynq()
    def other():
        return (yield I(2))

    @asynq.asynq()
    def root():
        futs = [inner.asynq()] + ([other.asynq()] if case["sibling"] else [])
        if case["handler"]:
            try:
                yield futs
            except RuntimeError as e:
                return "handled" if e is boom else "handled-boom2" if e is boom2 else "handled-other"
            return "no-error"
        yield futs
        return "no-error"

    asynq.scheduler.reset()
    sched = asynq.scheduler.get_scheduler()
    try:
        out = root()
    except BaseException as e:
        let_timeouts_through(e)
        out = "raised-boom" if e is boom else "raised-boom2" if e is boom2 else "raised-" + type(e).__name__
    clean, nbatches, nlive = sched_state(sched)
    # the next computation on the same thread
    try:
        nxt = other()
    except BaseException as e:
        let_timeouts_through(e)
        nxt = "raised-" + type(e).__name__
    ok_next = 1 if nxt == 2 else 0
    asynq.scheduler.reset()
    rs = raising[0] if raising else None
    lines = ["(case ctxraise %d %s %d %d %d %d %s)" % (case["id"], case["when"], case["nest"], case["handler"], case["sibling"],
                                                      1 if case.get("second") else 0, pid),
             "(result %s %d (batches %d %d) %d (plain %s) (raising %d %d))" % (
                 out, clean, nbatches, nlive, ok_next, " ".join(log), rs.resumes if rs else 0, rs.pauses if rs else 0), "(end)"]
    return {"lines": lines, "features": ["ctxraise=" + case["when"]] + (["ctxraise-two-hooks"] if case.get("second") else []),
            "nontrivial": "ctxraise-%s-%d-%d-%d-%d" % (case["when"], case["nest"], case["handler"], case["sibling"], 1 if case.get("second") else 0)}


def cancel_case(na, nb, handler, with_error):
    return {"special": "cancel", "na": na, "nb": nb, "handler": handler, "with_error": with_error}


def run_cancel(case):
    """C05: 'never flushes an ... already flushed/cancelled batch'.  A batch that tasks are already blocked on is
    cancelled by a sibling task (cancel() is not in the machine's language; judged by a direct expectation): the
    scheduler must not flush it (no before/after events, no flush body, no BatchingError), the blocked tasks receive the
    cancellation error at their yield, the other batch is flushed normally."""
    import asynq
    from asynq import batching

    log = []

    class B(batching.BatchBase):
        def __init__(self, name):
            batching.BatchBase.__init__(self)
            self.name = name

        def _try_switch_active_batch(self):
            if cur[self.name] is self:
                cur[self.name] = B(self.name)

        def _flush(self):
            log.append("body-" + self.name)
            for it in self.items:
                it.set_value(it.payload)

    class I(batching.BatchItemBase):
        def __init__(self, name, payload):
            batching.BatchItemBase.__init__(self, cur[name])
            self.payload = payload

    cur = {}
    cur["A"] = B("A")
    cur["B"] = B("B")
    boom = ValueError("cancelled by user")

    @asynq.asynq()
    def waiter(i):
        return (yield I("A", i))

    @asynq.asynq()
    def canceller():
        batch = cur["A"]
        if case["with_error"]:
            batch.cancel(boom)
        else:
            batch.cancel()
        vals = yield [I("B", j) for j in range(case["nb"])]
        return sum(vals)

    @asynq.asynq()
    def root():
        futs = [waiter.asynq(i) for i in range(case["na"])] + [canceller.asynq()]
        if case["handler"]:
            try:
                yield futs
            except Exception as e:
                ok = (e is boom) if case["with_error"] else isinstance(e, batching.BatchCancelledError)
                return "handled" if ok else "handled-" + type(e).__name__
            return "no-error"
        yield futs
        return "no-error"

    asynq.scheduler.reset()
    sched = asynq.scheduler.get_scheduler()
    sched.on_before_batch_flush.subscribe(lambda b: log.append("before-" + b.name))
    sched.on_after_batch_flush.subscribe(lambda b: log.append("after-" + b.name))
    try:
        out = root()
    except BaseException as e:
        let_timeouts_through(e)
        ok = (e is boom) if case["with_error"] else isinstance(e, batching.BatchCancelledError)
        out = "raised-cancel" if ok else "raised-" + type(e).__name__
    clean = "(clean %d %d %d)" % sched_state(sched)
    asynq.scheduler.reset()
    lines = ["(case cancelfam %d %d %d %d %d)" % (case["id"], case["na"], case["nb"], case["handler"], case["with_error"]),
             "(result %s %s (%s))" % (out, clean, " ".join(log)), "(end)"]
    return {"lines": lines, "features": ["cancel"], "nontrivial": "cancel-%d-%d-%d-%d" % (case["na"], case["nb"], case["handler"], case["with_error"])}


def run_reflush(case):
    """C05: a flush body that synchronously calls an asynq function which creates (and awaits) an item of ITS OWN
    kind: the new item must join a FRESH batch (the flushed one stopped being active before its body ran), so every
    batch is flushed exactly once and the events nest properly (flush bodies calling asynq are not in the machine's
    language; judged by a direct expectation)."""
    import asynq
    from asynq import batching

    log = []

    class B(batching.BatchBase):
        def __init__(self, seq):
            batching.BatchBase.__init__(self)
            self.seq = seq

        def _try_switch_active_batch(self):
            if cur[0] is self:
                cur[0] = B(self.seq + 1)

        def _flush(self):
            log.append("body-%d" % self.seq)
            if self.seq < case["depth"]:
                nested_values.append(helper(100 + self.seq))     # synchronous call from inside the flush body
            for it in self.items:
                it.set_value(it.payload * 2)

    class I(batching.BatchItemBase):
        def __init__(self, payload):
            batching.BatchItemBase.__init__(self, cur[0])
            self.payload = payload

    cur = [None]
    cur[0] = B(0)
    nested_values = []

    @asynq.asynq()
    def helper(x):
        return (yield I(x))

    @asynq.asynq()
    def root():
        vals = yield [helper.asynq(i) for i in range(case["n"])]
        return sum(vals)

    asynq.scheduler.reset()
    sched = asynq.scheduler.get_scheduler()
    sched.on_before_batch_flush.subscribe(lambda b: log.append("before-%d" % b.seq))
    sched.on_after_batch_flush.subscribe(lambda b: log.append("after-%d" % b.seq))
    try:
        out = root()
        out = "ok" if out == 2 * sum(range(case["n"])) and nested_values == [2 * (100 + d) for d in reversed(range(case["depth"]))] else "wrong-value"
    except BaseException as e:
        let_timeouts_through(e)
        out = "raised-" + type(e).__name__
    clean = "(clean %d %d %d)" % sched_state(sched)
    asynq.scheduler.reset()
    lines = ["(case reflush %d %d %d)" % (case["id"], case["n"], case["depth"]),
             "(result %s %s (%s))" % (out, clean, " ".join(log)), "(end)"]
    return {"lines": lines, "features": ["reflush"], "nontrivial": "reflush-%d-%d" % (case["n"], case["depth"])}


def run_overlap(case):
    """C06: two with-blocks of one task that OVERLAP without being nested (the first lives in a helper generator the
    task drives with next()): leaving the older one must not disturb the newer one, which is paused for the flush and
    resumed afterwards (not expressible with the structured with of the machine's language; direct expectation)."""
    import asynq
    from asynq import batching, contexts

    log = []

    class B(batching.BatchBase):
        def _try_switch_active_batch(self):
            if cur[0] is self:
                cur[0] = B()

        def _flush(self):
            log.append("flush")
            for it in self.items:
                it.set_value(1)

    class I(batching.BatchItemBase):
        def __init__(self):
            batching.BatchItemBase.__init__(self, cur[0])

    class C(contexts.AsyncContext):
        def __init__(self, name):
            self.name = name

        def resume(self):
            log.append("R" + self.name)

        def pause(self):
            log.append("P" + self.name)

    cur = [None]
    cur[0] = B()

    def helper():
        with C("a"):
            yield 1          # suspended inside block a
        yield 2

    @asynq.asynq()
    def task():
        h = helper()
        next(h)              # enter a
        with C("b"):         # enter b while a is open
            next(h)          # leave a: blocks a and b overlap
            if case["extra"]:
                with C("c"):
                    yield I()
            else:
                yield I()
        return 1

    asynq.scheduler.reset()
    try:
        out = "ok" if task() == 1 else "wrong-value"
    except BaseException as e:
        let_timeouts_through(e)
        out = "raised-" + type(e).__name__
    asynq.scheduler.reset()
    lines = ["(case overlap %d %d)" % (case["id"], 1 if case["extra"] else 0), "(result %s (%s))" % (out, " ".join(log)), "(end)"]
    return {"lines": lines, "features": ["overlap"], "nontrivial": "overlap-%s" % case["extra"]}


def run_resetbetween(case):
    """C08: a task is created, then asynq.scheduler.reset() installs a fresh scheduler for the thread, then the task is
    computed: inside its code get_active_task() must be that task, and nested tasks see their creator."""
    import asynq

    seen = []

    @asynq.asynq()
    def inner():
        seen.append(asynq.scheduler.get_active_task())
        return 1

    @asynq.asynq()
    def outer():
        me = asynq.scheduler.get_active_task()
        seen.append(me)
        t = inner.asynq()
        v = yield t
        seen.append(asynq.scheduler.get_active_task())
        if case["sync"]:
            inner()
            seen.append("after-sync")
            seen.append(asynq.scheduler.get_active_task())
        return (t, v)

    asynq.scheduler.reset()
    task = outer.asynq()
    for _ in range(case["resets"]):
        asynq.scheduler.reset()
    t_inner, v = None, "none"
    try:
        t_inner, v = task.value()
        out = "returned"
    except BaseException as e:
        let_timeouts_through(e)
        out = "raised-" + type(e).__name__

    def tok(x):
        # identities as tokens: T the task under test, I the task it awaited, N no active task, new another AsyncTask
        if isinstance(x, str):
            return x
        if x is None:
            return "N"
        if x is task:
            return "T"
        if t_inner is not None and x is t_inner:
            return "I"
        return "new" if isinstance(x, asynq.AsyncTask) else "other"
    sched = asynq.scheduler.get_scheduler()
    clean = "(clean %d %d %d)" % sched_state(sched)
    asynq.scheduler.reset()
    lines = ["(case resetbetween %d %d %d)" % (case["id"], case["resets"], 1 if case["sync"] else 0),
             "(result %s (seen %s) %s %s)" % (out, " ".join(tok(x) for x in seen), v if isinstance(v, int) else "none", clean), "(end)"]
    return {"lines": lines, "features": ["reset-between"], "nontrivial": "resetbetween-%d-%s" % (case["resets"], case["sync"])}


def run_longloop(case):
    """C03 (termination 'far beyond the interpreter's recursion limit'): ONE task that yields already computed futures
    n times in a row (a loop over cache hits), and a chain of n tasks each awaiting the next, run under the interpreter's
    DEFAULT recursion limit (the core interpreter itself needs a raised one for deep programs, which would hide a
    scheduler that recurses once per yield).  Direct expectation: normal termination, one resumption per yield."""
    import sys
    import asynq
    n = case["n"]
    resumed = [0, 0]
    depth = [0, 0]      # deepest interpreter stack seen when the loop task is resumed / when a task of the chain starts

    def stack_depth():
        f, d = sys._getframe(1), 0
        while f is not None:
            f, d = f.f_back, d + 1
        return d

    @asynq.asynq()
    def one():
        return 1

    @asynq.asynq()
    def loop_task(shared):
        total = 0
        for i in range(n):
            total += yield shared
            resumed[0] += 1
            if i % 64 == 0 or i == n - 1:
                depth[0] = max(depth[0], stack_depth())
        return total

    @asynq.asynq()
    def loop_const():
        total = 0
        for _ in range(n):
            total += yield asynq.ConstFuture(1)
            resumed[1] += 1
        return total

    @asynq.asynq()
    def chain(k):
        if k % 64 == 0:
            depth[1] = max(depth[1], stack_depth())
        if k == 0:
            return 0
        return 1 + (yield chain.asynq(k - 1))

    @asynq.asynq()
    def root():
        shared = one.asynq()
        yield shared
        a, b, c = yield loop_task.asynq(shared), loop_const.asynq(), chain.asynq(n)
        return (a, b, c)

    old = sys.getrecursionlimit()
    sys.setrecursionlimit(1000)
    limit = sys.getrecursionlimit()
    asynq.scheduler.reset()
    vals = ("none", "none", "none")
    try:
        try:
            r = root()
            out = "returned"
            if isinstance(r, tuple) and len(r) == 3 and all(isinstance(x, int) for x in r):
                vals = r
        except BaseException as e:
            let_timeouts_through(e)
            out = "raised-" + type(e).__name__
    finally:
        sys.setrecursionlimit(old)
    asynq.scheduler.reset()
    lines = ["(case longloop %d %d)" % (case["id"], n),
             "(result %s (values %s %s %s) (resumed %d %d) (limit %d) (depth %d %d))" % (
                 (out,) + tuple(vals) + (resumed[0], resumed[1], limit, depth[0], depth[1])), "(end)"]
    return {"lines": lines, "features": ["longloop"], "nontrivial": "longloop-%d" % n}


EXOTIC_SHAPES = ["bare", "tuple1", "tuple2", "tuple3", "tuple5", "list3", "dict3", "nested"]
EXOTIC_ERRS = ["Exception", "StopIteration", "StopAsyncIteration", "GeneratorExit", "KeyboardInterrupt", "SystemExit", "falsy",
               "Cancelled"]
# ("CancelledSub", a SUBCLASS of AsyncTaskCancelledError, is understood by run_exotic but not planned: AsyncTask._continue
#  tests the exact type, so an uncaught subclass instance ends a task like a plain GeneratorExit = `return None`)
# errfut / lazy / task: the failing future itself; through-*: a task that awaits such a future, has the error thrown INTO it
# and does not catch it (the error is then that task's own failure)
EXOTIC_SRC = ["errfut", "lazy", "task", "through-errfut", "through-task", "through-gathered"]


def run_exotic(case):
    """C02 (delivery at the yield): a task awaits a structure (every container shape the unwrap code special-cases)
    in which one future failed with an error of an exotic class (StopIteration, GeneratorExit, KeyboardInterrupt, a falsy
    one, asynq's own public AsyncTaskCancelledError - a subclass of GeneratorExit that AsyncTask._continue treats as a
    FAILURE, unlike a plain GeneratorExit - ...): the VERY error object is raised at the yield (identity), the task can
    catch it and go on, and when every future succeeded the structure of values arrives with the same shape; left
    uncaught it becomes the task's own failure and finally the exception raised by value() of the root (identity again).
    (CPython's special treatment of these classes inside generators is not in the machine's language; direct
    expectation.)"""
    import asynq
    shape, ename, src, pos = case["shape"], case["err"], case["src"], case["pos"]

    class Falsy(Exception):
        def __len__(self):
            return 0

    class MyStop(StopIteration):
        pass

    class MyCancelled(asynq.AsyncTaskCancelledError):
        """a subclass is not `type(error) is AsyncTaskCancelledError`: AsyncTask._continue treats it like a plain
        GeneratorExit raised by the task itself (= return None); as the error of an awaited future it is an error"""

    cls = {"Exception": ValueError, "StopIteration": MyStop, "StopAsyncIteration": StopAsyncIteration, "GeneratorExit": GeneratorExit,
           "KeyboardInterrupt": KeyboardInterrupt, "SystemExit": SystemExit, "falsy": Falsy,
           "Cancelled": asynq.AsyncTaskCancelledError, "CancelledSub": MyCancelled}[ename]
    err = cls("exotic")

    def raiser():
        raise err

    @asynq.asynq()
    def failing_task():
        if ename in ("StopIteration", "StopAsyncIteration"):
            # (a generator cannot fail with StopIteration itself: CPython turns it into RuntimeError; use the
            # outside-completion path instead: somebody sets the error on the task)
            asynq.scheduler.get_active_task().set_error(err)
            return None
        raise err
        yield

    @asynq.asynq()
    def through(what):
        # the error is thrown into this task at its yield and not caught: its own failure
        if what == "gathered":
            yield [asynq.ConstFuture(1), (failing_task.asynq(), asynq.ErrorFuture(ValueError("second in structure order")))]
        else:
            yield (asynq.ErrorFuture(err) if what == "errfut" else failing_task.asynq())
        return "continued"

    def failing():
        if src == "errfut":
            return asynq.ErrorFuture(err)
        if src == "lazy":
            return asynq.Future(raiser)
        if src.startswith("through-"):
            return through.asynq(src[len("through-"):])
        return failing_task.asynq()

    def build(fail):
        n = {"bare": 1, "tuple1": 1, "tuple2": 2, "tuple3": 3, "tuple5": 5, "list3": 3, "dict3": 3, "nested": 4}[shape]
        p = pos % n
        fs = [failing() if (fail and i == p) else asynq.ConstFuture(10 + i) for i in range(n)]
        vals = [10 + i for i in range(n)]

        def mk(xs):
            if shape == "bare":
                return xs[0]
            if shape.startswith("tuple"):
                return tuple(xs)
            if shape == "list3":
                return list(xs)
            if shape == "dict3":
                return {i: x for i, x in enumerate(xs)}
            return (xs[0], [xs[1], {"k": (xs[2], xs[3], None)}], None)
        return mk(fs), mk(vals)

    log = []

    def vsx(v):
        # what arrived, as a structure (judged by the driver against the structure the header prescribes)
        if v is None:
            return "none"
        if isinstance(v, bool):
            return "(other bool)"
        if isinstance(v, int):
            return str(v)
        if type(v) is tuple:
            return "(tup%s)" % "".join(" " + vsx(x) for x in v)
        if type(v) is list:
            return "(lst%s)" % "".join(" " + vsx(x) for x in v)
        if type(v) is dict:
            return "(dict%s)" % "".join(" (%s %s)" % (k, vsx(x)) for k, x in v.items())
        return "(other %s)" % type(v).__name__

    def esx(tag, e):
        # an exception as (tag <class name> <is it THE error object: 1/0>)
        return "(%s %s %d)" % (tag, type(e).__name__, 1 if e is err else 0)

    @asynq.asynq()
    def root():
        ok_struct, _ = build(False)
        got = yield ok_struct
        log.append("(values %s)" % vsx(got))
        bad_struct, _ = build(True)
        try:
            yield bad_struct
            log.append("(no-error)")
        except BaseException as e:
            let_timeouts_through(e)
            log.append(esx("caught", e))
        got = yield ok_struct
        log.append("(values %s)" % vsx(got))
        return 7

    @asynq.asynq()
    def middle():
        bad_struct, _ = build(True)
        yield bad_struct
        return "continued"

    @asynq.asynq()
    def root_uncaught():
        return (yield [middle.asynq()])

    asynq.scheduler.reset()
    try:
        r = root()
        out = "(returned %s)" % vsx(r)
    except BaseException as e:
        let_timeouts_through(e)
        out = esx("raised", e)
    if ename in ("GeneratorExit", "StopIteration"):
        # a generator that ends with a plain GeneratorExit counts as `return None` (by design), and CPython turns a
        # StopIteration leaving a generator into RuntimeError: not the statement's business (the driver expects the skip)
        log.append("(skipped)")
    else:
        asynq.scheduler.reset()
        try:
            v = root_uncaught()
            log.append("(swallowed %s)" % vsx(v))
        except BaseException as e:
            let_timeouts_through(e)
            log.append(esx("uncaught", e))
    asynq.scheduler.reset()
    lines = ["(case exotic %d %s %s %s)" % (case["id"], ename, src, shape), "(result %s (%s))" % (out, " ".join(log)), "(end)"]
    return {"lines": lines, "features": ["exotic-" + ename, "shape-" + shape], "nontrivial": "exotic-%s-%s-%s-%d" % (shape, ename, src, pos)}


def exotic_cases():
    return [{"special": "exotic", "shape": sh, "err": e, "src": src, "pos": p} for sh in EXOTIC_SHAPES for e in EXOTIC_ERRS
            for src in EXOTIC_SRC
            # a lazily computed Future stores only Exception subclasses (BaseExceptions of a provider keep their normal
            # behaviour by design, futures.py), and a generator ending with a plain GeneratorExit counts as returning None
            if not (src == "lazy" and e in ("GeneratorExit", "KeyboardInterrupt", "SystemExit", "Cancelled", "CancelledSub"))
            # ... and so does a subclass of AsyncTaskCancelledError raised by the task itself (_continue tests the exact type)
            if not (src in ("task", "through-task", "through-gathered") and e in ("GeneratorExit", "CancelledSub"))
            # thrown INTO a task and left uncaught: a plain GeneratorExit / a subclass of AsyncTaskCancelledError ends the
            # generator like `return None`, a StopIteration becomes RuntimeError (PEP 479)
            if not (src.startswith("through-") and e in ("GeneratorExit", "StopIteration", "CancelledSub"))
            for p in ((0,) if sh in ("bare", "tuple1") else (0, 1, 2) if sh != "tuple5" else (0, 2, 4))]


# ---------------------------------------------------------------------------------------------------------------------
# asyncio-mode family (round 4; C01, C02, C03): the statements of these properties do not exclude `fn.asyncio()` under an
# event loop.  The batch-free asyncio semantics is modelled by AsynqModel.Lib.Asyncio (the C15 check), so the family is a
# selection of C15 cases - chosen for what each property speaks about - wrapped as {"special": "c15", "inner": <c15 case>},
# run by checks.c15.run_case and judged by the driver in mode `asyncio`.  Cases inside C15's three OPEN findings
# (BaseException handler + BaseException-only error, container-subclass yields, async_proxy returning a non-future) are
# filtered out statically, so C01-C03 stay quiet on the unchanged tree.
# ---------------------------------------------------------------------------------------------------------------------

def _aio_outside_open_findings(c15, case):
    p = c15.expand(case)[1]
    if c15.has_base_handler_and_raise(p):
        return False
    tags = c15.ys_tags(p)
    return not (tags & set(c15.SUB_TAGS)) and "pval" not in tags


def _aio_calls(c15, case):
    """all call descriptors [kind, afn, label] of a case (top first)"""
    c, p = c15.expand(case)
    res = [c]
    for q in c15.walk_progs(p):
        if q[0] in c15.YLD:
            res += [x[1] for x in c15.walk_ys(q[1]) if isinstance(x, list) and x[0] == "task"]
        elif q[0] == "sync":
            res.append(q[1])
    return res


def _aio_focus(c15, pid, case):
    """does the case exercise what the property speaks about?"""
    p = c15.expand(case)[1]
    progs = list(c15.walk_progs(p))
    ops = {q[0] for q in progs}
    if pid == "C01":
        # results equal: anything that ends in a value or an error travelling through at least one yield
        return bool(ops & set(c15.YLD))
    if pid == "C02":
        # a failure next to siblings in a structure (delivered after all of them, first in structure order), handlers
        if not (ops & {"raise", "raiseB"}):
            return False
        for q in progs:
            if q[0] in c15.YLD:
                ntask = sum(1 for x in c15.walk_ys(q[1]) if isinstance(x, list) and x[0] == "task")
                if ntask >= 2 or (ntask >= 1 and q[3] != ["reraise"]):
                    return True
        return False
    # C03: several tasks yielded together / in a row (start order, once per yield), every kind of function
    return c15.count_tasks(p) >= 2


def _aio_vary_kinds(c15, case, rng):
    """C03: `pure` functions (decorators.py _call_pure has its own asyncio branch) in place of some generator functions"""
    if "top" not in case:
        return case
    case = json.loads(json.dumps(case))
    for q in c15.walk_progs(case["top"][1]):
        if q[0] in c15.YLD:
            # only tasks that are YIELDED: calling a pure function synchronously gives a task, not a value (C15 never does)
            for x in c15.walk_ys(q[1]):
                if isinstance(x, list) and x[0] == "task" and x[1][0] == "gen" and x[1][1] == 0 and rng.random() < 0.35:
                    # (only plain declarations: c15's 4th field `var` selects sync_fn= / classmethod / staticmethod forms,
                    # which do not exist for pure functions)
                    if len(x[1]) > 3 and x[1][3] != 0:
                        continue
                    x[1][0] = "pure"
                    if hasattr(c15, "valid_call") and not c15.valid_call(x[1]):
                        x[1][0] = "gen"
    return case


def asyncio_cases(pid, tier, rng):
    from checks import c15
    n = 400 if tier == "quick" else 5000
    res = []
    fixed = [c for c in c15.family() + (c15.value_family() if pid == "C01" else []) if _aio_outside_open_findings(c15, c)]
    fixed = [c for c in fixed if _aio_focus(c15, pid, c)]
    rng.shuffle(fixed)
    fixed = fixed[:n // 4]
    for c in fixed:
        c15.usage(c, rng)
    res += fixed
    if pid == "C03":
        sizes = [c for c in c15.size_family("quick", rng) if c["fam"] in ("wide", "long", "chain") and c.get(c15.SIZE_KEY[c["fam"]], 0) <= 130]
        rng.shuffle(sizes)
        res += sizes[:n // 10]
    tries = 0
    while len(res) < n and tries < 200 * n:
        tries += 1
        c = c15.gen_case(rng)
        if not _aio_outside_open_findings(c15, c) or not _aio_focus(c15, pid, c):
            continue
        if pid == "C03":
            c = _aio_vary_kinds(c15, c, rng)
        res.append(c)
    return [{"special": "c15", "inner": c} for c in res]


def run_c15(case):
    from checks import c15
    inner = dict(case["inner"], id=case["id"])
    r = c15.run_case(inner)
    r["features"] = ["family=asyncio-mode"] + ["aio:" + f for f in r.get("features", [])]
    if r.get("nontrivial"):
        r["nontrivial"] = "aio-" + r["nontrivial"]
    return r


def run_case_for(pid, case):
    from corerun import run_program
    if case.get("special") == "c15":
        return run_c15(case)
    if case.get("special") in corefam4.RUNNERS:
        return corefam4.RUNNERS[case["special"]](case)
    for fam6 in (corefam6t, corefam6v, corefam6c):
        # round-5 families: threads / priorities (t), values (v), contexts (c); runners take (case, pid)
        if case.get("special") in fam6.RUNNERS:
            return fam6.RUNNERS[case["special"]](case, pid)
    if case.get("special") == "exotic":
        return run_exotic(case)
    if case.get("special") == "longloop":
        return run_longloop(case)
    if case.get("special") == "reflush":
        return run_reflush(case)
    if case.get("special") == "overlap":
        return run_overlap(case)
    if case.get("special") == "resetbetween":
        return run_resetbetween(case)
    if case.get("special") == "cancel":
        return run_cancel(case)
    if case.get("special") == "chain":
        return run_chain(case)
    if case.get("special") == "ctxraise":
        return run_ctxraise(case, pid)
    if case.get("family"):
        # structured stress programs are kept compact in the case and expanded here (they nest thousands of levels deep)
        fam = case["family"]
        body = {"wide": lambda: coregen.balanced_tree(1, fam[1]), "many-yields": lambda: coregen.many_yields(fam[1])}[fam[0]]()
        case = dict(case, tops=[["value", body]], profile=fam[0])
    opts = dict(case.get("opts", {}))
    ms = case.get("cfg", {}).get("maxStack")
    if ms is not None:
        opts["MAX_TASK_STACK_SIZE"] = ms
    if case.get("cfg", {}).get("keepDeps"):
        opts["KEEP_DEPENDENCIES"] = True
    c2 = dict(case)
    c2["opts"] = opts
    tr = run_program(c2)
    lines = ["(case core %d %s %s %s)" % (case["id"], pid, sx(cfg_sx(case.get("cfg", {}))),
                                           sx(["tops"] + [[c, b] for c, b in case["tops"]]))]
    lines += [sx(e) for e in tr]
    lines.append("(end)")
    st = coregen.stats(case) if not case.get("family") else {}
    ntasks = sum(1 for e in tr if e[0] == "new" and e[2] == "task")
    nflush = sum(1 for e in tr if e[0] == "flushB")
    feats = ["profile=" + case.get("profile", "?"), "tops=%d" % len(case["tops"]),
             "tasks<=%d" % next(b for b in (1, 3, 8, 20, 50, 10**9) if ntasks <= b),
             "flushes<=%d" % next(b for b in (0, 1, 3, 8, 10**9) if nflush <= b),
             "events<=%d" % next(b for b in (10, 30, 100, 300, 10**9) if len(tr) <= b)]
    for k in ("sync", "syncfut", "with", "handler", "shared", "lazy", "errfut", "raise", "read", "active"):
        if st.get(k):
            feats.append("has=" + k)
    kinds = case.get("cfg", {}).get("kinds", {})
    if any(v.get("raises") for v in kinds.values()):
        feats.append("has=flush-raises")
    if any(v.get("prio") for v in kinds.values()):
        feats.append("has=priority-override")
    if any(e[0] == "run" and isinstance(e[4], list) and e[4][0] == "err" for e in tr):
        feats.append("has=error-delivered")
    nontrivial = None
    if ntasks >= 2 and nflush >= 1:
        # (family cases are thousands of levels deep: hash their compact description, not the expanded program)
        what = case["family"] if case.get("family") else case["tops"]
        nontrivial = hashlib.sha1(json.dumps([case.get("cfg"), what], sort_keys=True).encode()).hexdigest()[:16]
    return {"lines": lines, "features": feats, "nontrivial": nontrivial}


def shrink_case(case):
    if case.get("special") == "c15":
        from checks import c15
        for q in c15.shrink(case["inner"]):
            yield {"special": "c15", "inner": q}
        return
    if case.get("family"):
        if case["family"][1] > 40:
            yield dict(case, family=[case["family"][0], case["family"][1] // 2])
        return
    if case.get("special"):
        if case.get("n", 0) > 10:
            yield dict(case, n=case["n"] // 2)
        return
    tops = case["tops"]
    if len(tops) > 1:
        for i in range(len(tops)):
            yield dict(case, tops=tops[:i] + tops[i + 1:])
    kinds = case.get("cfg", {}).get("kinds", {})
    for k in list(kinds):
        cfg = dict(case["cfg"])
        cfg["kinds"] = {a: b for a, b in kinds.items() if a != k}
        yield dict(case, cfg=cfg)
    for i, (conv, body) in enumerate(tops):
        n = 0
        for b in coregen.shrink_body(body):
            if coregen.well_scoped(b):
                yield dict(case, tops=tops[:i] + [[conv, b]] + tops[i + 1:])
                n += 1
                if n > 200:
                    break


def neighbours_case(case, rng, profiles):
    if case.get("special") == "c15":
        from checks import c15
        for q in c15.neighbours(case["inner"], rng):
            if _aio_outside_open_findings(c15, q):
                yield {"special": "c15", "inner": q}
        return
    if case.get("special") or case.get("family"):
        return
    for _ in range(16):
        c = coregen.gen_case(rng, rng.choice(profiles), ntops=len(case["tops"]))
        if case.get("cfg", {}).get("maxStack") is not None:
            c["cfg"]["maxStack"] = case["cfg"]["maxStack"]
        yield c
    # the same programs under other configurations
    for prio in ("default", "rev"):
        cfg = dict(case.get("cfg", {}))
        cfg["kinds"] = {k: dict(v, prio=prio) for k, v in cfg.get("kinds", {}).items()}
        yield dict(case, cfg=cfg)


def fork(rng, tag):
    """a generator of its own for a family added later: derived from the state of the plan's generator WITHOUT consuming
    it, so that the programs generated after the family are the same as before it existed (stored seeds that are caught by a
    handful of the random programs keep being caught at every VERIF_SEED)"""
    return random.Random("%s-%d" % (tag, hash(rng.getstate())))


def guard_cases(tier, rng, quick_n=60, thorough_n=1500):
    """computations that hit the runaway-recursion guard (MAX_TASK_STACK_SIZE lowered), alone and nested in synchronous
    calls whose callers catch the RuntimeError, followed by further computations on the same thread"""
    res = []
    for _ in range(quick_n if tier == "quick" else thorough_n):
        c = coregen.gen_case(rng, rng.choice(["sync", "full", "yield"]), ntops=rng.choice([1, 2, 3]))
        c["cfg"]["maxStack"] = rng.choice([1, 2, 3, 4, 6, 9])
        res.append(c)
    return res


def guard_ctx_cases(tier, rng, quick_n=120, thorough_n=2500):
    """the guard family for the context properties C06 / C07: programs with AsyncContexts and scoped-value overrides that hit
    the MAX_TASK_STACK_SIZE guard while a with-block is open, followed by further computations on the same thread that read
    the overridden variables (second audit, item 1: the guard's reset abandons the open blocks - contexts stay resumed,
    overrides stay in force; reported with the signature suffix /after-MAX_TASK_STACK_SIZE-reset)"""
    res = []
    n = quick_n if tier == "quick" else thorough_n
    for i in range(n):
        if i % 4 == 3:
            res.append(guard_nested_family(rng))
            continue
        if i % 3 == 0:
            c = coregen.override_family(rng)
            # later computations on the same thread read both variables
            c["tops"] += [["value", ["read", 0, ["read", 1, ["ret", 7]]]]] * rng.choice([1, 2])
        else:
            c = coregen.gen_case(rng, rng.choice(["yield_ctx", "full", "full"]), ntops=rng.choice([1, 2, 3]))
            if rng.random() < 0.5:
                c["tops"].append(["value", ["read", 0, ["read", 1, ["ret", 7]]]])
        c["cfg"]["maxStack"] = rng.choice([1, 2, 3, 4, 6, 9])
        res.append(c)
    return res


def guard_nested_family(rng):
    """the guard fires inside a NESTED synchronous call whose caller catches the RuntimeError and goes on (yields nothing / a
    constant / a new item, or calls again) while a task awaiting the caller holds a context: tasks abandoned by the reset keep
    `_dependencies_scheduled` and resumed contexts, which later steps of the same computation meet (C06 context-active-...,
    C20 the extra pause/resume pair under KEEP_DEPENDENCIES)"""
    nitems = rng.randint(1, 4)
    deep = ["yld", [rng.choice(["tup", "lst"])] + [["f", ["own", i]] for i in range(nitems)], ["ret", 5], ["ret", 6]]
    for i in reversed(range(nitems)):
        deep = ["item", 0, i + 1, "ok", deep]
    if rng.random() < 0.3:      # ... or a chain of tasks instead of a wide yield
        deep = ["ret", 1]
        for _ in range(rng.randint(1, 4)):
            deep = ["spawn", deep, [], ["yld", ["f", ["own", 0]], ["ret", 2], ["reraise"]]]
    first = rng.random() < 0.7      # the caller has been suspended once before it calls (so its awaiter was paused and resumed)
    nown = 1 if first else 0
    after_err = rng.choice([
        ["yld", "none", ["ret", 2], ["ret", 3]],
        ["const", 4, ["yld", ["f", ["own", nown]], ["ret", 2], ["ret", 3]]],
        ["item", 0, 8, "ok", ["yld", ["f", ["own", nown]], ["ret", 2], ["ret", 3]]],
        ["ret", 2],
        ["active", ["yld", "none", ["read", 0, ["ret", 2]], ["ret", 3]]],
    ])
    caller = ["sync", deep, [], ["ret", 1], after_err]
    if first:
        caller = ["item", 0, 7, "ok", ["yld", ["f", ["own", 0]], caller, ["ret", 4]]]
    kind = rng.choice([["plain"], ["plain"], ["override", 0, 5], ["override", 1, 6]])
    root = ["with", kind, ["spawn", caller, [], ["yld", ["f", ["own", 0]], ["endwith"], ["endwith"]]], ["read", 0, ["read", 1, ["ret", 9]]]]
    if rng.random() < 0.3:      # one more awaiting level
        root = ["spawn", root, [], ["yld", ["f", ["own", 0]], ["ret", 1], ["reraise"]]]
    tops = [[rng.choice(["value", "call"]), root]] + [["value", ["read", 0, ["read", 1, ["ret", 7]]]]] * rng.choice([0, 1])
    return {"cfg": {"kinds": {}, "salt": rng.randrange(1000000), "maxStack": rng.choice([2, 3, 4, 4, 5, 6])}, "profile": "guard-nested", "tops": tops}


GUARD_SUFFIX = "/after-MAX_TASK_STACK_SIZE-reset"
STALE_BATCH_SIGNATURE = "fail:scheduler-retains-pending-batch/program-with-NonAsyncContext"
# Clauses of the observers checkC06 / checkC07 (Core/Spec.lean) that one root cause produces once the guard has reset the
# scheduler while with-blocks of the abandoned tasks are open (the reset neither pauses their contexts nor closes their
# generators): the contexts stay resumed / the overrides stay in force, which the observers report - depending on what the
# thread does next - at the `ret` of the failed computation (context-left-active), at the next task step or flush of a
# caller that caught the RuntimeError (context-active-...), when an abandoned task is continued after all (resume-twice),
# or at a later pause / read / end-of-run value dump (C07).  They share ONE signature, the root clause + the suffix.
GUARD_ROOT_CLAUSE = "fail:context-left-active"
GUARD_CONSEQUENCES = {
    "C06": {"fail:context-left-active", "fail:context-active-while-unrelated-task-runs", "fail:context-active-during-flush",
            "fail:resume-twice"},
    "C07": {"fail:context-left-active", "fail:pause-not-innermost", "fail:scoped-read-differs-from-sequential",
            "fail:override-not-restored"},
}


def guard_fired(case, v):
    """the driver marks a run in which the implementation's trace shows the RuntimeError of the MAX_TASK_STACK_SIZE guard
    (Drv/Core.lean guardMark) and says whether the rejected event is that one or a later one"""
    d = v.get("detail") or ""
    return case.get("cfg", {}).get("maxStack") is not None and "[guard-reset]" in d and "[spec-after-reset]" in d


def guard_suffix(case, v):
    """suffix of the signature of a failure AFTER the guard reset.  A recorded finding may only explain a run in which the
    Lean machine shows the very same behaviour (CORR=ok and the model's own trace fails the same clause): anything else keeps
    a signature of its own (`/model-disagrees`), so a changed implementation cannot hide behind the finding."""
    if v.get("corr") == "ok" and v.get("specm") == v.get("spec"):
        return GUARD_SUFFIX
    return GUARD_SUFFIX + "/model-disagrees"


def signature_for(case, v, pid=None):
    if case.get("special") == "c15":
        from checks import c15
        return "asyncio-mode/" + c15.signature(case["inner"], v)
    sig = v["spec"]
    if case.get("special") == "selfawait":
        # the running task really is awaited (not a fresh instance) AND tolerates the ValueError of its nested call: one
        # root cause whatever the route (recorded finding); every other variant has a signature of its own
        if case.get("tolerate") and corefam4.selfawait_reentrant(case):
            return sig + "/reentrant-await-tolerated"
        return sig + "/" + case["via"] + ("-tolerated" if case.get("tolerate") else "")
    if case.get("family"):
        return sig + "/" + case["family"][0]
    if case.get("special") == "ctxraise" and sig == "fail:scheduler-retains-pending-batch":
        # the OPEN C08 finding (a task failed while suspended by a context error leaves the batch of the item it awaited in
        # TaskScheduler._batches): same root cause, same signature as for programs of the machine's language
        return STALE_BATCH_SIGNATURE
    if not case.get("special") and "nonasync" in json.dumps(case.get("tops")):
        sig += "/program-with-NonAsyncContext"
    if not case.get("special") and guard_fired(case, v):
        # what fails + the circumstance: the guard has reset the scheduler earlier in this run
        if v["spec"] in GUARD_CONSEQUENCES.get(pid, ()):
            sig = sig.replace(v["spec"], GUARD_ROOT_CLAUSE, 1)
        sig += guard_suffix(case, v)
    elif not case.get("special") and case.get("cfg", {}).get("maxStack") is not None and "active-task" in sig:
        sig += GUARD_SUFFIX
    return sig


def make_plan(pid, tier, seed, mix, quick_n, thorough_n, ntops=(1,), extra=None):
    rng = random.Random(seed * 1000003 + int(pid[1:]))
    n = quick_n if tier == "quick" else thorough_n
    cases = corpus(pid)
    if extra:
        cases += extra(tier, rng)
    profs = [p for p, w in mix for _ in range(w)]
    for _ in range(n):
        c = coregen.gen_case(rng, rng.choice(profs), ntops=rng.choice(ntops))
        if rng.random() < 0.12:
            # debug / profiling options are part of "configurations": none of them may change behaviour (C20), so the
            # machine (which has no such options) must still agree
            c["opts"] = {o: True for o in rng.sample(DEBUG_OPTS, rng.randint(1, 3))}
        cases.append(c)
    return cases


DEBUG_OPTS = ["COLLECT_PERF_STATS", "COLLECT_PERF_STATS", "DUMP_NEW_TASKS", "DUMP_CONTINUE_TASK", "DUMP_SCHEDULE_BATCH",
              "DUMP_FLUSH_BATCH", "DUMP_COMPUTED", "DUMP_DEPENDENCIES", "DUMP_CONTEXTS", "DUMP_QUEUED_RESULTS"]


def on_crash_terminates(r, v):
    """C03 / C08: a computation of the model language always terminates - a hang of the implementation is a failing input"""
    if r.get("hang"):
        v = dict(v, spec="fail:computation-does-not-terminate")
    return v
