"""Round-5 families of the core checks, part `values` (C01; C20 uses checks/optprogs6.py):

  valuekinds      unusual objects passed AS VALUES - un-started generator objects, generator expressions, futures of every
                  class (ConstFuture, ErrorFuture, an un-awaited task, a computed task, a pending batch item), coroutine
                  objects, iterators, callables, containers of futures - as ARGUMENT and as RESULT of every kind of async
                  function (generator / plain @asynq, pure, proxies, sync_fn pairs, methods, async_call, asynq.result()),
                  through every calling convention.  Sequential evaluation hands the very same object over, untouched.
  equalreceivers  methods (sync_fn pairs, plain @asynq, pure, proxies, class / static methods) on receiver objects that
                  are EQUAL but distinct (value objects), unhashable, or whose __eq__ / __hash__ raise: every call - direct,
                  or through a bound method taken earlier, interleaved with bindings on other receivers - sees ITS receiver.

Both lie outside the machine's language (its values are numbers), so each drives the REAL library through public API and is
judged by a direct expectation in lean/AsynqModel/Drv/Families6v.lean (modes of the same names).  Rules as in corefam4:
public API only, objects mapped to small tokens, raw observations out, the judgement is made in Lean."""
import json

from checks.corefam4 import let_timeouts_through, _sx, _ename

# =====================================================================================================================
# valuekinds (C01)
# =====================================================================================================================

VK_FUTURES = ["constfut", "errfut", "task", "task-done", "item", "futlist", "futdict", "futtuple"]
VK_OTHERS = ["genobj", "genexp", "gen-nones", "gen-tasks", "gen-started", "coro", "iter", "callable"]
VK_ALL = VK_OTHERS + VK_FUTURES
VK_SRCS = ["gen-noyield", "gen-none", "gen-item", "gen-task", "plain", "pure-gen", "pure-plain", "proxy-const", "proxy-task",
           "pair-plain", "pair-gen", "meth-gen", "meth-plain", "meth-pair", "static-plain", "class-gen", "acall-plain", "acall-gen",
           "gen-result", "lambda-plain"]
VK_MODES = ["arg", "kw", "clo"]
VK_CONVS = ["call", "value", "yield", "list", "tuple", "dict", "nested", "twice", "aio", "aio-yield"]


def _vk_ok(vk, src, mode, conv):
    if src == "gen-result" and vk in VK_FUTURES and vk not in ("futlist", "futdict", "futtuple"):
        return False        # asynq.result(x) documents (asserts) that x is not a future
    if conv in ("aio", "aio-yield") and src in ("gen-item", "gen-task"):
        return False        # batch items are not supported in asyncio mode (documented); gen-task's helper task awaits one
    return True


def valuekinds_cases(tier, rng):
    cases = []

    def case(calls):
        cases.append({"special": "valuekinds", "calls": [list(c) for c in calls if _vk_ok(*c)]})

    # the seeds of the family: every kind of value from a plain function and from a generator, by every simple convention
    for vk in VK_ALL:
        case([(vk, "plain", "arg", "call"), (vk, "gen-none", "clo", "value"), (vk, "plain", "clo", "yield"), (vk, "gen-item", "arg", "list")])
    for src in VK_SRCS:
        case([("genobj", src, "arg", "call"), ("task", src, "clo", "yield"), ("constfut", src, "kw", "value"), ("item", src, "arg", "dict")])
    for conv in VK_CONVS:
        case([("gen-tasks", "plain", "clo", conv), ("gen-nones", "pure-plain", "arg", conv), ("task", "gen-task", "arg", conv),
              ("coro", "meth-plain", "arg", conv)])
    for _ in range(60 if tier == "quick" else 3000):
        calls = []
        for _ in range(rng.randint(1, 4)):
            calls.append((rng.choice(VK_ALL), rng.choice(VK_SRCS), rng.choice(VK_MODES), rng.choice(VK_CONVS)))
        case(calls)
    return [c for c in cases if c["calls"]]


def _vk_one(vk, src, mode, conv):
    """one call: build the object, hand it to / get it back from the function, observe"""
    import asyncio
    import inspect
    import asynq
    from asynq import batching

    log = []        # side effects of the VALUE (its body ran, it was flushed, it was called)
    flushes = []

    class VB(batching.BatchBase):
        def __init__(self, name):
            batching.BatchBase.__init__(self)
            self.name = name

        def _try_switch_active_batch(self):
            if cur.get(self.name) is self:
                cur[self.name] = VB(self.name)

        def _flush(self):
            if self.name in ("valdb", "leafdb"):      # the batches of the VALUE (not those the functions themselves await)
                flushes.append(self.name)
            for it in self.items:
                it.set_value(it.payload)

    class VI(batching.BatchItemBase):
        def __init__(self, name, payload):
            if name not in cur:
                cur[name] = VB(name)
            batching.BatchItemBase.__init__(self, cur[name])
            self.payload = payload

    cur = {}

    @asynq.asynq()
    def leaf(k):
        log.append("leaf%d" % k)
        v = yield VI("leafdb", k)
        return v

    @asynq.asynq()
    def pre_leaf(k):
        v = yield VI("pre", k)
        return v

    exc = KeyError("k")
    keep = []

    def make():
        if vk == "genobj":
            def g():
                log.append("g-start")
                yield 0
                yield 1
                yield 2
                log.append("g-end")
                return "done"
            o = g()
            return o, lambda: [inspect.getgeneratorstate(o), len(log)], lambda: list(o) + log
        if vk == "genexp":
            o = (i * i for i in range(4))
            return o, lambda: [inspect.getgeneratorstate(o)], lambda: list(o)
        if vk == "gen-nones":
            def g():
                for i in range(2):
                    log.append("p%d" % i)
                    yield None
                return "exhausted"
            o = g()
            return o, lambda: [inspect.getgeneratorstate(o), len(log)], lambda: list(o) + log
        if vk == "gen-tasks":
            o = (leaf.asynq(k) for k in (1, 2))
            return o, lambda: [inspect.getgeneratorstate(o), len(log)], lambda: [t.value() for t in list(o)] + log
        if vk == "gen-started":
            def g():
                log.append("g-start")
                yield 0
                yield 1
                yield 2
                log.append("g-end")
            o = g()
            next(o)
            return o, lambda: [inspect.getgeneratorstate(o), len(log)], lambda: list(o) + log
        if vk == "constfut":
            o = asynq.ConstFuture(5)
            return o, lambda: [o.is_computed(), o.value()], lambda: [o.value()]
        if vk == "errfut":
            o = asynq.ErrorFuture(exc)
            return o, lambda: [o.is_computed(), o.error() is exc], lambda: [_raised_same(o.value, exc)]
        if vk == "task":
            o = leaf.asynq(7)
            return o, lambda: [o.is_computed(), len(log), len(flushes)], lambda: [o.value()] + log
        if vk == "task-done":
            o = leaf.asynq(7)
            o.value()
            return o, lambda: [o.is_computed(), o.value(), len(log), len(flushes)], lambda: [o.value()] + log
        if vk == "item":
            o = VI("valdb", 8)
            return o, lambda: [o.is_computed(), len(flushes), len(o.batch.items), o.batch.is_flushed()], lambda: [o.value()] + flushes
        if vk == "coro":
            async def co():
                log.append("co-start")
                return 9
            o = co()
            keep.append(o)
            return o, lambda: [inspect.getcoroutinestate(o), len(log)], lambda: [_coro_value(o)] + log
        if vk == "iter":
            o = iter([1, 2, 3])
            return o, lambda: [o.__length_hint__()], lambda: list(o)
        if vk == "callable":
            def o():
                log.append("called")
                return 4
            return o, lambda: [len(log)], lambda: [o()] + log
        if vk in ("futlist", "futdict", "futtuple"):
            parts = [asynq.ConstFuture(1), leaf.asynq(2), VI("valdb", 3)]
            o = {"futlist": lambda: list(parts), "futtuple": lambda: tuple(parts), "futdict": lambda: dict(zip("abc", parts))}[vk]()
            elems = (lambda: list(o.values())) if vk == "futdict" else (lambda: list(o))
            return o, lambda: [len(elems()), all(x is y for x, y in zip(elems(), parts)), parts[1].is_computed(), parts[2].is_computed(),
                               len(log), len(flushes)], lambda: [x.value() for x in elems()] + log
        raise ValueError(vk)

    obj, probe, use = make()
    inside = []

    def seen(x):
        inside.append([x is obj, probe()])
        return x

    # ---- the function under test: takes the object (arg / kw) or finds it in its closure (clo), returns it
    def body_of(kind):
        if kind == "plain":
            if mode == "clo":
                return lambda: seen(obj)
            return lambda x=None: seen(x)
        if kind == "noyield":
            def f(x=obj):
                return seen(x)
                yield
        elif kind == "none":
            def f(x=obj):
                yield None
                return seen(x)
        elif kind == "item":
            def f(x=obj):
                v = yield VI("pre", 1)
                assert v == 1
                return seen(x)
        elif kind == "task":
            def f(x=obj):
                v = yield pre_leaf.asynq(0)
                assert v == 0
                return seen(x)
        elif kind == "result":
            def f(x=obj):
                yield None
                asynq.result(seen(x))
        else:
            raise ValueError(kind)
        if mode == "clo":
            return lambda: f()
        return f

    def gen_body(kind):
        """a GENERATOR function (the closure variant must itself be one, not a lambda returning a generator)"""
        if mode != "clo":
            return body_of(kind)
        inner = body_of(kind)

        def f():
            return (yield from inner())
        return f

    def sync_twin(*a, **k):
        return seen(a[-1] if a else k.get("x", obj))

    bodies = {"gen-noyield": "noyield", "gen-none": "none", "gen-item": "item", "gen-task": "task", "gen-result": "result"}
    pure = src.startswith("pure-")
    if src in bodies:
        fn = asynq.asynq()(gen_body(bodies[src]))
    elif src in ("plain", "lambda-plain"):
        fn = asynq.asynq()(body_of("plain"))
    elif src == "pure-gen":
        fn = asynq.asynq(pure=True)(gen_body("none"))
    elif src == "pure-plain":
        fn = asynq.asynq(pure=True)(body_of("plain"))
    elif src == "proxy-const":
        plain = body_of("plain")
        fn = asynq.async_proxy()(lambda *a, **k: asynq.ConstFuture(plain(*a, **k)))
    elif src == "proxy-task":
        target = asynq.asynq()(gen_body("item" if conv not in ("aio", "aio-yield") else "none"))
        fn = asynq.async_proxy()(lambda *a, **k: target.asynq(*a, **k))
    elif src == "pair-plain":
        fn = asynq.asynq(sync_fn=sync_twin)(body_of("plain"))
    elif src == "pair-gen":
        fn = asynq.asynq(sync_fn=sync_twin)(gen_body("none"))
    elif src in ("meth-gen", "meth-plain", "meth-pair", "static-plain", "class-gen"):
        class Obj(object):
            @asynq.asynq()
            def mgen(self, x=obj):
                yield None
                return seen(x)

            @asynq.asynq()
            def mplain(self, x=obj):
                return seen(x)

            def mpair_sync(self, x=obj):
                return seen(x)

            @asynq.asynq(sync_fn=mpair_sync)
            def mpair(self, x=obj):
                return seen(x)

            @asynq.asynq()
            @staticmethod
            def mstatic(x=obj):
                return seen(x)

            @asynq.asynq()
            @classmethod
            def mclass(cls, x=obj):
                yield None
                return seen(x)
        fn = getattr(Obj(), {"meth-gen": "mgen", "meth-plain": "mplain", "meth-pair": "mpair", "static-plain": "mstatic", "class-gen": "mclass"}[src])
    elif src == "acall-plain":
        plain = body_of("plain")

        class _AC(object):
            def asynq(self, *a, **k):
                return asynq.async_call.asynq(plain, *a, **k)

            def asyncio(self, *a, **k):
                return asynq.async_call.asyncio(plain, *a, **k)

            def __call__(self, *a, **k):
                return asynq.async_call(plain, *a, **k)
        fn = _AC()
    elif src == "acall-gen":
        target = asynq.asynq()(gen_body("none"))

        class _AG(object):
            def asynq(self, *a, **k):
                return asynq.async_call.asynq(target, *a, **k)

            def asyncio(self, *a, **k):
                return asynq.async_call.asyncio(target, *a, **k)

            def __call__(self, *a, **k):
                return asynq.async_call(target, *a, **k)
        fn = _AG()
    else:
        raise ValueError(src)

    args, kwargs = ((obj,), {}) if mode == "arg" else ((), {"x": obj}) if mode == "kw" else ((), {})

    def mk():
        return fn(*args, **kwargs) if pure else fn.asynq(*args, **kwargs)

    @asynq.asynq()
    def other(v):
        return (yield VI("otherdb", v))

    @asynq.asynq()
    def other_plain(v):
        return v

    aio = conv in ("aio", "aio-yield")
    oth = other_plain if aio else other

    @asynq.asynq()
    def mid():
        r = yield mk()
        return r

    @asynq.asynq()
    def parent():
        if conv in ("yield", "aio-yield"):
            r = yield mk()
        elif conv == "list":
            r = (yield [oth.asynq(1), mk(), oth.asynq(2)])[1]
        elif conv == "tuple":
            r = (yield mk(), oth.asynq(1))[0]
        elif conv == "dict":
            r = (yield {"o": oth.asynq(1), "k": mk()})["k"]
        elif conv == "nested":
            r = (yield {"d": (oth.asynq(1), [None, mk()])})["d"][1][1]
        elif conv == "twice":
            r = yield mid.asynq()
        else:
            raise ValueError(conv)
        # the parent hands the value on as ITS value
        return r

    before = probe()
    try:
        if conv == "call":
            got = fn(*args, **kwargs).value() if pure else fn(*args, **kwargs)
        elif conv == "value":
            got = mk().value()
        elif conv == "aio":
            got = asyncio.run(fn.asyncio(*args, **kwargs))
        elif conv == "aio-yield":
            got = asyncio.run(parent.asyncio())
        else:
            got = parent()
        out = "ok"
    except BaseException as e:
        let_timeouts_through(e)
        got = None
        out = "raised-" + _ename(e)
    try:
        after = probe()
    except BaseException as e:
        let_timeouts_through(e)
        after = ["probe-raised-" + _ename(e)]
    try:
        used = use()
    except BaseException as e:
        let_timeouts_through(e)
        used = ["use-raised-" + _ename(e)]
    for o in keep:
        o.close()
    return "(result %s %s %s %s %s %s)" % (out, _sx(got is obj), _sx(["inside"] + inside), _sx(["before"] + before),
                                            _sx(["after"] + after), _sx(["use"] + used))


def _raised_same(thunk, exc):
    try:
        thunk()
    except BaseException as e:
        let_timeouts_through(e)
        return "raised-same" if e is exc else "raised-" + _ename(e)
    return "no-error"


def _coro_value(co):
    try:
        co.send(None)
    except StopIteration as s:
        return s.value
    return "suspended"


def run_valuekinds(case, pid=None):
    """C01 ('fn(args), fn.asynq(args).value() and `yield fn.asynq(args)` return what sequential evaluation of the same code
    returns'): for code whose value (or argument) is an object that the library itself would know how to run - a generator,
    a future, a task, a batch item, a coroutine - sequential evaluation hands over THE object, untouched: only what is
    YIELDED is awaited.  (What the code does with a task given to `return`: AsyncTask._continue -> _queue_exit(value) ->
    set_value(value): the value is stored as it is, it is neither scheduled nor unwrapped; @async_proxy functions return the
    future to AWAIT, so there the object travels as the value OF the returned future.)"""
    import asynq
    lines = ["(case valuekinds %d %s)" % (case["id"], " ".join(_sx(["call"] + list(c)) for c in case["calls"]))]
    for c in case["calls"]:
        asynq.scheduler.reset()
        try:
            lines.append(_vk_one(*c))
        except BaseException as e:
            let_timeouts_through(e)
            lines.append("(result harness-raised-%s)" % _ename(e))
    asynq.scheduler.reset()
    lines.append("(end)")
    feats = ["family=valuekinds"] + sorted({"vk=" + c[0] for c in case["calls"]} | {"vk-src=" + c[1] for c in case["calls"]} |
                                           {"vk-conv=" + c[3] for c in case["calls"]} | {"vk-mode=" + c[2] for c in case["calls"]})
    return {"lines": lines, "features": feats, "nontrivial": "valuekinds-" + json.dumps(case["calls"])[:300]}


# =====================================================================================================================
# equalreceivers (C01)
# =====================================================================================================================

ER_EQ = ["identity", "equal", "equal-all", "unhashable", "eq-raises", "hash-raises"]
ER_DECL = ["pair", "pair-plain", "plain", "pure", "proxy", "pair-proxy", "pair-class", "pair-static", "class", "static"]
ER_CONVS = ["call", "value", "yield", "list", "aio"]


def equalreceivers_cases(tier, rng):
    cases = []

    def case(eq, decl, n, ops, inside, body="item"):
        if decl == "pure":
            ops = [o for o in ops if o[-2] != "aio"]
        if any(o[-2] == "aio" for o in ops if o[0] != "bind"):
            body, inside = "task", 0
        cases.append({"special": "equalreceivers", "eq": eq, "decl": decl, "n": n, "ops": ops, "inside": inside, "body": body})

    for eq in ER_EQ:
        for decl in ER_DECL:
            # the seeds of the family: first use on receiver 0, then the others; bound methods taken first and called later
            case(eq, decl, 3, [["direct", 0, "call", 1], ["direct", 1, "call", 2], ["direct", 1, "value", 3], ["direct", 2, "yield", 4],
                               ["direct", 1, "list", 5]], 0)
            case(eq, decl, 2, [["bind", 1, 0], ["bind", 0, 1], ["use", 0, "value", 1], ["use", 1, "call", 2], ["use", 0, "yield", 3],
                               ["direct", 1, "yield", 4]], 1)
    for _ in range(40 if tier == "quick" else 2000):
        n = rng.randint(2, 4)
        ops, slots = [], 0
        for _ in range(rng.randint(2, 8)):
            k = rng.random()
            if k < 0.3:
                ops.append(["bind", rng.randrange(n), slots])
                slots += 1
            elif k < 0.6 and slots:
                ops.append(["use", rng.randrange(slots), rng.choice(ER_CONVS), rng.randint(1, 9)])
            else:
                ops.append(["direct", rng.randrange(n), rng.choice(ER_CONVS), rng.randint(1, 9)])
        case(rng.choice(ER_EQ), rng.choice(ER_DECL), n, ops, rng.choice([0, 1]))
    return cases


def run_equalreceivers(case, pid=None):
    """C01 for METHODS: obj.m(a), obj.m.asynq(a).value(), `yield obj.m.asynq(a)` return what sequential evaluation of the
    method body on THAT object returns - whatever the object's __eq__ / __hash__ say (value objects that compare equal,
    unhashable ones, ones whose comparison raises), and however accesses to the method on different receivers interleave."""
    import asyncio
    import asynq
    from asynq import batching

    eq, decl, n, body = case["eq"], case["decl"], case["n"], case.get("body", "item")

    class B(batching.BatchBase):
        def _try_switch_active_batch(self):
            if cur[0] is self:
                cur[0] = B()

        def _flush(self):
            for it in self.items:
                it.set_value(it.payload)

    class I(batching.BatchItemBase):
        def __init__(self, payload):
            batching.BatchItemBase.__init__(self, cur[0])
            self.payload = payload

    cur = [B()]

    @asynq.asynq()
    def helper(a):
        return a

    def await_(a):
        return I(a) if body == "item" else helper.asynq(a)

    class EqBoom(Exception):
        pass

    class Base(object):
        cstate = 99

        def __init__(self, state):
            self.state = state

        if eq in ("equal", "unhashable"):
            def __eq__(self, other):
                return isinstance(other, Base)

            def __ne__(self, other):
                return not isinstance(other, Base)
        if eq == "equal-all":
            def __eq__(self, other):
                return True
        if eq == "eq-raises":
            def __eq__(self, other):
                raise EqBoom("eq")
        if eq in ("equal", "equal-all", "eq-raises"):
            def __hash__(self):
                return 1
        if eq == "unhashable":
            __hash__ = None
        if eq == "hash-raises":
            def __hash__(self):
                raise EqBoom("hash")

        # --- the methods; every one answers [state of ITS receiver, argument, which twin ran]
        def pair_sync(self, a):
            return [self.state, a, "s"]

        @asynq.asynq(sync_fn=pair_sync)
        def pair(self, a):
            v = yield await_(a)
            return [self.state, v, "a"]

        def pair_plain_sync(self, a):
            return [self.state, a, "s"]

        @asynq.asynq(sync_fn=pair_plain_sync)
        def pair_plain(self, a):
            return [self.state, a, "a"]

        @asynq.asynq()
        def plain(self, a):
            v = yield await_(a)
            return [self.state, v, "a"]

        @asynq.asynq(pure=True)
        def pure(self, a):
            v = yield await_(a)
            return [self.state, v, "a"]

        @asynq.async_proxy()
        def proxy(self, a):
            return self.plain.asynq(a)

        def pair_proxy_sync(self, a):
            return [self.state, a, "s"]

        @asynq.async_proxy(sync_fn=pair_proxy_sync)
        def pair_proxy(self, a):
            return self.plain.asynq(a)

        @classmethod
        def pair_class_sync(cls, a):
            return [cls.cstate, a, "s"]

        @asynq.asynq(sync_fn=pair_class_sync)
        @classmethod
        def pair_class(cls, a):
            v = yield await_(a)
            return [cls.cstate, v, "a"]

        @staticmethod
        def pair_static_sync(a):
            return [7, a, "s"]

        @asynq.asynq(sync_fn=pair_static_sync)
        @staticmethod
        def pair_static(a):
            v = yield await_(a)
            return [7, v, "a"]

        @asynq.asynq()
        @classmethod
        def class_(cls, a):
            v = yield await_(a)
            return [cls.cstate, v, "a"]

        @asynq.asynq()
        @staticmethod
        def static(a):
            v = yield await_(a)
            return [7, v, "a"]

    attr = {"pair-plain": "pair_plain", "pair-proxy": "pair_proxy", "pair-class": "pair_class", "pair-static": "pair_static",
            "class": "class_"}.get(decl, decl)
    subs = [type("Sub%d" % r, (Base,), {"cstate": 100 + r}) for r in range(n)]
    objs = [subs[r](10 + r) for r in range(n)]
    is_pure = decl == "pure"
    slots = {}
    results = []

    def mk(bound, a):
        return bound(a) if is_pure else bound.asynq(a)

    def call_top(bound, conv, a, nxt):
        if conv == "call":
            return [bound(a).value() if is_pure else bound(a)]
        if conv == "value":
            return [mk(bound, a).value()]
        if conv == "aio":
            return [asyncio.run(bound.asyncio(a))]
        return [None]

    def do_ops_gen(inside):
        """the operations, as a generator: at the top level it is driven by hand (every yield is a small computation of
        its own), inside a task it IS the task's body"""
        for i, op in enumerate(case["ops"]):
            try:
                if op[0] == "bind":
                    slots[op[2]] = (getattr(objs[op[1]], attr), op[1])
                    results.append([i, "bound"])
                    continue
                if op[0] == "use":
                    if op[1] not in slots:
                        results.append([i, "no-slot"])
                        continue
                    bound, r = slots[op[1]]
                else:
                    r = op[1]
                    bound = getattr(objs[r], attr)
                conv, a = op[2], op[3]
                if conv in ("call", "value", "aio"):
                    vals = call_top(bound, conv, a, None)
                elif conv == "yield":
                    vals = [(yield mk(bound, a))]
                else:
                    nxt = (r + 1) % n
                    vals = list((yield [mk(bound, a), mk(getattr(objs[nxt], attr), a + 10)]))
                results.append([i, "ok"] + vals)
            except BaseException as e:
                let_timeouts_through(e)
                results.append([i, "raised-" + _ename(e)])

    @asynq.asynq()
    def root():
        yield from do_ops_gen(True)

    @asynq.asynq()
    def one(x):
        return (yield x)

    asynq.scheduler.reset()
    out = "ok"
    try:
        if case["inside"]:
            root()
        else:
            g = do_ops_gen(False)
            try:
                y = next(g)
                while True:
                    try:
                        v = one(y)
                    except BaseException as e:
                        let_timeouts_through(e)
                        y = g.throw(e)
                    else:
                        y = g.send(v)
            except StopIteration:
                pass
    except BaseException as e:
        let_timeouts_through(e)
        out = "raised-" + _ename(e)
    asynq.scheduler.reset()
    lines = ["(case equalreceivers %d %s %s %d %s)" % (case["id"], eq, decl, n, " ".join(_sx(["op"] + op) for op in case["ops"]))]
    for r in results:
        lines.append("(result %s)" % " ".join(_sx(x) for x in r))
    lines.append("(done %s)" % out)
    lines.append("(end)")
    feats = ["family=equalreceivers", "er-eq=" + eq, "er-decl=" + decl, "er-inside=%d" % case["inside"]] + \
        sorted({"er-conv=" + o[2] for o in case["ops"] if o[0] != "bind"} | {"er-op=" + o[0] for o in case["ops"]})
    return {"lines": lines, "features": feats,
            "nontrivial": "equalreceivers-" + json.dumps([eq, decl, n, case["ops"], case["inside"], body])[:300]}


RUNNERS = {"valuekinds": run_valuekinds, "equalreceivers": run_equalreceivers}
