"""C02 - see DESIGN.md section 5; shared machinery in corecommon.py"""
from checks import corecommon as cc
from checks import corefam8

PID = "C02"
LEVEL = cc.LEVEL
BUILDS = cc.BUILDS
CASE_TIMEOUT = cc.CASE_TIMEOUT
LEAN_MODULES = ['AsynqModel.Theorems.C02', 'AsynqModel.Theorems.C03b', 'AsynqModel.Theorems.SpecC02']
THEOREMS = ["AsynqModel.Core." + n for n in ['C02_first_wins', 'C02_unwrap_ok_iff', 'C02_first_failure_spec', 'C01_shape', 'C02_unwrap_congr', 'C02_extract_eq_leaves', 'C02_received_is_unwrap', 'C02_received_trace', 'C02_sync_returns_target', 'C02_raising_is_guard', 'C02_received_error_source', 'C02_error_source', 'C02_unaffected', 'C02_unaffected_contra', 'C02_error_chain', 'C02_caught_chain', 'C02_depends_on_origin', 'C02_unaffected_transitive', 'Spec_C02_accepts', 'Spec_C02_accepts_delivery', 'Spec_C02_only_ret', 'Spec_C02_no_bad', 'Spec_C02_watch_agrees']]
LEAN_MODULES = LEAN_MODULES + ['AsynqModel.Theorems.AuditFixes']
THEOREMS = THEOREMS + ["AsynqModel.Core." + n for n in ['C02_error_chain_strict', 'C02_depends_on_origin_strict', 'C02_unaffected_transitive_strict', 'C02_typeerr_source']]
MIX = [('yield_err',4),('full',3),('sync',1)]
RULE = ("grammar-generated task programs (profiles %s; trees and DAGs of tasks, 1-3 batch kinds with priority overrides "
        "and raising flushes, nested yield structures, errors, try/except, synchronous re-entry, contexts) interpreted on "
        "the real scheduler and replayed in the Lean machine with the implementation's flush choices; non-trivial = at "
        "least 2 tasks and 1 scheduler flush; distinct by hash of (configuration, programs)" % (", ".join(p for p, _ in MIX)))
RULE += cc.ASYNCIO_RULE
RULE += "; plus round-6 families selfcancel (a flush that completes its own batch through the public API - cancel / set_error / set_value - and then returns or raises: every waiting task receives the item's first outcome at its read, try/except works) and deepfail (chains of 10..4000 tasks, under the default recursion limit, whose k-th level fails, with / without a handler above), judged by direct expectation (Drv/Families8.lean)"
TRUSTED = cc.TRUSTED_CORE + cc.TRUSTED_ASYNCIO
ASSUMPTIONS = cc.ASSUMPTIONS_CORE


def extra(tier, rng):
    return cc.exotic_cases() + cc.asyncio_cases(PID, tier, cc.fork(rng, "aio")) + \
        corefam8.selfcancel_cases(tier, cc.fork(rng, "selfcancel")) + corefam8.deepfail_cases(tier, cc.fork(rng, "deepfail"))


def plan(tier, seed):
    return cc.make_plan(PID, tier, seed, MIX, 3000, 40000, ntops=(1,), extra=extra)


def run_case(case):
    if case.get("special") in corefam8.RUNNERS:
        return corefam8.run(case, PID)
    return cc.run_case_for(PID, case)


def shrink(case):
    if case.get("special") in corefam8.RUNNERS:
        return corefam8.shrink(case)
    return cc.shrink_case(case)


def neighbours(case, rng):
    return cc.neighbours_case(case, rng, [p for p, _ in MIX])


def signature(case, v):
    return cc.signature_for(case, v)
