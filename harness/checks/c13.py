"""C13  Async caches behave like their reference cache for every call history.

Histories of calls (every spelling of the same arguments: positional / keyword / default / keyword-only / overflow into
*rest, plus a small malformed stream), bodies that block on a batch or raise or return a value that refers to the instance, custom key
functions, maxsize 1-4, several instances with instance drop, dirty() and ttl expiry on a scripted clock - run on the
real alru_cache / acached_per_instance / alazy_constant.  The Lean model (AsynqModel.Lib.Cache: qcore's LRUCache,
get_args_tuple and get_kwargs_defaults and the three wrappers, branch for branch, with the argument-name lists AS
WRITTEN in tools.py, and the closure dict of acached_per_instance that holds the cached values strongly) replays the
same history (correspondence) and the Lean observers `Alru.spec`, `PerInst.spec`, `Lazy.spec` - a reference cache
keyed on the call's normalised arguments - judge the implementation's observations on their own.

Round 4 (feature interactions): every history is crossed with (a) ONE decorator object applied to 1-3 functions (model:
the families of Lib/CacheFam.lean, one cache per function; observers `*.Fam.spec`, one reference cache per function),
(b) the entry point of each call, including asyncio mode (await f.asyncio(..), yielded under .asyncio()), another thread,
async_call, call_with_context, C.m(obj, ..), (c) what the decorator wraps (@asynq(), @asynq(asyncio_fn=..), a function whose
.asyncio() was used before, @deduplicate(), @async_proxy()), (d) how the decorator arguments are spelled, (e) bodies that
block on asynq's DebugBatchItem, falsy values, debug options switched in mid-history, (deep) copies of instances; plus a
family of self-recursive cached functions judged by a direct expectation of the driver.

Round 5 (open signatures): 10% of the generated functions / methods collect further KEYWORD arguments (**opts; 60% of them
*rest too) and their calls pass items (name, value) either as a keyword or - into *rest - as the 2-tuple (name, value), the
very shape qcore's get_args_tuple gives to a keyword it does not know: f(1, x=2) and f(1, ("x", 2)) are different calls.
Model Lib/CacheKw.lean (`openKey`: the PAIR built by tools._args_cache_key; normalised arguments `openNorm`), theorems
Theorems/C13c.lean, judged by the same observers `Alru.spec` / `PerInst.spec`.

Audit 3 (positional-only parameters): 30% of the functions with **opts declare their first 1..n positional parameters
positional-only (def g(a, b=0, /, c=0, **opts)); half of their calls pass a keyword that has the NAME of a positional-only
parameter - a valid call (PEP 570: **opts collects it).  This is where the property is FALSE of alru_cache /
acached_per_instance as they are: g(1, a=2), g(1, a=3) and g(1) share one cache entry (OPEN FINDING, signature
default-key/keyword-named-like-positional-only-parameter/wrong-value, C13_open_posonly_counterexample).  A keyword named
`self` is not generated (build-dependent: TypeError in the pure-Python build, accepted by the Cython build; ASSUMPTIONS).

Round 6 (values that defeat sentinel / identity / truthiness shortcuts): 12% of the bodies return a SINGLETON - None,
NotImplemented, qcore.caching.miss / not_computed (the library's own sentinels: LRUCache.get's default), False, 0, "", () -
and 4% an object that is falsy AND == everything (None and every sentinel included); all three caches.  The model's values are
opaque tokens, so its theorems cover every value; the harness reports a returned singleton as (okNone) / (okS k) and the
driver names it by the run the model predicts when that run returned the same singleton (Drv/Cache.lean resolveSingletons)."""
import hashlib
import itertools
import json
import random

PID = "C13"
LEVEL = "proof"
LEAN_MODULES = ["AsynqModel.Theorems.C13", "AsynqModel.Theorems.C13b", "AsynqModel.Theorems.C13c", "AsynqModel.Theorems.C13d"]
# the claimed theorems (audited with #print axioms by the proof gate); one line each in MANIFEST.json / DESIGN.md 5.
# HEADLINE: statements about alru_cache / acached_per_instance / alazy_constant with content of their own.
HEADLINE = [
    # Theorems/C13d.lean: each of the three observers accepted an accepted history (any length, any origin) at EVERY
    # position, by watchStep from the reference cache built by the records before it
    "AsynqModel.Cache.Alru.C13_alru_spec_every_step",
    "AsynqModel.Cache.PerInst.C13_perinst_spec_every_step",
    "AsynqModel.Cache.Lazy.C13_lazy_spec_every_step",
    "AsynqModel.Cache.C13_key_normal",
    "AsynqModel.Cache.C13_key_injective",
    "AsynqModel.Cache.C13_alru_key_normal",
    "AsynqModel.Cache.C13_alru_refines",
    "AsynqModel.Cache.C13_alru_refines_keyfn",
    "AsynqModel.Cache.C13_alru_size_le_maxsize",
    "AsynqModel.Cache.C13_alru_kept_below_maxsize_keys",
    "AsynqModel.Cache.C13_alru_recently_used_kept",
    "AsynqModel.Cache.C13_alru_evicted_after_maxsize_keys",
    "AsynqModel.Cache.C13_per_instance_refines_partial",
    "AsynqModel.Cache.C13_per_instance_leak_counterexample",
    "AsynqModel.Cache.C13_instances_independent",
    "AsynqModel.Cache.C13_lazy_refines",
    "AsynqModel.Cache.C13_lazy_dirty_once",
    "AsynqModel.Cache.C13_lazy_ttl_once",
    "AsynqModel.Cache.C13_lazy_raise_not_cached",
    # families (Theorems/C13b.lean) with content of their own: a drop is seen by EVERY method's dict and a value cached by
    # one method keeps the entries of all methods alive; ONE clock for all constants of a decorator object
    "AsynqModel.Cache.C13_per_instance_shared_decorator_refines_partial",
    "AsynqModel.Cache.C13_per_instance_family_leak_counterexample",
    "AsynqModel.Cache.C13_lazy_shared_decorator_refines",
    # open signatures (Theorems/C13c.lean): functions with **opts, positional values that are (name, value) tuples
    "AsynqModel.Cache.C13_open_key_normal",
    "AsynqModel.Cache.C13_open_refkey_injective",
    "AsynqModel.Cache.C13_open_key_injective",
    "AsynqModel.Cache.C13_alru_open_signature_refines",
    "AsynqModel.Cache.C13_per_instance_open_signature_refines_partial",
    "AsynqModel.Cache.C13_open_flat_key_counterexample",
    "AsynqModel.Cache.C13_open_callOK_needed",
    # positional-only parameters + **opts: the property is FALSE of the code as it is (open finding, audit 3 A1); the
    # theorems above carry poClean / openCallOK; the key of proposed-fixes/C13-posonly-cache-key.diff on the witnesses
    "AsynqModel.Cache.C13_open_posonly_counterexample",
    "AsynqModel.Cache.C13_open_posonly_repaired_key",
    # every hypothesis of the theorems above is needed (machine-checked witnesses on the model)
    "AsynqModel.Cache.C13_alru_callOK_needed",
    "AsynqModel.Cache.C13_per_instance_callOK_needed",
    "AsynqModel.Cache.C13_alru_maxsize_pos_needed",
    "AsynqModel.Cache.C13_alru_eviction_hyps_needed",
    "AsynqModel.Cache.C13_lazy_clock_pos_needed",
    "AsynqModel.Cache.C13_lazy_step_hyps_needed",
    "AsynqModel.Cache.C13_per_instance_family_nfn_needed",
]
# BY CONSTRUCTION: the alru_cache family model is the product of single-function models (`Alru.Fam.observe := setAt ..`),
# so these four are the single-function theorems lifted - they hold for ANY per-function step (audit 2, N12).  What they
# are meant to say ("the cache is built in decorator(fn), once per function, not in alru_cache(..)") is established by the
# correspondence check on families, not by them.  Audited with #print axioms, counted apart by tools/gen_status.py.
BY_CONSTRUCTION = [
    "AsynqModel.Cache.C13_alru_shared_decorator_refines",
    "AsynqModel.Cache.C13_alru_shared_decorator_refines_keyfn",
    "AsynqModel.Cache.C13_alru_family_projection",
    "AsynqModel.Cache.C13_alru_family_size_le_maxsize",
]
THEOREMS = HEADLINE + BY_CONSTRUCTION
# NOT claimed: they hold by unfolding one `step` of the model (they document the model; their content is the
# correspondence check).  Compiled with LEAN_MODULES, not counted as property theorems.
STEP_LEMMAS = [
    "AsynqModel.Cache.C13_alru_hit",
    "AsynqModel.Cache.C13_alru_miss",
    "AsynqModel.Cache.C13_alru_raise_not_stored",
    "AsynqModel.Cache.C13_instance_drop",
    "AsynqModel.Cache.C13_alru_functions_independent",
]
BUILDS = {"quick": ["py"], "thorough": ["py", "cy"]}
CASE_TIMEOUT = 20
RULE = ("three streams. alru: signature (0-3 positional-or-keyword parameters with 0-n trailing defaults, 0-2 keyword-only "
        "parameters with/without default; 12% of the signatures also collect further positional arguments (*rest), half of "
        "those get a keyword-only parameter if they have none; 45% of the calls of such a function pass 1-2 positional "
        "arguments that overflow into *rest) x maxsize 1-4 x key function (default / const / sumParity / raw) x history of "
        "1-30 calls drawn from a pool of 2-5 bindings over values 0-3, each call spelled at random (how many positional, "
        "keywords in random order, defaults omitted or passed, 40% of default-key cases all-positional), 5% malformed "
        "(missing required argument, unexpected keyword); 2% of the default-key and per-instance cases also contain "
        "calls Python cannot bind because of too many positional arguments or a parameter passed twice: for those cases "
        "only the correspondence is judged (ASSUMPTIONS); plus an exhaustive core: every 3-call history over 7 "
        "spellings of f(a, b=0) x maxsize 1-2, every 5-call (thorough: 6-call) history over 3 keys x maxsize 1-3. "
        "per-instance: the same over methods (self, ...) with 1-3 instances and instance drops (del + gc.collect()); in 6% "
        "of the cases half of the bodies return a value that refers to the instance (plus every 3-operation history over "
        "call-with-such-a-value / plain call / drop on two instances). lazy: ttl 0/5/10 x scripted clock x "
        "call/dirty()/tick with bodies of duration 0-7 on the clock. Every body either returns (stamp, received "
        "arguments[, instance]) or raises, directly or after blocking on a batch item (35%; of these 15% on asynq's own "
        "DebugBatchItem; on the event loop in asyncio mode); 10% of the values are falsy; 12% of the bodies return a singleton "
        "instead (None 40%, NotImplemented, qcore.caching.miss, qcore.caching.not_computed, False, 0, '', ()), 4% an object "
        "that is falsy and == everything; plus, for every such value and each of the three caches, the history call / same "
        "call again / other key / first call again (lazy: call / call / tick / call / dirty / call). "
        "Every generated history is crossed with: ONE decorator object applied to 1 (72%) / 2 (20%) / 3 (8%) functions "
        "(half of the further functions repeat the first signature, the others get their own; 20% of the cases use a fresh "
        "decorator per function instead; each call picks its function at random); the entry point of each call: f(..), "
        "f.asynq(..).value(), yielded by an outer async function, asynq.async_call (7%), another thread (4%), "
        "tools.call_with_context with an AsyncContext (4%), C.m(obj, ..) / C.m.asynq(obj, ..) (per-instance, 10%), and in 18% of "
        "the cases half of the calls in asyncio mode (await f.asyncio(..), yielded by an outer function under .asyncio(), "
        "await C.m.asyncio(obj, ..)) with the wrapped function declared @asynq() / @asynq(asyncio_fn=coroutine) / used through "
        "its own .asyncio() before decoration (4:4:2); the wrapped function is @deduplicate() @asynq() (8%) or @async_proxy() "
        "(8%); decorator arguments positional (30%) or omitted; 8% of the cases switch a silent debug option "
        "(COLLECT_PERF_STATS, KEEP_DEPENDENCIES, ENABLE_COMPLEX_ASSERTIONS) in mid-history; 12% of the per-instance cases use "
        "a copy.copy()/deepcopy() of an instance as a further instance; odd instance tokens are instances of a subclass. "
        "Exhaustive cores: every 3-call history over 6 spellings of f(a, *rest, k=0) (alru_cache and acached_per_instance: "
        "f(1, 2) / f(1, k=2) / f(1, 2, k=2) / f(1, 2, 0) ..) and over 5 spellings of g(a, *rest); "
        "every 4-call history over 2 functions x 2 keys x maxsize 1-2, every 3-call history over f(a, b=0) / "
        "g(a, *, k=0) under one decorator object (default key and one shared key_fn), every 3-operation (thorough: 4) "
        "per-instance history over 2 methods x 2 instances with drops and a self-referring value, every 4-operation history "
        "over 2 lazy constants; every 3-call history over entry points sync/.asyncio()/yielded-under-.asyncio() x 3 spellings "
        "for each of the three ways of having an asyncio implementation; sizes: alru_cache() (default maxsize 128) and "
        "maxsize 16 filled to the brim (+1 function under the same decorator object); self-recursive fib under alru_cache "
        "maxsize 1-5 and acached_per_instance (direct expectation). "
        "Open signatures: 10% of the generated functions / methods (default key only) also collect further keyword arguments "
        "(**opts; 60% of those *rest as well); 70% of their calls pass 1-2 items out of x=2 / z=1 / x=1, each as a keyword "
        "(collected by **opts) or - if the function has *rest, 50% - as the 2-tuple (name, value) in *rest; the bodies report "
        "their normalised arguments (named values, len(rest), rest, **opts items by name). Exhaustive cores: every 3-call "
        "history over 9 spellings of f(a, *rest, **opts) (f(1, x=2) / f(1, ('x', 2)) / f(1, ('x', 2), x=2) / f(x=2, a=1) / "
        "f(1, z=1, x=2) / f(1, ('x', 2), ('z', 1)) ..) under alru_cache and acached_per_instance, over 7 spellings of "
        "g(*rest, **opts) and 8 of h(a, b=0, *, k=0, **opts); every ordered pair of 6 spellings of f(a, *rest, k=0, **opts) "
        "under @deduplicate() and with asyncio_fn= through yielded / .asynq() / .asyncio() calls. "
        "Positional-only parameters: 30% of the functions with **opts that have a named positional parameter declare the first "
        "1..n of them positional-only (def g(a, b=0, /, c=0, **opts)); such a parameter is passed positionally or left to its "
        "default, and 50% of the calls also pass a KEYWORD named like a positional-only parameter (value 0-3; a valid call, "
        "**opts collects it: g(1, a=2) - the open finding); a keyword named `self` is not generated "
        "(ASSUMPTIONS). Exhaustive cores: every 3-call history over 6 spellings of "
        "g(a, /, **opts) (g(1) / g(1, a=2) / g(1, a=3) / g(2) / g(1, x=2) / g(2, a=2)) under alru_cache and "
        "acached_per_instance, over 7 spellings of h(a, b=0, /, c=0, **opts) (h(1, b=1) / h(1, 1) / h(1, 0, b=1) ..) and over 5 "
        "of f(a, /, *rest, **opts). "
        "non-trivial = at least 3 calls with at least one reference hit and one reference miss; distinct by case hash")
TRUSTED = [
    "hand-written Lean model AsynqModel.Lib.Cache / Lib.CacheFam tied to the code by this differential run only",
    "`bind` (Python's argument binding) in the Lean model: validated on every miss, because the body reports the "
    "arguments it actually received",
    "Python harness checks/c13.py (generated functions via exec, scripted clock patched into asynq.tools.utime, "
    "body run counters, batch used for blocking bodies, asyncio event loop per case, worker thread for via=thread)",
    "qcore.caching.LRUCache/get_args_tuple/get_kwargs_defaults are modelled from their source, CPython dict/OrderedDict; "
    "'the program drops the instance' is `del` + gc.collect() in CPython: an object reachable from the decorator's "
    "closure is not freed, one that only sits in a reference cycle is",
]
ASSUMPTIONS = [
    "histories are sequences of top-level calls, each run to completion before the next starts (two calls with the same "
    "key in flight at once both miss - that is deduplicate's business, C12); the one exception is the self-recursive "
    "family (a body that calls its own cached function with other arguments), which no theorem speaks about: the driver "
    "computes the expected value and number of body runs with the model's LRUCache",
    "the entry point of a call (sync, .asynq(), yielded, async_call, call_with_context, another thread, C.m(obj, ..), "
    ".asyncio(), yielded under .asyncio()) and the kind of function wrapped (@asynq() with or without asyncio_fn, "
    "@deduplicate(), @async_proxy()) are not part of the model: its operations are calls, whatever their entry point - "
    "the theorems hold for every history, and the observers judge the implementation's observations for every entry point",
    "in asyncio mode a body blocks on the event loop (asyncio.sleep(0)), not on a batch (batch items are not supported "
    "there); errors are Exception subclasses, yielded values plain (outside C15's open findings)",
    "values are fresh tuples identified by identity (10% of them a falsy tuple subclass, 4% falsy and == everything), or one "
    "of the singletons None / NotImplemented / qcore.caching.miss / qcore.caching.not_computed / False / 0 / '' / (): which "
    "run a returned singleton comes from is unobservable for any program, so two runs that returned the same singleton "
    "returned THE SAME value: a singleton returned by a call during which the body ran and returned it is reported as that "
    "run's result; one returned without a run (a hit) is named by the driver after the run the model predicts if that run "
    "returned it (resolveSingletons; the body-run counters are observed independently of it). Values that are unhashable, raise in "
    "__eq__ / __bool__, or are futures / generators are not generated",
    "wrapped functions may have *rest (modelled: Sig.varargs), **opts (modelled: Lib/CacheKw.lean, default key only) and - "
    "together with **opts - positional-only parameters (modelled: the count `po` of Lib/CacheKw.lean); argument values are "
    "hashable and compared by ==: small integers, and - positional arguments of functions with **opts only - 2-tuples "
    "(name, small integer); the values of keywords are small integers",
    "positional-only parameters TOGETHER WITH **opts: a keyword named like a positional-only parameter is a VALID call (the "
    "keyword lands in **opts) and qcore's get_args_tuple drops it from the key or takes it for the parameter - two valid "
    "calls receive each other's value. Generated, judged, recorded as an OPEN FINDING (known_findings.json, "
    "C13_open_posonly_counterexample); the theorems about open signatures carry the hypothesis poClean / openCallOK",
    "positional-only parameters WITHOUT **opts (def g(a, /, b=0)) are not generated: there every collision of get_args_tuple "
    "is between a valid call and a call Python cannot bind (g(1, 2) cached, then g(a=1, b=2) is answered from the cache "
    "instead of raising TypeError; likewise h(1, ('x', 2)) after h(1, x=2) for def h(a, **kw) WITHOUT *rest) - the class "
    "of the unbindable calls below",
    "a keyword named `self` is NOT generated (audit 3, F: excluded explicitly). In the pure-Python build it never reaches a "
    "cache wrapper: AsyncDecorator.__call__(self, *args, **kwargs) / .asynq(self, ..) of asynq and new_fun(self, *args, "
    "**kwargs) of acached_per_instance raise TypeError (multiple values for argument 'self') whatever **opts the wrapped "
    "function has - the open model follows that build (kwSelf of Lib/CacheKw.lean: TypeError, nothing runs; for "
    "acached_per_instance the real TypeError even precedes the creation of a new instance's entry); the CYTHON build "
    "accepts the keyword for an alru_cache function (it lands in **opts; seen with VERIF_SEED=7 --tier thorough), so the "
    "behaviour is build-dependent and belongs to C09's calling conventions, not to the caches; keywords named like a parameter of an entry point (`fn` of async_call, `context` of call_with_context) are "
    "not generated (C09's open finding async_call/keyword-named-fn)",
    "per-instance FAMILIES (several methods under one decorator object) that contain a method with **opts: the single-"
    "method theorem C13_per_instance_open_signature_refines_partial speaks about each method alone, no family theorem "
    "does (alru_cache families: C13_alru_family_projection reduces them to the single-function theorem)",
    "calls Python cannot bind are covered when an argument is missing or a keyword is unexpected (TypeError, nothing "
    "runs). A call that passes too many positionals (to a function without *rest), one parameter twice or a REQUIRED "
    "positional-only parameter by keyword (g(a=1) for def g(a, /, **opts): TypeError in Python) is OUTSIDE the property: it has no "
    "normalised arguments, and qcore's get_args_tuple maps it onto the key of a valid call, so it is answered from the "
    "cache when that call is cached and raises TypeError when it is not (reproduced on the real code; hypothesis "
    "alruCallOK / perInstCallOK of the refinement theorems, needed: C13_alru_callOK_needed, "
    "C13_per_instance_callOK_needed, C13_open_callOK_needed). Such calls are generated, but only the correspondence is judged on their cases",
    "alru_cache(maxsize) with maxsize >= 1: qcore's LRUCache constructor rejects anything else (hypothesis hcap)",
    "scripted clock starts >= 1 and never goes backwards (refresh_time == 0 is alazy_constant's 'never computed' mark; "
    "needed: C13_lazy_clock_pos_needed)",
    "the number of per-instance entries is read from __acached_per_instance_cache__ (the attribute the library's own tests use)",
    "bodies block on a batch (harness batch or asynq's DebugBatchItem) or on the event loop; this is a property of the "
    "generator only - the model's operations are completed calls",
    "a cached value may refer to its instance (this is where the property is FALSE of acached_per_instance as it is: "
    "C13_per_instance_leak_counterexample); other routes by which a value could keep an instance alive (a value that "
    "refers to ANOTHER instance of the class, instances without __dict__) are not generated",
]

NAMES = {"a": 1, "b": 2, "c": 3, "k": 4, "m": 5, "q": 6, "self": 9, "x": 10, "z": 11}   # numeric order = alphabetical order
# keywords only **opts can take, and the values they come with: a call passes such an item as a keyword (x=2) or - into
# *rest - as the 2-tuple ("x", 2), the shape qcore's get_args_tuple gives to a keyword it does not know
EXTRAS = [["x", 2], ["z", 1], ["x", 1]]


def _tok(v):
    """value token on the wire: a plain value, or 1000 + 100 * name + value for the 2-tuple (name, value)"""
    if isinstance(v, (list, tuple)):
        return 1000 + 100 * NAMES.get(v[0], 99) + v[1]
    return v


KEYSPECS = ["default", "const", "sumParity", "raw"]
UNKNOWN = 999999


# ---------------------------------------------------------------------------------------------------
# generation
# ---------------------------------------------------------------------------------------------------

def gen_sig(rng, method=False, allow_empty=True):
    npos = rng.choice([0, 1, 1, 2, 2, 2, 3]) if allow_empty else rng.choice([1, 2, 2, 3])
    pos = ["a", "b", "c"][:npos]
    ndef = rng.randint(0, npos)
    defaults = [rng.choice([0, 0, 1, 2]) for _ in range(ndef)]
    nkw = rng.choice([0, 0, 0, 1, 1, 2])
    kwonly = ["k", "m"][:nkw]
    kwd = [[n, rng.choice([0, 1, 3])] for n in kwonly if rng.random() < 0.5]
    if npos + nkw == 0:
        return gen_sig(rng, method, allow_empty)
    sig = {"args": (["self"] if method else []) + pos, "defaults": defaults, "kwonly": kwonly, "kwd": kwd}
    if rng.random() < 0.12:
        # def f(a, b=0, *rest, k=0): the function collects further positional arguments
        sig["varargs"] = 1
        if rng.random() < 0.5 and not kwonly:
            sig["kwonly"], sig["kwd"] = ["k"], [["k", rng.choice([0, 1, 3])]] if rng.random() < 0.7 else []
    if rng.random() < 0.10:
        # def f(a, b=0, *rest, k=0, **opts): an OPEN signature - it collects further keyword arguments (60% of them
        # collect further positional arguments as well)
        sig["varkw"] = 1
        if rng.random() < 0.6:
            sig["varargs"] = 1
        if npos and rng.random() < 0.3:
            # def g(a, b=0, /, c=0, **opts): the first 1..npos named positional parameters are positional-only (`self` of a
            # method, which precedes them, is then positional-only too and is not counted)
            sig["posonly"] = rng.randint(1, npos)
    return sig


def sig_params(sig):
    """[(name, default-or-None, kwonly?)] without self"""
    args = [a for a in sig["args"] if a != "self"]
    nd = len(sig["defaults"])
    res = []
    for i, n in enumerate(args):
        j = i - (len(args) - nd)
        res.append((n, sig["defaults"][j] if j >= 0 else None, False))
    kwd = dict((k, v) for k, v in sig["kwd"])
    for n in sig["kwonly"]:
        res.append((n, kwd.get(n), True))
    return res


def spell(rng, sig, binding, allpos=False, rest=None):
    """one valid way of writing the call whose parameters have the values `binding` (and whose *rest is `rest`: then
    every positional-or-keyword parameter is passed positionally)"""
    params = sig_params(sig)
    npos = len([p for p in params if not p[2]])
    po = sig.get("posonly", 0)
    # a positional-only parameter is passed positionally or - when the binding has its default - omitted
    pmin = po
    while pmin > 0 and params[pmin - 1][1] is not None and params[pmin - 1][1] == binding[pmin - 1]:
        pmin -= 1
    p = npos if (allpos or rest) else rng.randint(pmin, npos)
    args = list(binding[:p]) + list(rest or [])
    kw = []
    for i, ((n, d, ko), v) in list(enumerate(zip(params, binding)))[p:]:
        if i < po:
            continue
        if d is not None and d == v and rng.random() < 0.6 and not (allpos and not ko):
            continue
        kw.append([n, v])
    rng.shuffle(kw)
    # positional arguments cannot skip a parameter: everything after an omitted default must be a keyword - it is
    return args, kw


def gen_binding(rng, sig):
    res = []
    for n, d, ko in sig_params(sig):
        if d is not None and rng.random() < 0.4:
            res.append(d)
        else:
            res.append(rng.randint(0, 3 if rng.random() < 0.3 else 1))
    return res


def malform(rng, sig, args, kw):
    params = sig_params(sig)
    required = [n for n, d, ko in params if d is None]
    if required and rng.random() < 0.6:
        # drop a required argument: the last positional (then later ones must not be positional) or a keyword
        names_pos = [n for n, d, ko in params if not ko]
        given_pos = names_pos[:len(args)]
        cand_kw = [x for x in kw if x[0] in required]
        if cand_kw:
            x = rng.choice(cand_kw)
            return args, [y for y in kw if y is not x]
        if args and len(args) <= len(names_pos) and given_pos[len(args) - 1] in required:
            return args[:-1], kw
    return args, kw + [["q", rng.randint(0, 1)]]


def unbindable(rng, sig, args, kw):
    """a call Python cannot bind that get_args_tuple accepts: too many positional arguments / one parameter twice.
    OUTSIDE the property (ASSUMPTIONS); returns None when the signature offers no such call"""
    params = sig_params(sig)
    names_pos = [n for n, d, ko in params if not ko]
    kwonly = [n for n, d, ko in params if ko]
    if len(args) > len(names_pos):
        args = args[:len(names_pos)]      # (a call that overflows into *rest: cut the overflow)
    po = sig.get("posonly", 0)
    req_po = [i for i in range(po) if params[i][1] is None]
    if req_po and sig.get("varkw") and rng.random() < 0.5:
        # a REQUIRED positional-only parameter passed by keyword (TypeError in Python; get_args_tuple builds a key)
        i = rng.choice(req_po)
        vals = list(args[i:]) + [rng.randint(0, 1)]
        return args[:i], [x for x in kw if x[0] not in names_pos[i:]] + [[n, vals[min(j, len(vals) - 1)]] for j, n in
                                                                       enumerate(names_pos[i:])]
    if args and rng.random() < 0.5:
        # one parameter twice: a positional one repeated as a keyword
        n = names_pos[rng.randrange(len(args))]
        return args, [x for x in kw if x[0] != n] + [[n, rng.randint(0, 1)]]
    if kwonly and not sig.get("varargs"):
        # too many positionals: the keyword-only parameters passed positionally
        vals = dict((k, v) for k, v in kw)
        allv = []
        for (n, d, ko) in params:
            if len(allv) < len(args):
                allv.append(args[len(allv)])
            elif n in vals:
                allv.append(vals[n])
            elif d is not None:
                allv.append(d)
            else:
                return None
        return allv, []
    if args:
        n = names_pos[rng.randrange(len(args))]
        return args, [x for x in kw if x[0] != n] + [[n, rng.randint(0, 1)]]
    return None


AIO_VIAS = ("asyncio", "aio-inner", "cls-asyncio")
SILENT_OPTIONS = ["COLLECT_PERF_STATS", "KEEP_DEPENDENCIES", "ENABLE_COMPLEX_ASSERTIONS"]


def pick_via(rng, kind, aio):
    """the entry point a call is made through.  sync: f(..); asynq: f.asynq(..).value(); inner: yielded by an outer
    @asynq() function; async_call: asynq.async_call(f, ..); thread: f(..) on another thread (joined before the history
    goes on); with-context: asynq.tools.call_with_context(ctx, f, ..) with an AsyncContext; cls / cls-asynq: C.m(obj, ..) / C.m.asynq(obj, ..).value() (per-instance only); asyncio: await f.asyncio(..)
    on an event loop; aio-inner: yielded by an outer @asynq() function that runs under .asyncio(); cls-asyncio:
    await C.m.asyncio(obj, ..)"""
    if aio and rng.random() < 0.5:
        return rng.choice(["asyncio", "asyncio", "aio-inner"] + (["cls-asyncio"] if kind == "perinst" else []))
    r = rng.random()
    if r < 0.07:
        return "async_call"
    if r < 0.11:
        return "thread"
    if r < 0.15:
        return "with-context"
    if kind == "perinst" and r < 0.21:
        return rng.choice(["cls", "cls-asynq"])
    return rng.choice(["sync", "sync", "asynq", "inner"])


def gen_call(rng, sig, pool, inst=0, allpos=False, malformed_rate=0.05, lazy=False, unbindable_rate=0.0, selfref_rate=0.0,
             fn=0, kind="alru", aio=False):
    blocks = 0
    if rng.random() < 0.35:
        blocks = 2 if rng.random() < 0.15 else 1      # 2 = asynq's own DebugBatchItem instead of the harness's batch
    op = {"op": "call", "inst": inst, "args": [], "kw": [], "raises": 1 if rng.random() < 0.15 else 0, "dur": 0,
          "blocks": blocks, "rpos": rng.randint(0, 1), "via": pick_via(rng, "lazy" if lazy else kind, aio)}
    if fn:
        op["fn"] = fn
    r = rng.random()
    if r < 0.1:
        op["falsy"] = 1          # the value the body returns is falsy (bool(value) is False)
    elif r < 0.14:
        op["falsy"] = 2          # ... falsy AND == everything (None and every sentinel included)
    elif r < 0.26:
        # the body returns a SINGLETON: 1 None, 2 NotImplemented, 3 qcore.caching.miss, 4 qcore.caching.not_computed,
        # 5 False, 6 0, 7 "", 8 ()
        op["vk"] = rng.choice([1, 1, 1, 1, 1, 2, 3, 4, 5, 6, 7, 8])
    if selfref_rate and rng.random() < selfref_rate:
        op["selfref"] = 1
        op.pop("vk", None)
    if lazy:
        op["dur"] = rng.choice([0, 0, 1, 3, 7])
        return op
    b = rng.choice(pool)
    rest = None
    if sig.get("varargs") and rng.random() < 0.45:
        rest = rng.choice([[0], [1], [2], [3], [1, 2], [0, 0]])      # positional arguments that overflow into *rest
    extra_kw = []
    if sig.get("varkw") and rng.random() < 0.7:
        # 1-2 items (name, value) with distinct names: each goes into **opts as a keyword or - if the function has
        # *rest - into *rest as the tuple (name, value); f(1, x=2) and f(1, ("x", 2)) are DIFFERENT calls
        items = [rng.choice(EXTRAS)]
        if rng.random() < 0.3:
            items += [e for e in [rng.choice(EXTRAS)] if e[0] != items[0][0]]
        for e in items:
            if sig.get("varargs") and rng.random() < 0.5:
                rest = (rest if rest is not None and rng.random() < 0.3 else []) + [list(e)]
            else:
                extra_kw.append(list(e))
    args, kw = spell(rng, sig, b, allpos, rest)
    if sig.get("posonly") and sig.get("varkw") and rng.random() < 0.5:
        # a keyword that has the NAME of a positional-only parameter which is passed positionally or left to its default:
        # a valid call, **opts collects the keyword (g(1, a=2) for def g(a, /, **opts)) - the open finding
        params = sig_params(sig)
        ok = [i for i in range(sig["posonly"]) if i < len(args) or params[i][1] is not None]
        if ok:
            extra_kw.append([params[rng.choice(ok)][0], rng.randint(0, 3)])
    # (a keyword named `self` is NOT generated: build-dependent, see ASSUMPTIONS)
    if extra_kw:
        kw = kw + extra_kw
        rng.shuffle(kw)
    if rng.random() < malformed_rate:
        args, kw = malform(rng, sig, args, kw)
    elif unbindable_rate and rng.random() < unbindable_rate:
        u = unbindable(rng, sig, args, kw)
        if u is not None:
            args, kw = u
    op["args"], op["kw"] = args, kw
    return op


def case_sigs(case):
    """the signatures of the functions decorated by the case's decorator object (function 0, 1, ..)"""
    return case.get("sigs") or [case["sig"]]


def gen_family(rng, sig0, mk_sig):
    """how many functions the ONE decorator object is applied to, and their signatures: half of the further functions
    repeat the first signature (their keys coincide exactly), the others get one of their own"""
    nfn = rng.choices([1, 2, 3], weights=[72, 20, 8])[0]
    sigs = [sig0]
    for _ in range(nfn - 1):
        sigs.append(json.loads(json.dumps(sig0)) if rng.random() < 0.5 else mk_sig())
    return sigs


def gen_dims(rng, case, kind):
    """the dimensions a call history is crossed with: asyncio mode (and how the wrapped function comes to its asyncio
    implementation), what the decorator wraps, how the decorator arguments are spelled, one decorator object or a
    fresh one per function"""
    aio = rng.random() < 0.18
    if aio:
        # 1 = @asynq(asyncio_fn=native coroutine), 2 = the wrapped function's .asyncio() was used before it was decorated
        case["native"] = rng.choices([0, 1, 2], weights=[4, 4, 2])[0]
    elif rng.random() < 0.05:
        case["native"] = 1
    r = rng.random()
    if not case.get("native"):
        if r < 0.08:
            case["wrap"] = "dedup"          # @cache @deduplicate() @asynq()
        elif r < 0.16:
            case["wrap"] = "proxy"          # @cache @async_proxy() def f(..): return inner.asynq(..)
    if rng.random() < 0.3:
        case["dspell"] = "pos"
    if rng.random() < 0.2:
        case["deco"] = "fresh"
    return aio


def sprinkle(rng, ops, kind, ninst=1):
    """harness-only events between the calls: a silent debug option switched on/off in mid-history; a (deep) copy of an
    instance that carries bound cached methods, used as a further instance"""
    n = len(ops)
    if n and rng.random() < 0.08:
        for _ in range(rng.randint(1, 2)):
            ops.insert(rng.randint(0, len(ops)), {"op": "opt", "name": rng.choice(SILENT_OPTIONS), "on": rng.randint(0, 1)})
    calls = [k for k, o in enumerate(ops) if o["op"] == "call"]
    if kind == "perinst" and calls and rng.random() < 0.12:
        # after a call on `src`: instance token `ninst` is a (deep) copy of it; some later calls on `src` go to the copy
        k = rng.choice(calls)
        src = ops[k]["inst"]
        for o in ops[k + 1:]:
            if o["op"] == "call" and o["inst"] == src and rng.random() < 0.5:
                o["inst"] = ninst
        ops.insert(k + 1, {"op": "copy", "src": src, "inst": ninst, "deep": rng.randint(0, 1)})
        if rng.random() < 0.5:
            ops.append(dict(ops[k], inst=ninst))
    return ops


def gen_alru(rng, size=None):
    keyspec = rng.choices(KEYSPECS, weights=[11, 2, 3, 3])[0]
    allpos = keyspec == "default" and rng.random() < 0.4

    def mk_sig():
        sig = gen_sig(rng)
        if allpos or keyspec != "default":
            sig.pop("varkw", None)            # **opts: with the default key only (the custom keys sum / sort raw values)
        if allpos:
            sig["kwonly"], sig["kwd"] = [], []
            if not sig["args"]:
                sig["args"] = ["a"]
                sig["defaults"] = []
        return sig
    sigs = gen_family(rng, mk_sig(), mk_sig)
    pools = []
    for f, sig in enumerate(sigs):
        same = [g for g in range(f) if sigs[g] == sig]
        pools.append(pools[same[0]] if same else [gen_binding(rng, sig) for _ in range(rng.randint(2, 5))])
    n = size if size is not None else rng.choice([2, 3, 4, 6, 8, 12, 20, 30])
    ub = 0.25 if keyspec == "default" and not allpos and rng.random() < 0.02 else 0.0
    case = {"cache": "alru", "maxsize": rng.choice([1, 2, 2, 3, 4]), "keyspec": keyspec, "sig": sigs[0]}
    if len(sigs) > 1:
        case["sigs"] = sigs
    aio = gen_dims(rng, case, "alru")
    ops = []
    for _ in range(n):
        f = rng.randrange(len(sigs))
        ops.append(gen_call(rng, sigs[f], pools[f], allpos=allpos, malformed_rate=0.0 if allpos else 0.05,
                            unbindable_rate=ub, fn=f, kind="alru", aio=aio))
    case["ops"] = sprinkle(rng, ops, "alru")
    return case


def gen_perinst(rng, size=None):
    sigs = gen_family(rng, gen_sig(rng, method=True), lambda: gen_sig(rng, method=True))
    pools = []
    for f, sig in enumerate(sigs):
        same = [g for g in range(f) if sigs[g] == sig]
        pools.append(pools[same[0]] if same else [gen_binding(rng, sig) for _ in range(rng.randint(2, 4))])
    ninst = rng.randint(1, 3)
    n = size if size is not None else rng.choice([2, 3, 4, 6, 8, 12, 20, 30])
    case = {"cache": "perinst", "sig": sigs[0]}
    if len(sigs) > 1:
        case["sigs"] = sigs
    aio = gen_dims(rng, case, "perinst")
    case.pop("dspell", None)                      # acached_per_instance() takes no arguments
    ops = []
    ub = 0.25 if rng.random() < 0.02 else 0.0
    sr = 0.5 if rng.random() < 0.06 else 0.0      # bodies whose value refers to the instance
    for _ in range(n):
        i = rng.randrange(ninst)
        if rng.random() < 0.12:
            ops.append({"op": "drop", "inst": i})
        else:
            f = rng.randrange(len(sigs))
            ops.append(gen_call(rng, sigs[f], pools[f], inst=i, unbindable_rate=ub, selfref_rate=sr, fn=f, kind="perinst",
                                aio=aio))
    case["ops"] = sprinkle(rng, ops, "perinst", ninst)
    return case


def gen_lazy(rng, size=None):
    ttl = rng.choice([0, 5, 5, 10])
    n = size if size is not None else rng.choice([2, 3, 4, 6, 8, 12, 20])
    nfn = rng.choices([1, 2, 3], weights=[72, 20, 8])[0]
    case = {"cache": "lazy", "ttl": ttl, "t0": rng.choice([1, 100])}
    if nfn > 1:
        case["nfn"] = nfn
    aio = gen_dims(rng, case, "lazy")
    if case.get("dspell") == "pos" and ttl == 0 and rng.random() < 0.5:
        case["dspell"] = "default"                # alazy_constant() without arguments
    ops = []
    for _ in range(n):
        r = rng.random()
        f = rng.randrange(nfn)
        if r < 0.15:
            ops.append(dict({"op": "dirty"}, **({"fn": f} if f else {})))
        elif r < 0.40:
            ops.append({"op": "tick", "d": rng.choice([1, 4, 5, 6, 10, 11, 20])})
        else:
            ops.append(gen_call(rng, None, None, lazy=True, fn=f, aio=aio))
    case["ops"] = sprinkle(rng, ops, "lazy")
    return case


def gen_case(rng, size=None):
    return rng.choices([gen_alru, gen_perinst, gen_lazy], weights=[5, 3, 2])[0](rng, size)


def corpus():
    import glob
    import os
    res = []
    d = os.path.join(os.path.dirname(os.path.dirname(os.path.dirname(os.path.abspath(__file__)))), "corpus", PID)
    for p in sorted(glob.glob(os.path.join(d, "*.json"))):
        with open(p) as f:
            res.append(json.load(f))
    return res


def _call(args, kw, **extra):
    op = {"op": "call", "inst": 0, "args": list(args), "kw": [list(x) for x in kw], "raises": 0, "dur": 0, "blocks": 0,
          "rpos": 0, "via": "sync"}
    op.update(extra)
    return op


def exhaustive_core(tier):
    """every 3-call history over the spellings of f(a, b=0) / m(self, a, b=0), and every short lazy history"""
    cases = []
    sig = {"args": ["a", "b"], "defaults": [0], "kwonly": [], "kwd": []}
    spellings = [([0], []), ([1], []), ([0, 0], []), ([0, 1], []), ([0], [["b", 1]]), ([], [["a", 0]]),
                 ([], [["b", 1], ["a", 0]])]
    for maxsize in (1, 2):
        for h in itertools.product(spellings, repeat=3):
            cases.append({"cache": "alru", "maxsize": maxsize, "keyspec": "default", "sig": sig,
                          "ops": [_call(a, k) for a, k in h]})
    # all-positional LRU core: where the default key is right, eviction order must be exact
    for maxsize in (1, 2, 3):
        for h in itertools.product([0, 1, 2], repeat=5 if tier == "quick" else 6):
            if len(set(h)) < 2:
                continue
            cases.append({"cache": "alru", "maxsize": maxsize, "keyspec": "default",
                          "sig": {"args": ["a"], "defaults": [], "kwonly": [], "kwd": []},
                          "ops": [_call([x], [], blocks=i % 2) for i, x in enumerate(h)]})
    msig = {"args": ["self", "a", "b"], "defaults": [0], "kwonly": [], "kwd": []}
    for h in itertools.product(spellings[:6], repeat=3):
        cases.append({"cache": "perinst", "sig": msig, "ops": [_call(a, k, inst=i % 2) for i, (a, k) in enumerate(h)]})
    # values that refer to their instance: every 3-operation history over two instances
    sops = [_call([0], [], inst=0, selfref=1), _call([0], [], inst=0), _call([1], [], inst=1, selfref=1),
            {"op": "drop", "inst": 0}, {"op": "drop", "inst": 1}]
    for h in itertools.product(sops, repeat=3):
        if not any(o.get("selfref") for o in h) or not any(o["op"] == "drop" for o in h):
            continue
        cases.append({"cache": "perinst", "sig": msig, "ops": [dict(o) for o in h]})
    lops = [{"op": "dirty"}, {"op": "tick", "d": 5}, {"op": "tick", "d": 6}, _call([], []), _call([], [], raises=1),
            _call([], [], dur=3, blocks=1)]
    for ttl in (0, 5):
        for h in itertools.product(lops, repeat=4):
            if sum(1 for o in h if o["op"] == "call") < 2:
                continue
            cases.append({"cache": "lazy", "ttl": ttl, "t0": 1, "ops": [dict(o) for o in h]})
    return cases + varargs_core() + open_core() + posonly_core() + singleton_core() + family_core(tier) + asyncio_core(tier) + big_core() + recur_core(tier)


def varargs_core():
    """functions that collect further positional arguments: every 3-call history over the spellings of
    f(a, *rest, k=0) / m(self, a, *rest, k=0) (where the default key used to conflate f(1, 2) and f(1, k=2): fixed in
    /repo by 1a3d17f - _args_cache_key keeps the overflow apart -, seeds C13-3 / C13-6 re-introduce it) and of g(a, *rest)
    (no keyword-only parameter, overflow included)"""
    cases = []
    vsig = {"args": ["a"], "defaults": [], "kwonly": ["k"], "kwd": [["k", 0]], "varargs": 1}
    vmsig = dict(vsig, args=["self", "a"])
    vsp = [([1], []), ([1, 2], []), ([1], [["k", 2]]), ([1, 2], [["k", 2]]), ([], [["a", 1]]), ([1, 2, 0], [])]
    for h in itertools.product(vsp, repeat=3):
        cases.append({"cache": "alru", "maxsize": 2, "keyspec": "default", "sig": vsig, "ops": [_call(a, k) for a, k in h]})
        cases.append({"cache": "perinst", "sig": vmsig, "ops": [_call(a, k, inst=i % 2) for i, (a, k) in enumerate(h)]})
    gsig = {"args": ["a"], "defaults": [], "kwonly": [], "kwd": [], "varargs": 1}
    gsp = [([1], []), ([1, 2], []), ([1, 2, 3], []), ([], [["a", 1]]), ([2], [])]
    for h in itertools.product(gsp, repeat=3):
        cases.append({"cache": "alru", "maxsize": 2, "keyspec": "default", "sig": gsig, "ops": [_call(a, k) for a, k in h]})
    return cases


def open_core():
    """OPEN signatures (**opts) and positional values that are (name, value) tuples: every 3-call history over the
    spellings of f(a, *rest, **opts) / m(self, a, *rest, **opts) (f(1, x=2) / f(1, ("x", 2)) / f(1, ("x", 2), x=2) .. are
    all different calls), of g(*rest, **opts) - the signature of a generic wrapper - and of h(a, b=0, **opts) (no *rest);
    one mixed history per pair of f-spellings under @deduplicate(), asyncio_fn= and through .asynq()"""
    cases = []
    X = ["x", 2]
    Z = ["z", 1]
    fsig = {"args": ["a"], "defaults": [], "kwonly": [], "kwd": [], "varargs": 1, "varkw": 1}
    fmsig = dict(fsig, args=["self", "a"])
    fsp = [([1], []), ([1], [X]), ([1, X], []), ([1, X], [X]), ([1, 2], []), ([], [X, ["a", 1]]), ([1], [Z, X]),
           ([1, X, Z], []), ([1, Z], [X])]
    for h in itertools.product(fsp, repeat=3):
        if len(set(json.dumps(x) for x in h)) < 2:
            continue
        cases.append({"cache": "alru", "maxsize": 2, "keyspec": "default", "sig": fsig, "ops": [_call(a, k) for a, k in h]})
        cases.append({"cache": "perinst", "sig": fmsig, "ops": [_call(a, k, inst=i // 2) for i, (a, k) in enumerate(h)]})
    gsig = {"args": [], "defaults": [], "kwonly": [], "kwd": [], "varargs": 1, "varkw": 1}
    gsp = [([], []), ([], [X]), ([X], []), ([1], []), ([1], [X]), ([1, X], []), ([X], [X])]
    hsig = {"args": ["a", "b"], "defaults": [0], "kwonly": ["k"], "kwd": [["k", 0]], "varkw": 1}
    hsp = [([1], []), ([1], [X]), ([1, 0], [X]), ([], [["b", 0], X, ["a", 1]]), ([1], [["b", 2]]), ([1], [["x", 0]]),
           ([1], [["k", 2], X]), ([X], [])]
    for sig, sp in ((gsig, gsp), (hsig, hsp)):
        for h in itertools.product(sp, repeat=3):
            if len(set(json.dumps(x) for x in h)) < 2:
                continue
            cases.append({"cache": "alru", "maxsize": 2, "keyspec": "default", "sig": sig, "ops": [_call(a, k) for a, k in h]})
    ksig = dict(fsig, kwonly=["k"], kwd=[["k", 0]])
    for (a1, k1), (a2, k2) in itertools.permutations(fsp[:6], 2):
        ops = [_call(a1, k1, via="inner", blocks=1), _call(a2, k2, via="asynq"), _call(a1, k1), _call(a2, k2, via="inner")]
        cases.append({"cache": "alru", "maxsize": 4, "keyspec": "default", "sig": ksig, "wrap": "dedup", "ops": ops})
        cases.append({"cache": "alru", "maxsize": 4, "keyspec": "default", "sig": ksig, "native": 1,
                      "ops": [dict(o, via="asyncio" if i % 2 else "sync") for i, o in enumerate(ops)]})
    return cases


def singleton_core():
    """values that defeat sentinel / identity / truthiness shortcuts, one history per value and cache: call, the same
    call again (a hit: the body must not run), another key, the first call again; under maxsize 1 the third call evicts"""
    cases = []
    s1 = {"args": ["a"], "defaults": [], "kwonly": [], "kwd": []}
    m1 = {"args": ["self", "a"], "defaults": [], "kwonly": [], "kwd": []}
    kinds = [{"vk": k} for k in range(1, 9)] + [{"falsy": 1}, {"falsy": 2}]
    for kd in kinds:
        for other in ({}, kd):
            h = [([0], kd), ([0], kd), ([1], other), ([0], kd), ([1], other)]
            for maxsize in (1, 2):
                for keyspec in ("default", "raw"):
                    cases.append({"cache": "alru", "maxsize": maxsize, "keyspec": keyspec, "sig": s1,
                                  "ops": [_call(a, [], blocks=i % 2, **x) for i, (a, x) in enumerate(h)]})
            cases.append({"cache": "perinst", "sig": m1,
                          "ops": [_call(a, [], inst=0, **x) for a, x in h] + [{"op": "drop", "inst": 0}, _call([0], [], inst=0, **kd)]})
        for ttl in (0, 5):
            cases.append({"cache": "lazy", "ttl": ttl, "t0": 1,
                          "ops": [_call([], [], **kd), _call([], [], **kd), {"op": "tick", "d": 6}, _call([], [], **kd),
                                  {"op": "dirty"}, _call([], [], dur=1, **kd), _call([], [])]})
    return cases


def posonly_core():
    """positional-only parameters + **opts: every 3-call history over the spellings of g(a, /, **opts) /
    m(self, a, /, **opts) (g(1), g(1, a=2), g(1, a=3) are three different valid calls - the OPEN FINDING: one key), of
    h(a, b=0, /, c=0, **opts) (h(1, b=1) / h(1, 1): the keyword is taken for the parameter; h(1, b=1) / h(1, 0, b=1): one
    call, two keys) and of f(a, /, *rest, **opts)"""
    cases = []
    X = ["x", 2]
    gsig = {"args": ["a"], "defaults": [], "kwonly": [], "kwd": [], "varkw": 1, "posonly": 1}
    gmsig = dict(gsig, args=["self", "a"])
    gsp = [([1], []), ([1], [["a", 2]]), ([1], [["a", 3]]), ([2], []), ([1], [X]), ([2], [["a", 2]])]
    for h in itertools.product(gsp, repeat=3):
        if len(set(json.dumps(x) for x in h)) < 2:
            continue
        cases.append({"cache": "alru", "maxsize": 2, "keyspec": "default", "sig": gsig, "ops": [_call(a, k) for a, k in h]})
        cases.append({"cache": "perinst", "sig": gmsig, "ops": [_call(a, k, inst=i // 2) for i, (a, k) in enumerate(h)]})
    hsig = {"args": ["a", "b", "c"], "defaults": [0, 0], "kwonly": [], "kwd": [], "varkw": 1, "posonly": 2}
    hsp = [([1], []), ([1], [["b", 1]]), ([1, 1], []), ([1, 0], [["b", 1]]), ([1], [["c", 1]]), ([1], [["c", 1], ["b", 1]]),
           ([1, 1, 1], [])]
    fsig = {"args": ["a"], "defaults": [], "kwonly": [], "kwd": [], "varargs": 1, "varkw": 1, "posonly": 1}
    fsp = [([1], []), ([1], [["a", 2]]), ([1, 2], []), ([1, 2], [["a", 2]]), ([1, ["a", 2]], [])]
    for sig, sp in ((hsig, hsp), (fsig, fsp)):
        for h in itertools.product(sp, repeat=3):
            if len(set(json.dumps(x) for x in h)) < 2:
                continue
            cases.append({"cache": "alru", "maxsize": 2, "keyspec": "default", "sig": sig, "ops": [_call(a, k) for a, k in h]})
    return cases


def recur_core(tier):
    """a cached function that calls itself: maxsize 1-5 x two top-level calls fib(n1), fib(n2)"""
    cases = []
    top = 7 if tier == "quick" else 10
    for maxsize in (1, 2, 3, 4, 5):
        for n1 in range(2, top + 1):
            for n2 in (0, n1 - 1, n1, n1 + 1):
                cases.append({"cache": "recur", "kind": "alru", "maxsize": maxsize, "nest": "sync" if (n1 + n2) % 3 == 0 else "yield",
                              "tops": [n1, n2, n1]})
    for n1 in range(2, top + 1):
        for nest in ("yield", "sync"):
            cases.append({"cache": "recur", "kind": "perinst", "maxsize": 0, "nest": nest, "tops": [n1, n1 + 2, 1, n1]})
    return cases


def family_core(tier):
    """ONE decorator object applied to two functions: every short interleaved history"""
    cases = []
    s1 = {"args": ["a"], "defaults": [], "kwonly": [], "kwd": []}
    fops = [_call([0], []), _call([1], []), _call([0], [], fn=1), _call([1], [], fn=1)]
    for maxsize in (1, 2):
        for h in itertools.product(fops, repeat=4):
            if len(set(o.get("fn", 0) for o in h)) < 2:
                continue
            cases.append({"cache": "alru", "maxsize": maxsize, "keyspec": "default", "sig": s1, "sigs": [s1, s1],
                          "ops": [dict(o) for o in h]})
    # different signatures whose keys coincide: f(a, b=0) and g(a, *, k=0), one custom key function for both
    sf = {"args": ["a", "b"], "defaults": [0], "kwonly": [], "kwd": []}
    sg = {"args": ["a"], "defaults": [], "kwonly": ["k"], "kwd": [["k", 0]]}
    gops = [_call([1], []), _call([1, 0], []), _call([1], [], fn=1), _call([], [["k", 0], ["a", 1]], fn=1), _call([2], [], fn=1)]
    for keyspec in ("default", "sumParity"):
        for h in itertools.product(gops, repeat=3):
            if len(set(o.get("fn", 0) for o in h)) < 2:
                continue
            cases.append({"cache": "alru", "maxsize": 1, "keyspec": keyspec, "sig": sf, "sigs": [sf, sg],
                          "ops": [dict(o) for o in h]})
    ms = {"args": ["self", "a"], "defaults": [], "kwonly": [], "kwd": []}
    pops = [_call([0], [], inst=0), _call([0], [], inst=0, fn=1), _call([0], [], inst=1), _call([0], [], inst=1, fn=1),
            _call([0], [], inst=0, fn=1, selfref=1), {"op": "drop", "inst": 0}, {"op": "drop", "inst": 1}]
    for h in itertools.product(pops, repeat=3 if tier == "quick" else 4):
        if len(set(o.get("fn", 0) for o in h if o["op"] == "call")) < 2:
            continue
        cases.append({"cache": "perinst", "sig": ms, "sigs": [ms, ms], "ops": [dict(o) for o in h]})
    lops = [_call([], []), _call([], [], fn=1), _call([], [], fn=1, dur=3, blocks=1), {"op": "dirty"}, {"op": "dirty", "fn": 1},
            {"op": "tick", "d": 6}]
    for ttl in (0, 5):
        for h in itertools.product(lops, repeat=4):
            if len(set(o.get("fn", 0) for o in h if o["op"] == "call")) < 2:
                continue
            cases.append({"cache": "lazy", "ttl": ttl, "t0": 1, "nfn": 2, "ops": [dict(o) for o in h]})
    return cases


def asyncio_core(tier):
    """every 3-call history over entry points (sync / .asyncio() / yielded under .asyncio()) x two keys, for each way the
    wrapped function comes to its asyncio implementation (converted generator / asyncio_fn= / .asyncio() used before)"""
    cases = []
    s1 = {"args": ["a", "b"], "defaults": [0], "kwonly": [], "kwd": []}
    m1 = {"args": ["self", "a", "b"], "defaults": [0], "kwonly": [], "kwd": []}
    vias = ["sync", "asyncio", "aio-inner"]
    calls = [(v, a, k) for v in vias for (a, k) in (([0], []), ([], [["a", 0], ["b", 0]]), ([1], []))]
    for native in (0, 1, 2):
        for h in itertools.product(calls, repeat=3):
            if not any(v in AIO_VIAS for v, _, _ in h):
                continue
            if tier == "quick" and native != 1 and h[0][0] == "sync":
                continue
            ops = [_call(a, k, via=v, blocks=i % 2) for i, (v, a, k) in enumerate(h)]
            cases.append({"cache": "alru", "maxsize": 1, "keyspec": "default", "sig": s1, "native": native, "ops": ops})
        for h in itertools.product(vias, repeat=3):
            if not any(v in AIO_VIAS for v in h):
                continue
            cases.append({"cache": "perinst", "sig": m1, "native": native,
                          "ops": [_call([0], [], via=v, inst=i // 2) for i, v in enumerate(h)]})
            for dirty_at in (1, 2):
                ops = [_call([], [], via=v) for v in h]
                ops.insert(dirty_at, {"op": "dirty"})
                cases.append({"cache": "lazy", "ttl": 0, "t0": 1, "native": native, "ops": ops})
    return cases


def big_core():
    """sizes as a parameter: alru_cache() with its default maxsize (128) and maxsize 16 - fill the cache, use the oldest
    entry, add two more keys: exactly the second-oldest and third-oldest are evicted; a second function decorated by
    the same decorator object does not take part in the budget"""
    cases = []
    s1 = {"args": ["a"], "defaults": [], "kwonly": [], "kwd": []}
    for maxsize, dspell in ((128, "default"), (16, "pos")):
        for nfn in (1, 2):
            ops = [_call([x], []) for x in range(maxsize)]
            if nfn == 2:
                ops += [_call([x], [], fn=1) for x in range(3)]
            ops += [_call([0], []), _call([maxsize], []), _call([maxsize + 1], []), _call([0], []), _call([1], []),
                    _call([2], []), _call([3], [])]
            if nfn == 2:
                ops += [_call([0], [], fn=1)]
            c = {"cache": "alru", "maxsize": maxsize, "keyspec": "default", "sig": s1, "dspell": dspell, "ops": ops}
            if nfn == 2:
                c["sigs"] = [s1, s1]
            cases.append(c)
    return cases


def plan(tier, seed):
    rng = random.Random(seed * 1000003 + 13)
    n = 8000 if tier == "quick" else 150000
    cases = corpus()
    cases += exhaustive_core(tier)
    cases += [gen_case(rng) for _ in range(n)]
    return cases


def shrink(case):
    if case["cache"] == "recur":
        for i in range(len(case["tops"])):
            if len(case["tops"]) > 1:
                yield dict(case, tops=case["tops"][:i] + case["tops"][i + 1:])
        for i, n in enumerate(case["tops"]):
            if n > 0:
                yield dict(case, tops=case["tops"][:i] + [n - 1] + case["tops"][i + 1:])
        return
    ops = case["ops"]
    for i in range(len(ops)):
        c = dict(case)
        c["ops"] = ops[:i] + ops[i + 1:]
        yield c
    # one dimension less: a single function, a fresh decorator per function, a plain @asynq() function, no asyncio_fn
    if len(case.get("sigs") or []) > 1 or case.get("nfn", 1) > 1:
        c = dict(case)
        c.pop("sigs", None)
        c.pop("nfn", None)
        c["ops"] = [dict((k, v) for k, v in o.items() if k != "fn") for o in ops]
        yield c
        if case.get("deco", "one") == "one":
            yield dict(case, deco="fresh")
    for k in ("native", "wrap", "dspell"):
        if case.get(k) and not (k == "dspell" and case[k] == "default"):
            c = dict(case)
            c.pop(k)
            yield c
    if any(o.get("via") in AIO_VIAS for o in ops):
        c = dict(case)
        c["ops"] = [dict(o, via="sync") if o.get("via") in AIO_VIAS else o for o in ops]
        yield c
    for i, o in enumerate(ops):
        if o["op"] == "call" and (o.get("vk") or o.get("falsy")):
            c = dict(case)
            c["ops"] = ops[:i] + [dict((k, v) for k, v in o.items() if k not in ("vk", "falsy"))] + ops[i + 1:]
            yield c
        if o["op"] == "call" and (o.get("blocks") or o.get("via") != "sync" or o.get("dur")):
            c = dict(case)
            o2 = dict(o, blocks=0, via="sync")
            c["ops"] = ops[:i] + [o2] + ops[i + 1:]
            yield c
    if case["cache"] == "alru" and case["maxsize"] > 1 and case.get("dspell") != "default":
        yield dict(case, maxsize=case["maxsize"] - 1)


def neighbours(case, rng):
    if case["cache"] == "recur":
        return
    for _ in range(32):
        c = json.loads(json.dumps(case))
        ops = c["ops"]
        g = {"alru": gen_alru, "perinst": gen_perinst, "lazy": gen_lazy}[c["cache"]]
        fresh = g(rng, 4)
        aio = any(o.get("via") in AIO_VIAS for o in ops)
        if c["cache"] != "lazy":
            # keep the signatures: re-spell calls of this case instead of importing foreign ones
            sigs = case_sigs(c)
            new = []
            for _ in range(3):
                f = rng.randrange(len(sigs))
                pool = [gen_binding(rng, sigs[f]) for _ in range(3)]
                new.append(gen_call(rng, sigs[f], pool, inst=rng.randrange(2), fn=f, kind=c["cache"], aio=aio))
        else:
            new = [o for o in fresh["ops"] if o["op"] not in ("opt", "copy")] or [{"op": "dirty"}]
            for o in new:
                if o.get("fn", 0) >= c.get("nfn", 1):
                    o.pop("fn")
        if ops and rng.random() < 0.4:
            ops[rng.randrange(len(ops))] = rng.choice(new)
        else:
            ops.insert(rng.randint(0, len(ops)), rng.choice(new))
        if ops and rng.random() < 0.5:
            ops.append(dict(rng.choice([o for o in ops])))
        yield c


def signature(case, v):
    """what fails: cache / key function / violated clause (computed by the framework on the ORIGINAL failing case, so it
    must not depend on dimensions the defect does not need: the shrunk case in the replay file shows which of them -
    several functions, asyncio mode, asyncio_fn - it does need).  The driver appends `+cached-value-refers-to-instance`
    when the clause is `instances`, a body of the case returns a value that refers to its instance and the observations
    are exactly those of the model of the code as it is (the closure dict keeps such an instance and its entry alive),
    and `+keyword-named-like-positional-only-parameter` when the clause is one a wrong KEY can cause (foreign-value,
    hit-ran-body, hit-wrong-value, stale-value), the case contains a VALID call with a keyword named like a
    positional-only parameter of a function with **opts and the observations are exactly those of the model of the code as
    it is: one defect, one signature, and every other way of getting the number of entries wrong / of returning a foreign
    value keeps its own."""
    spec = v["spec"]
    if spec == "fail:instances+cached-value-refers-to-instance":
        return "perinst/cached-value-referring-to-its-instance-is-never-released"
    if spec.endswith("+keyword-named-like-positional-only-parameter"):
        # one root cause (get_args_tuple does not know that a keyword cannot bind a positional-only parameter) in both
        # decorators and for every clause it shows up as: one signature
        return "default-key/keyword-named-like-positional-only-parameter/wrong-value"
    return "%s/%s/%s" % (case["cache"], case.get("keyspec", "-"), spec)


# ---------------------------------------------------------------------------------------------------
# implementation side
# ---------------------------------------------------------------------------------------------------

class UserErr(Exception):
    def __init__(self, stamp):
        Exception.__init__(self, "body run %d raises" % stamp)
        self.stamp = stamp


def _sig_wire(sig):
    return "((%s) (%s) (%s) (%s) %s)" % (
        " ".join(str(NAMES[a]) for a in sig["args"]),
        " ".join(str(d) for d in sig["defaults"]),
        " ".join(str(NAMES[k]) for k in sig["kwonly"]),
        " ".join("(%d %d)" % (NAMES[k], v) for k, v in sig["kwd"]),
        ("1" if sig.get("varargs") else "0") + (" 1" if sig.get("varkw") else "") +
        (" %d" % sig["posonly"] if sig.get("varkw") and sig.get("posonly") else ""),
    )


def _params_source(sig):
    params = []
    args = sig["args"]
    nd = len(sig["defaults"])
    po = sig.get("posonly", 0) + (1 if "self" in args else 0) if sig.get("posonly") else 0
    for i, n in enumerate(args):
        j = i - (len(args) - nd)
        params.append("%s=%d" % (n, sig["defaults"][j]) if j >= 0 else n)
        if i + 1 == po:
            params.append("/")
    if sig.get("varargs"):
        params.append("*rest")
    if sig["kwonly"]:
        if not sig.get("varargs"):
            params.append("*")
        kwd = dict((k, v) for k, v in sig["kwd"])
        for n in sig["kwonly"]:
            params.append("%s=%d" % (n, kwd[n]) if n in kwd else n)
    if sig.get("varkw"):
        params.append("**opts")
    return ", ".join(params)


def _body_source(sig, f=0):
    """the wrapped function three times over the same parameter list: `body` (generator, what the asynq scheduler and a
    converted .asyncio() run), `native` (a coroutine function for asyncio_fn=), `proxy` (for @async_proxy(): hands the
    call on to `_inner`); all of them report the arguments they RECEIVED"""
    args = sig["args"]
    params = _params_source(sig)
    star = ["*rest"] if sig.get("varargs") else []
    received = [a for a in args if a != "self"] + list(sig["kwonly"]) + star     # (a, b, k, *rest): named first, flattened
    recv = "(%s)%s" % ("".join(r + ", " for r in received), ", self" if "self" in args else "")
    fwd = ", ".join(list(args) + star + ["%s=%s" % (k, k) for k in sig["kwonly"]] + (["**opts"] if sig.get("varkw") else []))
    if sig.get("varkw"):
        # an open signature reports its normalised arguments: named values, len(rest), rest, the **opts items by name
        named = [a for a in args if a != "self"] + list(sig["kwonly"])
        recv = "_norm((%s), %s, opts)%s" % ("".join(r + ", " for r in named), "rest" if star else "()",
                                            ", self" if "self" in args else "")
    return ("def body(%s):\n    return (yield from _impl(%d, %s))\n"
            "async def native(%s):\n    return await _aimpl(%d, %s)\n"
            "def proxy(%s):\n    return _inner.asynq(%s)\n") % (params, f, recv, params, f, recv, params, fwd)


_FROZEN = [False]


def _run_recur(case):
    """a cached function whose body calls itself (fib): nested calls of the SAME cached function inside a miss"""
    import asynq
    import asynq.tools as tools
    runs = [0]
    sync_nest = case.get("nest") == "sync"
    if case["kind"] == "alru":
        @tools.alru_cache(maxsize=case["maxsize"])
        @asynq.asynq()
        def fib(n):
            runs[0] += 1
            if n < 2:
                return n
            if sync_nest:
                return fib(n - 1) + fib(n - 2)
            a = yield fib.asynq(n - 1)
            b = yield fib.asynq(n - 2)
            return a + b
        call = fib
    else:
        class C(object):
            @tools.acached_per_instance()
            @asynq.asynq()
            def fib(self, n):
                runs[0] += 1
                if n < 2:
                    return n
                if sync_nest:
                    return self.fib(n - 1) + self.fib(n - 2)
                a = yield self.fib.asynq(n - 1)
                b = yield self.fib.asynq(n - 2)
                return a + b
        obj = C()
        call = obj.fib
    lines = ["(case cache %d recur %s %d)" % (case["id"], case["kind"], case["maxsize"])]
    for n in case["tops"]:
        try:
            v = call(n)
            v = v if type(v) is int and v >= 0 else UNKNOWN
        except Exception as e:
            v = UNKNOWN
            e.__traceback__ = None
        lines.append("(obs (top %d) %d %d)" % (n, v, runs[0]))
    lines.append("(end)")
    feats = ["cache=recur(" + case["kind"] + ")", "self-recursive-body", "nested-calls=" + ("sync" if sync_nest else "yield"),
             "maxsize=%s" % (case["maxsize"] if case["maxsize"] <= 4 else ">4")]
    key = None
    if len(case["tops"]) >= 2 and max(case["tops"]) >= 3:
        key = hashlib.sha1(json.dumps({k: v for k, v in case.items() if k != "id"}, sort_keys=True).encode()).hexdigest()[:16]
    return {"lines": lines, "features": feats, "nontrivial": key}


def run_case(case):
    import asyncio
    import copy
    import gc
    import threading
    import asynq
    import asynq.tools as tools
    from asynq import BatchBase, BatchItemBase
    try:
        from asynq.batching import DebugBatchItem
    except ImportError:
        DebugBatchItem = None

    if not _FROZEN[0]:
        # gc.collect() after every instance drop walks every live object of the process (interpreter, asynq, stdlib:
        # ~35 ms); move what exists now to the permanent generation so that a collection only sees this case's objects
        gc.collect()
        gc.freeze()
        _FROZEN[0] = True

    kind = case["cache"]
    if kind == "recur":
        return _run_recur(case)
    sigs = case_sigs(case) if kind != "lazy" else []
    nfn = len(sigs) if kind != "lazy" else case.get("nfn", 1)
    wrap = case.get("wrap", "asynq")
    native = case.get("native", 0)
    one_deco = case.get("deco", "one") == "one"
    dspell = case.get("dspell", "kw")
    runs = [0] * nfn                 # body runs, per decorated function (generator body and native coroutine alike)
    script = [None]
    clock = [case.get("t0", 1)]
    produced = {}
    produced_selfref = {}
    fresh_singleton = [None]
    state = {}

    class Batch(BatchBase):
        def _try_switch_active_batch(self):
            if state.get("batch") is self:
                state["batch"] = Batch()

        def _flush(self):
            for item in self.items:
                item.set_value(item.x * 10)

        def _cancel(self):
            pass

    state["batch"] = Batch()

    class Item(BatchItemBase):
        def __init__(self, x):
            BatchItemBase.__init__(self, state["batch"])
            self.x = x

    class FalsyTuple(tuple):
        def __bool__(self):
            return False

    class EqAllTuple(tuple):
        """falsy and == everything: defeats `value == sentinel`, `value in (None, miss)`, `if value:` shortcuts"""
        def __bool__(self):
            return False

        def __eq__(self, other):
            return True

        def __ne__(self, other):
            return False

        __hash__ = tuple.__hash__

    import qcore.caching as qc
    singletons = {1: None, 2: NotImplemented, 3: qc.miss, 4: qc.not_computed, 5: False, 6: 0, 7: "", 8: ()}

    def singleton_kind(v):
        for k, x in singletons.items():
            if v is x or (k >= 6 and type(v) is type(x) and v == x):
                return k
        return 0

    class Ctx(asynq.AsyncContext):
        def resume(self):
            pass

        def pause(self):
            pass

    def _begin(f):
        runs[f] += 1
        s = script[0]
        clock[0] += s.get("dur", 0)
        return runs[f], s

    def _finish(f, stamp, s, received, owner):
        if s.get("selfref") and owner is not None:
            # a value that refers to the instance it was computed for; the harness must not keep it (or the instance)
            # alive itself: it remembers the content, not the object
            v = ("v", stamp, tuple(received), f, owner)
            produced_selfref[id(v)] = (stamp, tuple(received), f, id(owner))
            return v
        if s.get("vk"):
            # a singleton has no identity of its own: remember that THIS call's own run produced it
            fresh_singleton[0] = (s["vk"], stamp, tuple(received), f)
            return singletons[s["vk"]]
        v = ("v", stamp, tuple(received), f)
        if s.get("falsy"):
            v = FalsyTuple(v) if s["falsy"] == 1 else EqAllTuple(v)
        produced[id(v)] = v
        return v

    def _impl(f, received, owner=None):
        stamp, s = _begin(f)
        if s["raises"] and not (s["blocks"] and s["rpos"] == 1):
            raise UserErr(stamp)
        if s["blocks"]:
            if s["via"] in AIO_VIAS:
                yield asyncio.sleep(0)          # batch items are not supported in asyncio mode: block on the loop
            else:
                if s["blocks"] == 2 and DebugBatchItem is not None:
                    x = yield DebugBatchItem("c13", stamp * 10)
                else:
                    x = yield Item(stamp)
                if x != stamp * 10:
                    raise RuntimeError("batch item delivered %r" % (x,))
        if s["raises"]:
            raise UserErr(stamp)
        return _finish(f, stamp, s, received, owner)

    async def _aimpl(f, received, owner=None):
        stamp, s = _begin(f)
        if s["raises"] and not (s["blocks"] and s["rpos"] == 1):
            raise UserErr(stamp)
        if s["blocks"]:
            await asyncio.sleep(0)
        if s["raises"]:
            raise UserErr(stamp)
        return _finish(f, stamp, s, received, owner)

    def _norm(named, rest, opts):
        out = [_tok(v) for v in named] + [len(rest)] + [_tok(v) for v in rest]
        for k in sorted(opts, key=lambda n: NAMES.get(n, 99)):
            out += [NAMES.get(k, 99), _tok(opts[k])]
        return tuple(out)

    key_fns = {
        "default": None,
        "const": lambda args, kwargs: (),
        "sumParity": lambda args, kwargs: ((sum(args) + sum(kwargs.values())) % 2,),
        "raw": lambda args, kwargs: tuple(args) + tuple(sorted(kwargs.items())),
    }

    def wrapped(ns):
        """what the cache decorator is applied to"""
        if wrap == "dedup":
            return tools.deduplicate()(asynq.asynq()(ns["body"]))
        if wrap == "proxy":
            ns["_inner"] = asynq.asynq()(ns["body"])
            return asynq.async_proxy()(ns["proxy"])
        if native == 1:
            return asynq.asynq(asyncio_fn=ns["native"])(ns["body"])
        w = asynq.asynq()(ns["body"])
        if native == 2:
            w.asyncio().close()      # the function's own .asyncio() was used before: its asyncio_fn is set now
        return w

    saved_utime = tools.utime
    saved_options = dict((n, getattr(asynq.debug.options, n)) for n in SILENT_OPTIONS)
    insts = {}
    hdr = None
    cls = None
    fns = []
    loop = [None]
    if kind == "alru":
        def mkdeco():
            ms, kf = case["maxsize"], key_fns[case["keyspec"]]
            if dspell == "pos":
                return tools.alru_cache(ms, kf)
            if dspell == "default" and ms == 128:
                return tools.alru_cache() if kf is None else tools.alru_cache(key_fn=kf)
            return tools.alru_cache(maxsize=ms, key_fn=kf)
        one = mkdeco() if one_deco else None
        for f, sig in enumerate(sigs):
            ns = {"_impl": _impl, "_aimpl": _aimpl, "_norm": _norm}
            exec(_body_source(sig, f), ns)
            fns.append((one or mkdeco())(wrapped(ns)))
        hdr = "alru %d %s %s" % (case["maxsize"], case["keyspec"], " ".join(_sig_wire(sig) for sig in sigs))
    elif kind == "perinst":
        one = tools.acached_per_instance() if one_deco else None
        methods = {}
        for f, sig in enumerate(sigs):
            ns = {"_impl": _impl, "_aimpl": _aimpl, "_norm": _norm}
            exec(_body_source(sig, f), ns)
            methods["m%d" % f] = (one or tools.acached_per_instance())(wrapped(ns))
        cls = type("C", (object,), methods)
        sub = type("D", (cls,), {})
        hdr = "perinst %s" % " ".join(_sig_wire(sig) for sig in sigs)
    elif kind == "lazy":
        tools.utime = lambda: clock[0]

        def mkdeco():
            if dspell == "pos":
                return tools.alazy_constant(case["ttl"])
            if dspell == "default" and case["ttl"] == 0:
                return tools.alazy_constant()
            return tools.alazy_constant(ttl=case["ttl"])
        one = mkdeco() if one_deco else None
        nosig = {"args": [], "defaults": [], "kwonly": [], "kwd": []}
        for f in range(nfn):
            ns = {"_impl": _impl, "_aimpl": _aimpl}
            exec(_body_source(nosig, f), ns)
            fns.append((one or mkdeco())(wrapped(ns)))
        hdr = "lazy %d %d" % (case["ttl"], case["t0"])
    else:
        raise ValueError(kind)

    def n_entries(f):
        try:
            d = cls.__dict__["m%d" % f].__acached_per_instance_cache__
        except (AttributeError, KeyError):
            try:
                d = getattr(cls, "m%d" % f).decorator.__acached_per_instance_cache__
            except AttributeError:
                return UNKNOWN
        return len(d)

    def res_of(v, f):
        k = singleton_kind(v)
        if k:
            fs = fresh_singleton[0]
            if fs is not None and fs[0] == k and fs[3] == f:
                # the body ran during this call and returned this very singleton: the call returned (a value identical
                # to) its own fresh result - named without any help of the model
                return "(ok %d (%s))" % (fs[1], " ".join(str(x) for x in fs[2]))
            # a singleton that no run of this call produced (a hit): named by the driver (resolveSingletons)
            return "(okNone)" if k == 1 else "(okS %d)" % k
        if v is None:
            return "(okNone)"
        got = produced.get(id(v))
        if got is v:
            if tuple.__getitem__(v, 3) != f:       # a value computed by ANOTHER function of the family
                return "(ok %d (%d))" % (UNKNOWN, UNKNOWN)
            return "(ok %d (%s))" % (v[1], " ".join(str(x) for x in v[2]))
        got = produced_selfref.get(id(v))
        if got is not None and type(v) is tuple and len(v) == 5 and got == (v[1], v[2], v[3], id(v[4])):
            if v[3] != f:
                return "(ok %d (%d))" % (UNKNOWN, UNKNOWN)
            return "(ok %d (%s))" % (v[1], " ".join(str(x) for x in v[2]))
        return "(ok %d ())" % UNKNOWN

    def run_loop(coro):
        if loop[0] is None:
            loop[0] = asyncio.new_event_loop()
        return loop[0].run_until_complete(coro)

    def invoke(target, args, kw, via):
        if via == "sync" or via == "cls":
            return target(*args, **kw)
        if via == "asynq" or via == "cls-asynq":
            return target.asynq(*args, **kw).value()
        if via == "async_call":
            return asynq.async_call(target, *args, **kw)
        if via == "with-context":
            return tools.call_with_context(Ctx(), target, *args, **kw)
        if via == "asyncio" or via == "cls-asyncio":
            return run_loop(target.asyncio(*args, **kw))
        if via == "thread":
            box = []

            def work():
                try:
                    box.append((True, target(*args, **kw)))
                except BaseException as e:
                    box.append((False, e))
            t = threading.Thread(target=work)
            t.start()
            t.join()
            ok, val = box.pop()
            if ok:
                return val
            raise val

        @asynq.asynq()
        def outer():
            v = yield target.asynq(*args, **kw)
            return v
        if via == "aio-inner":
            return run_loop(outer.asyncio())
        return outer()

    lines = ["(case cache %d %s)" % (case["id"], hdr)]
    feats = ["cache=" + kind, "fns=%d" % nfn, "wrapped=" + (wrap if not native else "asynq+asyncio_fn" if native == 1 else
                                                           "asynq+asyncio-used-before")]
    if nfn > 1:
        feats.append("several-functions:" + ("one-decorator-object" if one_deco else "fresh-decorators"))
    if dspell != "kw":
        feats.append("decorator-arguments=" + dspell)
    ncalls = hits = misses = 0
    try:
        for op in case["ops"]:
            name = op["op"]
            f = op.get("fn", 0)
            if f >= nfn:
                f = 0
            before = sum(runs)
            if name == "opt":
                # harness-only event: a silent debug option switched in mid-history (no observation of its own)
                setattr(asynq.debug.options, op["name"], bool(op["on"]))
                feats.append("debug-option-switched-mid-history")
                continue
            if name == "copy":
                # harness-only event: instance `inst` is from now on a (deep) copy of instance `src` - a NEW instance
                src = insts.get(op["src"])
                if kind == "perinst" and src is not None and insts.get(op["inst"]) is None:
                    insts[op["inst"]] = copy.deepcopy(src) if op.get("deep") else copy.copy(src)
                    feats.append("instance-is-a-copy")
                src = None
                continue
            if name == "call":
                ncalls += 1
                script[0] = op
                fresh_singleton[0] = None
                args = [tuple(a) if isinstance(a, list) else a for a in op["args"]]     # ["x", 2]: the value ("x", 2)
                kw = dict((k, v) for k, v in op["kw"])
                via = op["via"]
                if kind == "perinst":
                    i = op["inst"]
                    if insts.get(i) is None:
                        insts[i] = cls() if i % 2 == 0 else sub()     # odd tokens: instances of a subclass
                    if via.startswith("cls"):
                        target = getattr(cls, "m%d" % f)       # C.m(obj, ..): the instance is passed explicitly
                        args = [insts[i]] + args
                    else:
                        target = getattr(insts[i], "m%d" % f)
                else:
                    if via.startswith("cls"):
                        via = {"cls": "sync", "cls-asynq": "asynq", "cls-asyncio": "asyncio"}[via]
                    target = fns[f]
                try:
                    res = res_of(invoke(target, args, kw, via), f)
                except UserErr as e:
                    res = "(raisedUser %d)" % e.stamp
                    e.__traceback__ = None
                except TypeError as e:
                    res = "(raisedType)"
                    e.__traceback__ = None
                except Exception as e:  # an observation, not a harness failure
                    res = "(raisedOther %s)" % type(e).__name__
                    e.__traceback__ = None
                target = None
                args = None
                if sum(runs) > before:
                    misses += 1
                elif res.startswith("(ok"):
                    hits += 1
                vk = 0 if (op.get("selfref") and kind == "perinst") else op.get("vk", 0)
                wop = "(call %d (%s) (%s) %d %d %d %d%s)" % (
                    op["inst"], " ".join(str(_tok(x)) for x in op["args"]),
                    " ".join("(%d %d)" % (NAMES[k], v) for k, v in op["kw"]), 1 if op["raises"] else 0, op.get("dur", 0),
                    1 if (op.get("selfref") and kind == "perinst") else 0, f, " %d" % vk if vk else "")
                feats.append("via=" + op["via"])
                if op["blocks"]:
                    feats.append("blocking-body" + ("(DebugBatchItem)" if op["blocks"] == 2 and via not in AIO_VIAS else
                                                    "(on-the-event-loop)" if via in AIO_VIAS else ""))
                if op["raises"]:
                    feats.append("raising-body")
                elif vk:
                    feats.append("value=singleton:" + ["", "None", "NotImplemented", "qcore.miss", "qcore.not_computed", "False",
                                                       "0", "''", "()"][vk])
                elif op.get("falsy"):
                    feats.append("falsy-value" if op["falsy"] == 1 else "falsy-and-==-everything-value")
                if op.get("selfref") and kind == "perinst":
                    feats.append("value-refers-to-instance")
                if op["kw"]:
                    feats.append("spelling=keyword")
                if op["args"]:
                    feats.append("spelling=positional")
                if kind != "lazy":
                    sig = sigs[f]
                    nparams = len([a for a in sig["args"] if a != "self"]) + len(sig["kwonly"])
                    if len(op["args"]) + len(op["kw"]) < nparams and res != "(raisedType)":
                        feats.append("spelling=default-omitted")
                    if any(k in sig["kwonly"] for k, _ in op["kw"]):
                        feats.append("spelling=keyword-only")
                    names_pos = [a for a in sig["args"] if a != "self"]
                    if sig.get("varkw"):
                        feats.append("signature-with-**opts" + ("(+*rest)" if sig.get("varargs") else ""))
                        pnames = names_pos + list(sig["kwonly"])
                        if any(k not in pnames for k, _ in op["kw"]):
                            feats.append("keyword-collected-by-**opts")
                        if sig.get("posonly"):
                            feats.append("signature-with-positional-only-parameters(+**opts)")
                            if any(k in names_pos[:sig["posonly"]] for k, _ in op["kw"]):
                                feats.append("keyword-named-like-positional-only-parameter" +
                                             ("(TypeError)" if res == "(raisedType)" else "(valid call)"))
                        if any(k == "self" for k, _ in op["kw"]):
                            feats.append("keyword-named-self(TypeError)" if res == "(raisedType)" else "keyword-named-self(accepted)")
                    if any(isinstance(x, list) for x in op["args"]):
                        feats.append("positional-value-is-a-(name,value)-tuple")
                    if sig.get("varargs"):
                        feats.append("signature-with-*rest")
                        if len(op["args"]) > len(names_pos):
                            feats.append("call-overflows-into-*rest" + ("(+keyword-only-parameters)" if sig["kwonly"] else ""))
                    po_ = sig.get("posonly", 0) if sig.get("varkw") else 0
                    if (len(op["args"]) > len(names_pos) and not sig.get("varargs")) or \
                            any(k in names_pos[po_:len(op["args"])] for k, _ in op["kw"]):
                        feats.append("unbindable-call(too-many-positionals/duplicate: correspondence only)")
                        if res.startswith("(ok"):
                            feats.append("unbindable-call-answered-from-cache")
                if res == "(raisedType)":
                    feats.append("malformed-call(TypeError)")
                nruns = runs[f]
                extra = n_entries(f) if kind == "perinst" else (clock[0] if kind == "lazy" else 0)
            elif name == "drop":
                insts[op["inst"]] = None
                gc.collect()
                res = "(unit)"
                wop = "(drop %d)" % op["inst"]
                nruns = sum(runs)
                extra = sum(n_entries(g) for g in range(nfn))
                if UNKNOWN in [n_entries(g) for g in range(nfn)]:
                    extra = UNKNOWN
            elif name == "dirty":
                fns[f].dirty()
                res = "(unit)"
                wop = "(dirty %d)" % f
                nruns = runs[f]
                extra = clock[0]
            elif name == "tick":
                clock[0] += op["d"]
                res = "(unit)"
                wop = "(tick %d)" % op["d"]
                nruns = runs[0]
                extra = clock[0]
            else:
                raise ValueError(name)
            lines.append("(obs %s %s %d %d)" % (wop, res, nruns, extra))
            feats.append("op=" + name)
    finally:
        tools.utime = saved_utime
        for n, v in saved_options.items():
            setattr(asynq.debug.options, n, v)
        if loop[0] is not None:
            loop[0].close()
    lines.append("(end)")
    feats = sorted(set(feats))
    if kind == "alru":
        feats += ["maxsize=%s" % (case["maxsize"] if case["maxsize"] <= 4 else ">4"), "keyspec=" + case["keyspec"]]
    if kind != "lazy":
        s = case["sig"]
        feats.append("sig=%dpos/%ddef/%dkwonly" % (len([a for a in s["args"] if a != "self"]), len(s["defaults"]), len(s["kwonly"])))
    else:
        feats.append("ttl=%d" % case["ttl"])
    feats.append("len<=%d" % next(b for b in (1, 3, 8, 20, 40, 10 ** 9) if len(case["ops"]) <= b))
    feats.append("hits=%d" % min(hits, 3))
    feats.append("body-runs=%d" % min(misses, 3))
    nontrivial = None
    if ncalls >= 3 and hits >= 1 and misses >= 1:
        nontrivial = hashlib.sha1(json.dumps({k: v for k, v in case.items() if k != "id"}, sort_keys=True).encode()).hexdigest()[:16]
    return {"lines": lines, "features": feats, "nontrivial": nontrivial}
