"""C13  Async caches behave like their reference cache for every call history.

Histories of calls (every spelling of the same arguments: positional / keyword / default / keyword-only, plus a small
malformed stream), bodies that block on a batch or raise or return a value that refers to the instance, custom key
functions, maxsize 1-4, several instances with instance drop, dirty() and ttl expiry on a scripted clock - run on the
real alru_cache / acached_per_instance / alazy_constant.  The Lean model (AsynqModel.Lib.Cache: qcore's LRUCache,
get_args_tuple and get_kwargs_defaults and the three wrappers, branch for branch, with the argument-name lists AS
WRITTEN in tools.py, and the closure dict of acached_per_instance that holds the cached values strongly) replays the
same history (correspondence) and the Lean observers `Alru.spec`, `PerInst.spec`, `Lazy.spec` - a reference cache
keyed on the call's normalised arguments - judge the implementation's observations on their own."""
import hashlib
import itertools
import json
import random

PID = "C13"
LEVEL = "proof"
LEAN_MODULES = ["AsynqModel.Theorems.C13"]
# the claimed theorems (audited with #print axioms by the proof gate); one line each in MANIFEST.json / DESIGN.md 5
THEOREMS = [
    "AsynqModel.Cache.C13_key_normal",
    "AsynqModel.Cache.C13_key_injective",
    "AsynqModel.Cache.C13_alru_key_normal",
    "AsynqModel.Cache.C13_alru_refines",
    "AsynqModel.Cache.C13_alru_refines_keyfn",
    "AsynqModel.Cache.C13_alru_size_le_maxsize",
    "AsynqModel.Cache.C13_alru_kept_below_maxsize_keys",
    "AsynqModel.Cache.C13_alru_recently_used_kept",
    "AsynqModel.Cache.C13_alru_evicted_after_maxsize_keys",
    "AsynqModel.Cache.C13_per_instance_refines_partial",
    "AsynqModel.Cache.C13_per_instance_leak_counterexample",
    "AsynqModel.Cache.C13_instances_independent",
    "AsynqModel.Cache.C13_lazy_refines",
    "AsynqModel.Cache.C13_lazy_dirty_once",
    "AsynqModel.Cache.C13_lazy_ttl_once",
    "AsynqModel.Cache.C13_lazy_raise_not_cached",
    # every hypothesis of the refinement theorems is needed (witnesses on the model)
    "AsynqModel.Cache.C13_alru_callOK_needed",
    "AsynqModel.Cache.C13_per_instance_callOK_needed",
    "AsynqModel.Cache.C13_alru_maxsize_pos_needed",
    "AsynqModel.Cache.C13_lazy_clock_pos_needed",
]
# NOT claimed: they hold by unfolding one `step` of the model (they document the model; their content is the
# correspondence check).  Compiled with LEAN_MODULES, not counted as property theorems.
STEP_LEMMAS = [
    "AsynqModel.Cache.C13_alru_hit",
    "AsynqModel.Cache.C13_alru_miss",
    "AsynqModel.Cache.C13_alru_raise_not_stored",
    "AsynqModel.Cache.C13_instance_drop",
]
BUILDS = {"quick": ["py"], "thorough": ["py", "cy"]}
CASE_TIMEOUT = 20
RULE = ("three streams. alru: signature (0-3 positional-or-keyword parameters with 0-n trailing defaults, 0-2 keyword-only "
        "parameters with/without default) x maxsize 1-4 x key function (default / const / sumParity / raw) x history of "
        "1-30 calls drawn from a pool of 2-5 bindings over values 0-3, each call spelled at random (how many positional, "
        "keywords in random order, defaults omitted or passed, 40% of default-key cases all-positional), 5% malformed "
        "(missing required argument, unexpected keyword); 2% of the default-key and per-instance cases also contain "
        "calls Python cannot bind because of too many positional arguments or a parameter passed twice: for those cases "
        "only the correspondence is judged (ASSUMPTIONS); plus an exhaustive core: every 3-call history over 7 "
        "spellings of f(a, b=0) x maxsize 1-2, every 5-call (thorough: 6-call) history over 3 keys x maxsize 1-3. "
        "per-instance: the same over methods (self, ...) with 1-3 instances and instance drops (del + gc.collect()); in 6% "
        "of the cases half of the bodies return a value that refers to the instance (plus every 3-operation history over "
        "call-with-such-a-value / plain call / drop on two instances). lazy: ttl 0/5/10 x scripted clock x "
        "call/dirty()/tick with bodies of duration 0-7 on the clock. Every body either returns (stamp, received "
        "arguments[, instance]) or raises, directly or after blocking on a batch item; calls are made as f(..), "
        "f.asynq(..).value() or from inside an outer async function. "
        "non-trivial = at least 3 calls with at least one reference hit and one reference miss; distinct by case hash")
TRUSTED = [
    "hand-written Lean model AsynqModel.Lib.Cache tied to the code by this differential run only",
    "`bind` (Python's argument binding) in the Lean model: validated on every miss, because the body reports the "
    "arguments it actually received",
    "Python harness checks/c13.py (generated functions via exec, scripted clock patched into asynq.tools.utime, "
    "body run counter, batch used for blocking bodies)",
    "qcore.caching.LRUCache/get_args_tuple/get_kwargs_defaults are modelled from their source, CPython dict/OrderedDict; "
    "'the program drops the instance' is `del` + gc.collect() in CPython: an object reachable from the decorator's "
    "closure is not freed, one that only sits in a reference cycle is",
]
ASSUMPTIONS = [
    "histories are sequences of top-level calls, each run to completion before the next starts (two calls with the same "
    "key in flight at once both miss - that is deduplicate's business, C12)",
    "wrapped functions have no *args/**kwargs; argument values are hashable and compared by ==",
    "calls Python cannot bind are covered when an argument is missing or a keyword is unexpected (TypeError, nothing "
    "runs). A call that passes too many positionals or one parameter twice is OUTSIDE the property: it has no "
    "normalised arguments, and qcore's get_args_tuple maps it onto the key of a valid call, so it is answered from the "
    "cache when that call is cached and raises TypeError when it is not (reproduced on the real code; hypothesis "
    "alruCallOK / perInstCallOK of the refinement theorems, needed: C13_alru_callOK_needed, "
    "C13_per_instance_callOK_needed). Such calls are generated, but only the correspondence is judged on their cases",
    "alru_cache(maxsize) with maxsize >= 1: qcore's LRUCache constructor rejects anything else (hypothesis hcap)",
    "scripted clock starts >= 1 and never goes backwards (refresh_time == 0 is alazy_constant's 'never computed' mark; "
    "needed: C13_lazy_clock_pos_needed)",
    "the number of per-instance entries is read from __acached_per_instance_cache__ (the attribute the library's own tests use)",
    "a cached value may refer to its instance (this is where the property is FALSE of acached_per_instance as it is: "
    "C13_per_instance_leak_counterexample); other routes by which a value could keep an instance alive (a value that "
    "refers to ANOTHER instance of the class, instances without __dict__) are not generated",
]

NAMES = {"a": 1, "b": 2, "c": 3, "k": 4, "m": 5, "q": 6, "self": 9}   # numeric order = alphabetical order
KEYSPECS = ["default", "const", "sumParity", "raw"]
UNKNOWN = 999999


# ---------------------------------------------------------------------------------------------------
# generation
# ---------------------------------------------------------------------------------------------------

def gen_sig(rng, method=False, allow_empty=True):
    npos = rng.choice([0, 1, 1, 2, 2, 2, 3]) if allow_empty else rng.choice([1, 2, 2, 3])
    pos = ["a", "b", "c"][:npos]
    ndef = rng.randint(0, npos)
    defaults = [rng.choice([0, 0, 1, 2]) for _ in range(ndef)]
    nkw = rng.choice([0, 0, 0, 1, 1, 2])
    kwonly = ["k", "m"][:nkw]
    kwd = [[n, rng.choice([0, 1, 3])] for n in kwonly if rng.random() < 0.5]
    if npos + nkw == 0:
        return gen_sig(rng, method, allow_empty)
    return {"args": (["self"] if method else []) + pos, "defaults": defaults, "kwonly": kwonly, "kwd": kwd}


def sig_params(sig):
    """[(name, default-or-None, kwonly?)] without self"""
    args = [a for a in sig["args"] if a != "self"]
    nd = len(sig["defaults"])
    res = []
    for i, n in enumerate(args):
        j = i - (len(args) - nd)
        res.append((n, sig["defaults"][j] if j >= 0 else None, False))
    kwd = dict((k, v) for k, v in sig["kwd"])
    for n in sig["kwonly"]:
        res.append((n, kwd.get(n), True))
    return res


def spell(rng, sig, binding, allpos=False):
    """one valid way of writing the call whose parameters have the values `binding`"""
    params = sig_params(sig)
    npos = len([p for p in params if not p[2]])
    p = npos if allpos else rng.randint(0, npos)
    args = list(binding[:p])
    kw = []
    for (n, d, ko), v in list(zip(params, binding))[p:]:
        if d is not None and d == v and rng.random() < 0.6 and not (allpos and not ko):
            continue
        kw.append([n, v])
    rng.shuffle(kw)
    # positional arguments cannot skip a parameter: everything after an omitted default must be a keyword - it is
    return args, kw


def gen_binding(rng, sig):
    res = []
    for n, d, ko in sig_params(sig):
        if d is not None and rng.random() < 0.4:
            res.append(d)
        else:
            res.append(rng.randint(0, 3 if rng.random() < 0.3 else 1))
    return res


def malform(rng, sig, args, kw):
    params = sig_params(sig)
    required = [n for n, d, ko in params if d is None]
    if required and rng.random() < 0.6:
        # drop a required argument: the last positional (then later ones must not be positional) or a keyword
        names_pos = [n for n, d, ko in params if not ko]
        given_pos = names_pos[:len(args)]
        cand_kw = [x for x in kw if x[0] in required]
        if cand_kw:
            x = rng.choice(cand_kw)
            return args, [y for y in kw if y is not x]
        if args and given_pos[len(args) - 1] in required:
            return args[:-1], kw
    return args, kw + [["q", rng.randint(0, 1)]]


def unbindable(rng, sig, args, kw):
    """a call Python cannot bind that get_args_tuple accepts: too many positional arguments / one parameter twice.
    OUTSIDE the property (ASSUMPTIONS); returns None when the signature offers no such call"""
    params = sig_params(sig)
    names_pos = [n for n, d, ko in params if not ko]
    kwonly = [n for n, d, ko in params if ko]
    if args and rng.random() < 0.5:
        # one parameter twice: a positional one repeated as a keyword
        n = names_pos[rng.randrange(len(args))]
        return args, [x for x in kw if x[0] != n] + [[n, rng.randint(0, 1)]]
    if kwonly:
        # too many positionals: the keyword-only parameters passed positionally
        vals = dict((k, v) for k, v in kw)
        allv = []
        for (n, d, ko) in params:
            if len(allv) < len(args):
                allv.append(args[len(allv)])
            elif n in vals:
                allv.append(vals[n])
            elif d is not None:
                allv.append(d)
            else:
                return None
        return allv, []
    if args:
        n = names_pos[rng.randrange(len(args))]
        return args, [x for x in kw if x[0] != n] + [[n, rng.randint(0, 1)]]
    return None


def gen_call(rng, sig, pool, inst=0, allpos=False, malformed_rate=0.05, lazy=False, unbindable_rate=0.0, selfref_rate=0.0):
    op = {"op": "call", "inst": inst, "args": [], "kw": [], "raises": 1 if rng.random() < 0.15 else 0, "dur": 0,
          "blocks": 1 if rng.random() < 0.35 else 0, "rpos": rng.randint(0, 1),
          "via": rng.choice(["sync", "sync", "asynq", "inner"])}
    if selfref_rate and rng.random() < selfref_rate:
        op["selfref"] = 1
    if lazy:
        op["dur"] = rng.choice([0, 0, 1, 3, 7])
        return op
    b = rng.choice(pool)
    args, kw = spell(rng, sig, b, allpos)
    if rng.random() < malformed_rate:
        args, kw = malform(rng, sig, args, kw)
    elif unbindable_rate and rng.random() < unbindable_rate:
        u = unbindable(rng, sig, args, kw)
        if u is not None:
            args, kw = u
    op["args"], op["kw"] = args, kw
    return op


def gen_alru(rng, size=None):
    keyspec = rng.choices(KEYSPECS, weights=[11, 2, 3, 3])[0]
    allpos = keyspec == "default" and rng.random() < 0.4
    sig = gen_sig(rng)
    if allpos:
        sig["kwonly"], sig["kwd"] = [], []
        if not sig["args"]:
            sig["args"] = ["a"]
            sig["defaults"] = []
    pool = [gen_binding(rng, sig) for _ in range(rng.randint(2, 5))]
    n = size if size is not None else rng.choice([2, 3, 4, 6, 8, 12, 20, 30])
    ub = 0.25 if keyspec == "default" and not allpos and rng.random() < 0.02 else 0.0
    ops = [gen_call(rng, sig, pool, allpos=allpos, malformed_rate=0.0 if allpos else 0.05, unbindable_rate=ub)
           for _ in range(n)]
    return {"cache": "alru", "maxsize": rng.choice([1, 2, 2, 3, 4]), "keyspec": keyspec, "sig": sig, "ops": ops}


def gen_perinst(rng, size=None):
    sig = gen_sig(rng, method=True)
    pool = [gen_binding(rng, sig) for _ in range(rng.randint(2, 4))]
    ninst = rng.randint(1, 3)
    n = size if size is not None else rng.choice([2, 3, 4, 6, 8, 12, 20, 30])
    ops = []
    ub = 0.25 if rng.random() < 0.02 else 0.0
    sr = 0.5 if rng.random() < 0.06 else 0.0      # bodies whose value refers to the instance
    for _ in range(n):
        i = rng.randrange(ninst)
        if rng.random() < 0.12:
            ops.append({"op": "drop", "inst": i})
        else:
            ops.append(gen_call(rng, sig, pool, inst=i, unbindable_rate=ub, selfref_rate=sr))
    return {"cache": "perinst", "sig": sig, "ops": ops}


def gen_lazy(rng, size=None):
    ttl = rng.choice([0, 5, 5, 10])
    n = size if size is not None else rng.choice([2, 3, 4, 6, 8, 12, 20])
    ops = []
    for _ in range(n):
        r = rng.random()
        if r < 0.15:
            ops.append({"op": "dirty"})
        elif r < 0.40:
            ops.append({"op": "tick", "d": rng.choice([1, 4, 5, 6, 10, 11, 20])})
        else:
            ops.append(gen_call(rng, None, None, lazy=True))
    return {"cache": "lazy", "ttl": ttl, "t0": rng.choice([1, 100]), "ops": ops}


def gen_case(rng, size=None):
    return rng.choices([gen_alru, gen_perinst, gen_lazy], weights=[5, 3, 2])[0](rng, size)


def corpus():
    import glob
    import os
    res = []
    d = os.path.join(os.path.dirname(os.path.dirname(os.path.dirname(os.path.abspath(__file__)))), "corpus", PID)
    for p in sorted(glob.glob(os.path.join(d, "*.json"))):
        with open(p) as f:
            res.append(json.load(f))
    return res


def _call(args, kw, **extra):
    op = {"op": "call", "inst": 0, "args": list(args), "kw": [list(x) for x in kw], "raises": 0, "dur": 0, "blocks": 0,
          "rpos": 0, "via": "sync"}
    op.update(extra)
    return op


def exhaustive_core(tier):
    """every 3-call history over the spellings of f(a, b=0) / m(self, a, b=0), and every short lazy history"""
    cases = []
    sig = {"args": ["a", "b"], "defaults": [0], "kwonly": [], "kwd": []}
    spellings = [([0], []), ([1], []), ([0, 0], []), ([0, 1], []), ([0], [["b", 1]]), ([], [["a", 0]]),
                 ([], [["b", 1], ["a", 0]])]
    for maxsize in (1, 2):
        for h in itertools.product(spellings, repeat=3):
            cases.append({"cache": "alru", "maxsize": maxsize, "keyspec": "default", "sig": sig,
                          "ops": [_call(a, k) for a, k in h]})
    # all-positional LRU core: where the default key is right, eviction order must be exact
    for maxsize in (1, 2, 3):
        for h in itertools.product([0, 1, 2], repeat=5 if tier == "quick" else 6):
            if len(set(h)) < 2:
                continue
            cases.append({"cache": "alru", "maxsize": maxsize, "keyspec": "default",
                          "sig": {"args": ["a"], "defaults": [], "kwonly": [], "kwd": []},
                          "ops": [_call([x], [], blocks=i % 2) for i, x in enumerate(h)]})
    msig = {"args": ["self", "a", "b"], "defaults": [0], "kwonly": [], "kwd": []}
    for h in itertools.product(spellings[:6], repeat=3):
        cases.append({"cache": "perinst", "sig": msig, "ops": [_call(a, k, inst=i % 2) for i, (a, k) in enumerate(h)]})
    # values that refer to their instance: every 3-operation history over two instances
    sops = [_call([0], [], inst=0, selfref=1), _call([0], [], inst=0), _call([1], [], inst=1, selfref=1),
            {"op": "drop", "inst": 0}, {"op": "drop", "inst": 1}]
    for h in itertools.product(sops, repeat=3):
        if not any(o.get("selfref") for o in h) or not any(o["op"] == "drop" for o in h):
            continue
        cases.append({"cache": "perinst", "sig": msig, "ops": [dict(o) for o in h]})
    lops = [{"op": "dirty"}, {"op": "tick", "d": 5}, {"op": "tick", "d": 6}, _call([], []), _call([], [], raises=1),
            _call([], [], dur=3, blocks=1)]
    for ttl in (0, 5):
        for h in itertools.product(lops, repeat=4):
            if sum(1 for o in h if o["op"] == "call") < 2:
                continue
            cases.append({"cache": "lazy", "ttl": ttl, "t0": 1, "ops": [dict(o) for o in h]})
    return cases


def plan(tier, seed):
    rng = random.Random(seed * 1000003 + 13)
    n = 8000 if tier == "quick" else 150000
    cases = corpus()
    cases += exhaustive_core(tier)
    cases += [gen_case(rng) for _ in range(n)]
    return cases


def shrink(case):
    ops = case["ops"]
    for i in range(len(ops)):
        c = dict(case)
        c["ops"] = ops[:i] + ops[i + 1:]
        yield c
    for i, o in enumerate(ops):
        if o["op"] == "call" and (o.get("blocks") or o.get("via") != "sync" or o.get("dur")):
            c = dict(case)
            o2 = dict(o, blocks=0, via="sync")
            c["ops"] = ops[:i] + [o2] + ops[i + 1:]
            yield c
    if case["cache"] == "alru" and case["maxsize"] > 1:
        yield dict(case, maxsize=case["maxsize"] - 1)


def neighbours(case, rng):
    for _ in range(32):
        c = json.loads(json.dumps(case))
        ops = c["ops"]
        g = {"alru": gen_alru, "perinst": gen_perinst, "lazy": gen_lazy}[c["cache"]]
        fresh = g(rng, 4)
        if c["cache"] != "lazy":
            # keep the signature: re-spell calls of this case instead of importing foreign ones
            pool = [gen_binding(rng, c["sig"]) for _ in range(3)]
            new = [gen_call(rng, c["sig"], pool, inst=rng.randrange(2)) for _ in range(3)]
        else:
            new = fresh["ops"]
        if ops and rng.random() < 0.4:
            ops[rng.randrange(len(ops))] = rng.choice(new)
        else:
            ops.insert(rng.randint(0, len(ops)), rng.choice(new))
        if ops and rng.random() < 0.5:
            ops.append(dict(rng.choice([o for o in ops])))
        yield c


def signature(case, v):
    """what fails: cache / key function / violated clause.  The driver appends `+cached-value-refers-to-instance` when
    the clause is `instances`, a body of the case returns a value that refers to its instance and the observations are
    exactly those of the model of the code as it is (the closure dict keeps such an instance and its entry alive):
    one defect, one signature, and every other way of getting the number of entries wrong keeps its own."""
    spec = v["spec"]
    if spec == "fail:instances+cached-value-refers-to-instance":
        return "perinst/cached-value-referring-to-its-instance-is-never-released"
    return "%s/%s/%s" % (case["cache"], case.get("keyspec", "-"), spec)


# ---------------------------------------------------------------------------------------------------
# implementation side
# ---------------------------------------------------------------------------------------------------

class UserErr(Exception):
    def __init__(self, stamp):
        Exception.__init__(self, "body run %d raises" % stamp)
        self.stamp = stamp


def _sig_wire(sig):
    return "((%s) (%s) (%s) (%s))" % (
        " ".join(str(NAMES[a]) for a in sig["args"]),
        " ".join(str(d) for d in sig["defaults"]),
        " ".join(str(NAMES[k]) for k in sig["kwonly"]),
        " ".join("(%d %d)" % (NAMES[k], v) for k, v in sig["kwd"]),
    )


def _body_source(sig):
    params = []
    args = sig["args"]
    nd = len(sig["defaults"])
    for i, n in enumerate(args):
        j = i - (len(args) - nd)
        params.append("%s=%d" % (n, sig["defaults"][j]) if j >= 0 else n)
    if sig["kwonly"]:
        params.append("*")
        kwd = dict((k, v) for k, v in sig["kwd"])
        for n in sig["kwonly"]:
            params.append("%s=%d" % (n, kwd[n]) if n in kwd else n)
    received = [a for a in args if a != "self"] + list(sig["kwonly"])
    return "def body(%s):\n    return (yield from _impl((%s)%s))\n" % (
        ", ".join(params), "".join(r + ", " for r in received), ", self" if "self" in args else "")


_FROZEN = [False]


def run_case(case):
    import gc
    import asynq
    import asynq.tools as tools
    from asynq import BatchBase, BatchItemBase

    if not _FROZEN[0]:
        # gc.collect() after every instance drop walks every live object of the process (interpreter, asynq, stdlib:
        # ~35 ms); move what exists now to the permanent generation so that a collection only sees this case's objects
        gc.collect()
        gc.freeze()
        _FROZEN[0] = True

    kind = case["cache"]
    runs = [0]
    script = [None]
    clock = [case.get("t0", 1)]
    produced = {}
    produced_selfref = {}
    state = {}

    class Batch(BatchBase):
        def _try_switch_active_batch(self):
            if state.get("batch") is self:
                state["batch"] = Batch()

        def _flush(self):
            for item in self.items:
                item.set_value(item.x * 10)

        def _cancel(self):
            pass

    state["batch"] = Batch()

    class Item(BatchItemBase):
        def __init__(self, x):
            BatchItemBase.__init__(self, state["batch"])
            self.x = x

    def _impl(received, owner=None):
        runs[0] += 1
        stamp = runs[0]
        s = script[0]
        clock[0] += s.get("dur", 0)
        if s["raises"] and not (s["blocks"] and s["rpos"] == 1):
            raise UserErr(stamp)
        if s["blocks"]:
            x = yield Item(stamp)
            if x != stamp * 10:
                raise RuntimeError("batch item delivered %r" % (x,))
        if s["raises"]:
            raise UserErr(stamp)
        if s.get("selfref") and owner is not None:
            # a value that refers to the instance it was computed for; the harness must not keep it (or the instance)
            # alive itself: it remembers the content, not the object
            v = ("v", stamp, tuple(received), owner)
            produced_selfref[id(v)] = (stamp, tuple(received), id(owner))
            return v
        v = ("v", stamp, tuple(received))
        produced[id(v)] = v
        return v

    key_fns = {
        "default": None,
        "const": lambda args, kwargs: (),
        "sumParity": lambda args, kwargs: ((sum(args) + sum(kwargs.values())) % 2,),
        "raw": lambda args, kwargs: tuple(args) + tuple(sorted(kwargs.items())),
    }

    saved_utime = tools.utime
    insts = {}
    hdr = None
    cls = None
    fn = None
    if kind == "alru":
        ns = {"_impl": _impl}
        exec(_body_source(case["sig"]), ns)
        fn = tools.alru_cache(maxsize=case["maxsize"], key_fn=key_fns[case["keyspec"]])(asynq.asynq()(ns["body"]))
        hdr = "alru %d %s %s" % (case["maxsize"], case["keyspec"], _sig_wire(case["sig"]))
    elif kind == "perinst":
        ns = {"_impl": _impl}
        exec(_body_source(case["sig"]), ns)
        cls = type("C", (object,), {"m": tools.acached_per_instance()(asynq.asynq()(ns["body"]))})
        hdr = "perinst %s" % _sig_wire(case["sig"])
    elif kind == "lazy":
        tools.utime = lambda: clock[0]

        @asynq.asynq()
        def lazy_body():
            return (yield from _impl(()))
        fn = tools.alazy_constant(ttl=case["ttl"])(lazy_body)
        hdr = "lazy %d %d" % (case["ttl"], case["t0"])
    else:
        raise ValueError(kind)

    def n_entries():
        try:
            d = cls.__dict__["m"].__acached_per_instance_cache__
        except (AttributeError, KeyError):
            try:
                d = cls.m.decorator.__acached_per_instance_cache__
            except AttributeError:
                return UNKNOWN
        return len(d)

    def res_of(v):
        if v is None:
            return "(okNone)"
        got = produced.get(id(v))
        if got is v:
            return "(ok %d (%s))" % (v[1], " ".join(str(x) for x in v[2]))
        got = produced_selfref.get(id(v))
        if got is not None and type(v) is tuple and len(v) == 4 and got == (v[1], v[2], id(v[3])):
            return "(ok %d (%s))" % (v[1], " ".join(str(x) for x in v[2]))
        return "(ok %d ())" % UNKNOWN

    def invoke(target, args, kw, via):
        if via == "sync":
            return target(*args, **kw)
        if via == "asynq":
            return target.asynq(*args, **kw).value()

        @asynq.asynq()
        def outer():
            v = yield target.asynq(*args, **kw)
            return v
        return outer()

    lines = ["(case cache %d %s)" % (case["id"], hdr)]
    feats = ["cache=" + kind]
    ncalls = hits = misses = 0
    try:
        for op in case["ops"]:
            name = op["op"]
            before = runs[0]
            if name == "call":
                ncalls += 1
                script[0] = op
                args = list(op["args"])
                kw = dict((k, v) for k, v in op["kw"])
                if kind == "perinst":
                    i = op["inst"]
                    if insts.get(i) is None:
                        insts[i] = cls()
                    target = insts[i].m
                else:
                    target = fn
                try:
                    res = res_of(invoke(target, args, kw, op["via"]))
                except UserErr as e:
                    res = "(raisedUser %d)" % e.stamp
                    e.__traceback__ = None
                except TypeError as e:
                    res = "(raisedType)"
                    e.__traceback__ = None
                except Exception as e:  # an observation, not a harness failure
                    res = "(raisedOther %s)" % type(e).__name__
                    e.__traceback__ = None
                target = None
                if runs[0] > before:
                    misses += 1
                elif res.startswith("(ok"):
                    hits += 1
                wop = "(call %d (%s) (%s) %d %d %d)" % (
                    op["inst"], " ".join(str(x) for x in op["args"]),
                    " ".join("(%d %d)" % (NAMES[k], v) for k, v in op["kw"]), 1 if op["raises"] else 0, op.get("dur", 0),
                    1 if (op.get("selfref") and kind == "perinst") else 0)
                feats.append("via=" + op["via"])
                if op["blocks"]:
                    feats.append("blocking-body")
                if op["raises"]:
                    feats.append("raising-body")
                if op.get("selfref") and kind == "perinst":
                    feats.append("value-refers-to-instance")
                if op["kw"]:
                    feats.append("spelling=keyword")
                if op["args"]:
                    feats.append("spelling=positional")
                if kind != "lazy":
                    nparams = len([a for a in case["sig"]["args"] if a != "self"]) + len(case["sig"]["kwonly"])
                    if len(op["args"]) + len(op["kw"]) < nparams and res != "(raisedType)":
                        feats.append("spelling=default-omitted")
                    if any(k in case["sig"]["kwonly"] for k, _ in op["kw"]):
                        feats.append("spelling=keyword-only")
                    names_pos = [a for a in case["sig"]["args"] if a != "self"]
                    if len(op["args"]) > len(names_pos) or any(k in names_pos[:len(op["args"])] for k, _ in op["kw"]):
                        feats.append("unbindable-call(too-many-positionals/duplicate: correspondence only)")
                        if res.startswith("(ok"):
                            feats.append("unbindable-call-answered-from-cache")
                if res == "(raisedType)":
                    feats.append("malformed-call(TypeError)")
            elif name == "drop":
                insts[op["inst"]] = None
                gc.collect()
                res = "(unit)"
                wop = "(drop %d)" % op["inst"]
            elif name == "dirty":
                fn.dirty()
                res = "(unit)"
                wop = "(dirty)"
            elif name == "tick":
                clock[0] += op["d"]
                res = "(unit)"
                wop = "(tick %d)" % op["d"]
            else:
                raise ValueError(name)
            extra = n_entries() if kind == "perinst" else (clock[0] if kind == "lazy" else 0)
            lines.append("(obs %s %s %d %d)" % (wop, res, runs[0], extra))
            feats.append("op=" + name)
    finally:
        tools.utime = saved_utime
    lines.append("(end)")
    feats = sorted(set(feats))
    if kind == "alru":
        feats += ["maxsize=%d" % case["maxsize"], "keyspec=" + case["keyspec"]]
    if kind != "lazy":
        s = case["sig"]
        feats.append("sig=%dpos/%ddef/%dkwonly" % (len([a for a in s["args"] if a != "self"]), len(s["defaults"]), len(s["kwonly"])))
    else:
        feats.append("ttl=%d" % case["ttl"])
    feats.append("len<=%d" % next(b for b in (1, 3, 8, 20, 40, 10 ** 9) if len(case["ops"]) <= b))
    feats.append("hits=%d" % min(hits, 3))
    feats.append("body-runs=%d" % min(misses, 3))
    nontrivial = None
    if ncalls >= 3 and hits >= 1 and misses >= 1:
        nontrivial = hashlib.sha1(json.dumps({k: v for k, v in case.items() if k != "id"}, sort_keys=True).encode()).hexdigest()[:16]
    return {"lines": lines, "features": feats, "nontrivial": nontrivial}
