"""Round-5 families of the core checks, threads and priorities (C04, C05, C08):

`crossthread` - two threads that are IN THE MIDDLE OF computations at the same time: long-lived worker threads whose scheduler
already exists (they did earlier work), a task prepared with fn.asynq() on one thread and computed with .value() on another
while its creator is in mid-computation.  Every thread has its own scheduler: each computation keeps its own flush count
(= its longest chain), every batch is flushed by the thread that owns it, the active task of a thread is its running task.

`prioflush` - the flush order among several pending batches: get_priority() overridden on the CLASS, on the batch INSTANCE
(attribute, unittest.mock.patch.object), items answered with set_value()/set_error() before the flush (a client-side cache)
that still count for the default priority (0, len(items)), several rounds of requests per kind.

Both lie outside the machine's language (one thread, priorities fixed per kind), so they drive the REAL library through
public API and are judged by a direct expectation written in lean/AsynqModel/Drv/Families6t.lean (modes of the same names).
Rules as in corefam4: public API only, objects mapped to small numbers / names, nothing compared by repr / address / time;
the threads are sequenced with threading.Event, so every run is deterministic."""
import json

from checks.corefam4 import let_timeouts_through, _sx, _ename


# =====================================================================================================================
# crossthread (C04, C05, C08)
# =====================================================================================================================

CROSS_PREP_P = ["self", "other"]
CROSS_PREP_Q = ["self", "other", "during"]


def crossthread_cases(tier, rng):
    """P = the computation that stops in plain Python code of one of its leaves (thread X), Q = the computation that runs
    from start to end meanwhile (thread Y); `warm`: the thread ran an earlier computation (its scheduler exists and has been
    used); `prep`: who created the root task - the thread that computes it ("self": fn(...) called there), the OTHER thread
    before anything runs ("other": fn.asynq(...) there, .value() here), or ("during", Q only) a task of P while P runs"""
    cases = []
    for wx in (0, 1):
        for wy in (0, 1):
            for pp in CROSS_PREP_P:
                for pq in CROSS_PREP_Q:
                    cases.append({"special": "crossthread", "p": [1, 1, 1], "q": [1], "pause": [2, 0], "warm": [wx, wy], "prep": [pp, pq]})
    # both stop in the middle: Q stops too (`qpause`), P then runs to its end, then Q does
    for wx in (0, 1):
        for wy in (0, 1):
            for pp, pq in (("self", "self"), ("other", "other"), ("self", "during")):
                cases.append({"special": "crossthread", "p": [1, 1], "q": [1, 1, 1], "pause": [1, 0], "qpause": [2, 0], "warm": [wx, wy], "prep": [pp, pq]})
    for _ in range(24 if tier == "quick" else 400):
        p = [rng.randint(1, 3) for _ in range(rng.randint(1, 4))]
        q = [rng.randint(1, 3) for _ in range(rng.randint(1, 3))]
        leaf = rng.randrange(len(p))
        c = {"special": "crossthread", "p": p, "q": q, "pause": [leaf, rng.randrange(p[leaf] + 1)],
             "warm": [rng.randint(0, 1), rng.randint(0, 1)], "prep": [rng.choice(CROSS_PREP_P), rng.choice(CROSS_PREP_Q)]}
        if rng.random() < 0.4:
            ql = rng.randrange(len(q))
            c["qpause"] = [ql, rng.randrange(q[ql] + 1)]
        cases.append(c)
    return cases


WARM_CHAINS = [1, 2]


def run_crossthread(case, pid):
    import threading
    import asynq
    from asynq import batching
    from checks import corecommon as cc

    chains = {"P": case["p"], "Q": case["q"], "WX": WARM_CHAINS, "WY": WARM_CHAINS}
    pleaf, plevel = case["pause"]
    qleaf, qlevel = case.get("qpause") or [-1, -1]
    warm = dict(zip("XY", case["warm"]))
    prep_p, prep_q = case["prep"]
    T = 20          # rendezvous budget, as in corefam4.run_debugthreads: only expires when something is really stuck
    who_am_i = {}   # thread ident -> "X" / "Y"
    current = {}    # thread -> its pending batch (the batched service keeps one pending batch per thread)
    batches = []    # every batch ever created (kept alive: identities stay distinct)
    nflush = {}     # id(batch) -> number of _flush calls
    flushes = []    # (owner thread, flushing thread, computation of the first item, sorted leaves, 1 if items of several computations)
    active_bad = []
    outs = {}
    clean = {}
    jobs = {}
    ev = {k: threading.Event() for k in ("x0", "y0", "goq", "qyield", "pdone")}

    def me():
        return who_am_i.get(threading.get_ident(), "?")

    class Batch(batching.BatchBase):
        def __init__(self, owner):
            batching.BatchBase.__init__(self)
            self.owner = owner
            batches.append(self)
            nflush[id(self)] = 0

        def _try_switch_active_batch(self):
            if current.get(self.owner) is self:
                current[self.owner] = Batch(self.owner)

        def _flush(self):
            nflush[id(self)] += 1
            whos = [i.key[0] for i in self.items]
            flushes.append([self.owner, me(), whos[0] if whos else "none", sorted(i.key[1] for i in self.items), 1 if len(set(whos)) > 1 else 0])
            for i in self.items:
                i.set_value(i.key[1] * 100 + i.key[2])

    class Item(batching.BatchItemBase):
        def __init__(self, key):
            t = me()
            if t not in current:
                current[t] = Batch(t)
            batching.BatchItemBase.__init__(self, current[t])
            self.key = key

    def check_active(args):
        t = asynq.scheduler.get_active_task()
        if t is None or tuple(t.args) != args:
            active_bad.append(args[0])

    def rendezvous(who):
        if who == "P":
            # P stops here, in plain Python code of a running task, until Q has ended (or has stopped in the middle itself)
            ev["goq"].set()
            if not ev["qyield"].wait(T):
                raise RuntimeError("other thread did not finish")
        else:
            # Q stops here until P has run to its end
            ev["qyield"].set()
            if not ev["pdone"].wait(T):
                raise RuntimeError("other thread did not finish")

    def stops_at(who, p, level):
        return (who == "P" and p == pleaf and level == plevel) or (who == "Q" and p == qleaf and level == qlevel)

    @asynq.asynq()
    def leaf(who, p, chain):
        check_active((who, p, chain))
        total = 0
        for level in range(chain):
            if stops_at(who, p, level):
                rendezvous(who)
                check_active((who, p, chain))
            total += yield Item((who, p, level))
            check_active((who, p, chain))
        if stops_at(who, p, chain):
            rendezvous(who)
            check_active((who, p, chain))
        return total

    @asynq.asynq()
    def tree(who, chs):
        if who == "P" and prep_q == "during":
            jobs["Q"] = tree.asynq("Q", chains["Q"])
        got = yield [leaf.asynq(who, p, c) for p, c in enumerate(chs)]
        return got

    def compute(who):
        try:
            got = jobs[who].value() if who in jobs else tree(who, chains[who])
            want = [sum(p * 100 + lv for lv in range(c)) for p, c in enumerate(chains[who])]
            outs[who] = "ok" if got == want else "wrong-values"
        except BaseException as e:
            let_timeouts_through(e)
            outs[who] = "raised-" + _ename(e)

    def thread_main(t):
        who_am_i[threading.get_ident()] = t
        try:
            # phase 0 (X first, then Y, nothing else running): earlier work of a long-lived worker, preparing a job for the other
            if t == "Y" and not ev["x0"].wait(T):
                raise RuntimeError("phase 0 of X did not end")
            try:
                if warm[t]:
                    compute("W" + t)
                if t == "X" and prep_q == "other":
                    jobs["Q"] = tree.asynq("Q", chains["Q"])
                if t == "Y" and prep_p == "other":
                    jobs["P"] = tree.asynq("P", chains["P"])
            finally:
                ev["x0" if t == "X" else "y0"].set()
            # phase 1: X computes P and stops in the middle; Y computes Q meanwhile, from start to end
            if t == "X":
                if not ev["y0"].wait(T):
                    raise RuntimeError("phase 0 of Y did not end")
                compute("P")
            else:
                if not ev["goq"].wait(T):
                    raise RuntimeError("P did not get to its rendezvous")
                compute("Q")
        except BaseException as e:
            let_timeouts_through(e)
            outs["thread-" + t] = "raised-" + _ename(e)
        finally:
            for k in (("goq", "pdone", "x0") if t == "X" else ("qyield", "y0")):
                ev[k].set()
            try:
                clean[t] = ["clean"] + list(cc.sched_state(asynq.scheduler.get_scheduler()))
            except BaseException as e:
                let_timeouts_through(e)
                clean[t] = ["unreadable", _ename(e)]

    ths = [threading.Thread(target=thread_main, args=(t,)) for t in "XY"]
    for th in ths:
        th.start()
    for th in ths:
        th.join(T + 4)
    multi = sum(1 for b in batches if nflush[id(b)] > 1)
    unflushed = sum(1 for b in batches if b.items and not b.is_flushed())
    lines = ["(case crossthread %d %s %s %s %s %s)" % (case["id"], _sx(["p"] + case["p"]), _sx(["q"] + case["q"]), _sx(["warm"] + case["warm"]),
                                                    _sx(["prep", prep_p, prep_q]), pid),
             "(result %s)" % " ".join(_sx([w, outs.get(w, "no-outcome" if (w in ("P", "Q") or warm[w[1]]) else "not-run")]) for w in ("P", "Q", "WX", "WY")),
             "(threads %s %s)" % (outs.get("thread-X", "ok"), outs.get("thread-Y", "ok")),
             "(flushes %s)" % " ".join(_sx(f) for f in flushes),
             "(active-bad %s)" % _sx(sorted(active_bad)),
             "(batches %d %d)" % (multi, unflushed),
             "(sched %s %s)" % (_sx(clean.get("X", ["missing"])), _sx(clean.get("Y", ["missing"]))),
             "(end)"]
    return {"lines": lines, "features": ["family=crossthread", "crossthread-warm=%d%d" % tuple(case["warm"]), "crossthread-prep=%s/%s" % (prep_p, prep_q),
                                          "crossthread-both-stop=%d" % (1 if case.get("qpause") else 0)],
            "nontrivial": "crossthread-" + json.dumps([case["p"], case["q"], case["pause"], case.get("qpause"), case["warm"], case["prep"]])}


# =====================================================================================================================
# prioflush (C05)
# =====================================================================================================================

PRIO_HOWS = ["default", "class", "instance", "patch"]


def _prio_eff(kind, r):
    return tuple(kind["prio"][r]) if kind["how"] != "default" else (0, kind["n"] + kind["pre"][r])


def _prio_distinct(kinds):
    effs = [_prio_eff(k, r) for k in kinds for r in range(len(k["pre"]))]
    return len(set(effs)) == len(effs)


def prioflush_cases(tier, rng):
    """kind k: `n` leaf tasks, each of which sends one request per round to the kind's pending batch; in round r the first leaf
    additionally creates `pre[r]` items in that batch and answers them at once (`prekind`: set_value / set_error - a client with
    a local cache), so the batch holds n + pre[r] items of which n wait for the flush; `how`: where get_priority() of the
    kind's batches comes from (the stock BatchBase method / a subclass / an attribute of the instance / mock.patch.object on
    the instance), `prio[r]` = what it returns for the batch of round r.  All effective priorities of a case are distinct (a tie
    is decided by set order - legitimately either way)."""
    def kind(n, pre, how="default", prio=None, prekind="value"):
        return {"n": n, "pre": pre, "how": how, "prio": prio or [[0, 0]] * len(pre), "prekind": prekind}
    fixed = [
        # an override that lives on the batch object, against a bigger default batch
        [kind(3, [0]), kind(1, [0], "instance", [[1, 0]])],
        [kind(3, [0]), kind(1, [0], "patch", [[1, 0]])],
        [kind(3, [0]), kind(1, [0], "class", [[1, 0]])],
        [kind(1, [0]), kind(3, [0], "instance", [[0, 0]])],
        [kind(2, [0, 0], "instance", [[0, 9], [0, 1]]), kind(3, [0, 0])],
        # items answered before the flush still count for the default priority
        [kind(1, [3]), kind(2, [0])],
        [kind(1, [3], prekind="error"), kind(2, [0])],
        [kind(2, [2, 0]), kind(3, [0, 0]), kind(1, [0, 4])],
        [kind(1, [4]), kind(2, [0], "instance", [[0, 3]]), kind(1, [1])],
    ]
    cases = [{"special": "prioflush", "kinds": ks} for ks in fixed]
    want = 40 if tier == "quick" else 800
    while len(cases) < len(fixed) + want:
        ks = []
        for _ in range(rng.randint(2, 4)):
            rounds = rng.choice([1, 1, 2, 3])
            how = rng.choice(PRIO_HOWS + ["default"])
            ks.append(kind(rng.randint(1, 4), [rng.choice([0, 0, 1, 2, 3, 5]) for _ in range(rounds)], how,
                           [[rng.choice([0, 0, 1, 2]), rng.randint(0, 9)] for _ in range(rounds)], rng.choice(["value", "value", "error"])))
        if _prio_distinct(ks):
            cases.append({"special": "prioflush", "kinds": ks})
    return cases


def run_prioflush(case, pid):
    import asynq
    from asynq import batching
    from unittest import mock
    from checks import corecommon as cc

    kinds = case["kinds"]
    current = {}
    made = {}        # kind -> number of batches created so far (= round of the next one)
    batches = []
    nflush = {}
    order = []
    patchers = []
    unanswered = []

    class PreError(Exception):
        pass

    class Batch(batching.BatchBase):
        def __init__(self, k, r):
            batching.BatchBase.__init__(self)
            self.k, self.r = k, r
            self.seen = []          # every item ever put into this batch (flush() empties `items`)
            batches.append(self)
            nflush[id(self)] = 0

        def _try_switch_active_batch(self):
            if current.get(self.k) is self:
                current[self.k] = new_batch(self.k)

        def _flush(self):
            nflush[id(self)] += 1
            order.append([self.k, self.r])
            for i in self.items:
                if not i.is_computed():
                    i.set_value(i.key)

    class PrioBatch(Batch):
        def get_priority(self):
            return tuple(kinds[self.k]["prio"][min(self.r, len(kinds[self.k]["prio"]) - 1)])

    class Item(batching.BatchItemBase):
        def __init__(self, k, key):
            batching.BatchItemBase.__init__(self, current[k])
            current[k].seen.append(self)
            self.key = key

    def new_batch(k):
        r = made.get(k, 0)
        made[k] = r + 1
        kd = kinds[k]
        pr = tuple(kd["prio"][min(r, len(kd["prio"]) - 1)])
        if kd["how"] == "class":
            return PrioBatch(k, r)
        b = Batch(k, r)
        if kd["how"] == "instance":
            b.get_priority = lambda: pr
        elif kd["how"] == "patch":
            p = mock.patch.object(b, "get_priority", return_value=pr)
            p.start()
            patchers.append(p)
        return b

    @asynq.asynq()
    def leaf(k, j):
        kd = kinds[k]
        got = []
        for r in range(len(kd["pre"])):
            if j == 0:
                for x in range(kd["pre"][r]):
                    it = Item(k, 1000 + x)
                    if kd["prekind"] == "error":
                        it.set_error(PreError())
                    else:
                        it.set_value(2000 + x)
                    try:
                        got.append((yield it))
                    except PreError:
                        got.append("pre-error")
            got.append((yield Item(k, 100 * r + j)))
        return got

    @asynq.asynq()
    def root():
        res = yield [[leaf.asynq(k, j) for j in range(kd["n"])] for k, kd in enumerate(kinds)]
        return res

    def expected_values():
        res = []
        for k, kd in enumerate(kinds):
            per = []
            for j in range(kd["n"]):
                got = []
                for r in range(len(kd["pre"])):
                    if j == 0:
                        got += [("pre-error" if kd["prekind"] == "error" else 2000 + x) for x in range(kd["pre"][r])]
                    got.append(100 * r + j)
                per.append(got)
            res.append(per)
        return res

    asynq.scheduler.reset()
    for k in range(len(kinds)):
        current[k] = new_batch(k)
    try:
        got = root()
        out = "ok" if got == expected_values() else "wrong-values"
    except BaseException as e:
        let_timeouts_through(e)
        out = "raised-" + _ename(e)
    finally:
        for p in patchers:
            try:
                p.stop()
            except BaseException as e:
                let_timeouts_through(e)
    for b in batches:
        unanswered += [1 for i in b.seen if not i.is_computed()]
    st = cc.sched_state(asynq.scheduler.get_scheduler())
    asynq.scheduler.reset()
    hdr = [["kind", k, kd["n"], kd["how"]] + [[kd["pre"][r]] + list(kd["prio"][min(r, len(kd["prio"]) - 1)]) for r in range(len(kd["pre"]))]
           for k, kd in enumerate(kinds)]
    lines = ["(case prioflush %d %s)" % (case["id"], " ".join(_sx(h) for h in hdr)),
             "(result %s %s %s %s %d)" % (out, _sx(order), _sx([[b.k, b.r, nflush[id(b)]] for b in batches if nflush[id(b)] != 1 and b.seen]),
                                       _sx(["clean"] + list(st)), len(unanswered)),
             "(end)"]
    hows = sorted({kd["how"] for kd in kinds})
    return {"lines": lines, "features": ["family=prioflush", "prioflush-kinds=%d" % len(kinds)] + ["prioflush-how=" + h for h in hows]
            + (["prioflush-precompleted"] if any(any(kd["pre"]) for kd in kinds) else []),
            "nontrivial": "prioflush-" + json.dumps(kinds, sort_keys=True)}


# =====================================================================================================================
# reawait (C03, C08): tasks left unfinished by an exception that ESCAPED the scheduler are awaited again later
# =====================================================================================================================

REAWAIT_TRIGGERS = ["kbd", "abort", "sysexit", "guard"]
REAWAIT_AGAIN = ["root", "inner-first", "new-root"]


def reawait_cases(tier, rng):
    """a chain T0 -> T1 -> ... of `len(w)` tasks; T_i awaits, in ONE list, the next task (the deepest one: a lazily computed
    Future) and w[i] side leaves each sending `c` dependent requests to a batched service.  Computation 1 (.value() of T0) is
    aborted `k` times by an exception that escapes the scheduler: the provider of the lazy Future raises KeyboardInterrupt /
    a BaseException-only error / SystemExit, or (`guard`) MAX_TASK_STACK_SIZE is lower than the chain needs (then restored).
    Afterwards the SAME unfinished task objects are awaited again: the root, a middle task first and then the root, or a NEW
    top-level task that yields the old root together with a middle one.  `created`: all task objects made up front, or each
    child made inside its parent's body."""
    cases = []
    for trig in REAWAIT_TRIGGERS:
        for again in REAWAIT_AGAIN:
            for created in ("upfront", "inside"):
                cases.append({"special": "reawait", "w": [0, 0, 0], "c": 1, "trigger": trig, "k": 1, "again": again, "created": created})
    cases.append({"special": "reawait", "w": [0] * 60, "c": 1, "trigger": "guard", "k": 1, "again": "root", "created": "inside", "max": 30})
    for _ in range(30 if tier == "quick" else 600):
        d = rng.randint(1, 5)
        trig = rng.choice(REAWAIT_TRIGGERS)
        cases.append({"special": "reawait", "w": [rng.choice([0, 0, 1, 2]) for _ in range(d)], "c": rng.randint(1, 2), "trigger": trig,
                      "k": 1 if trig == "guard" else rng.randint(1, 2), "again": rng.choice(REAWAIT_AGAIN), "created": rng.choice(["upfront", "inside"]),
                      "mid": rng.randint(1, 4)})
    return cases


def run_reawait(case, pid):
    import asynq
    from asynq import batching, futures
    from checks import corecommon as cc

    w, c, trig, k, again, created = case["w"], case["c"], case["trigger"], case["k"], case["again"], case["created"]
    d = len(w)

    class AbortError(BaseException):
        pass

    err_cls = {"kbd": KeyboardInterrupt, "abort": AbortError, "sysexit": SystemExit, "guard": RuntimeError}[trig]
    steps = {}
    left = [k if trig != "guard" else 0]
    cur = [None]
    batches = []
    tasks = {}

    class Batch(batching.BatchBase):
        def __init__(self):
            batching.BatchBase.__init__(self)
            self.n = 0
            self.had = 0
            batches.append(self)

        def _try_switch_active_batch(self):
            if cur[0] is self:
                cur[0] = Batch()

        def _flush(self):
            self.n += 1
            for i in self.items:
                i.set_value(i.key)

    class Item(batching.BatchItemBase):
        def __init__(self, key):
            batching.BatchItemBase.__init__(self, cur[0])
            cur[0].had += 1
            self.key = key

    def step(name, i):
        steps[(name, i)] = steps.get((name, i), 0) + 1

    def provider():
        if left[0]:
            left[0] -= 1
            raise err_cls()
        return 40

    @asynq.asynq()
    def side(i, j):
        total = 0
        for lv in range(c):
            step("S%d.%d" % (i, j), lv)
            total += yield Item(100 * i + 10 * j + lv)
        step("S%d.%d" % (i, j), c)
        return total

    @asynq.asynq()
    def chain(i):
        step("T%d" % i, 0)
        if i + 1 < d:
            if created == "inside":
                tasks[i + 1] = chain.asynq(i + 1)
            nxt = tasks[i + 1]
        else:
            nxt = futures.Future(provider)
        got = yield [nxt] + [side.asynq(i, j) for j in range(w[i])]
        step("T%d" % i, 1)
        return sum(got)

    @asynq.asynq()
    def top(j):
        a, b = yield tasks[0], tasks[j]
        return [a, b]

    @asynq.asynq()
    def canary():
        got = yield [side.asynq(90, 0), side.asynq(90, 1)]
        return got

    def want(i):
        return (want(i + 1) if i + 1 < d else 40) + sum(sum(100 * i + 10 * j + lv for lv in range(c)) for j in range(w[i]))

    opts = asynq.debug.options
    saved = (opts.MAX_TASK_STACK_SIZE, opts.DUMP_PRE_ERROR_STATE)
    asynq.scheduler.reset()
    cur[0] = Batch()
    if created == "upfront":
        for i in reversed(range(d)):
            tasks[i] = chain.asynq(i)
    else:
        tasks[0] = chain.asynq(0)
    aborts = []
    out = "not-run"
    after_abort = None
    try:
        opts.DUMP_PRE_ERROR_STATE = False
        if trig == "guard":
            opts.MAX_TASK_STACK_SIZE = case.get("max", 1)
        for _ in range(k):
            try:
                tasks[0].value()
                aborts.append("returned")
            except BaseException as e:
                let_timeouts_through(e)
                aborts.append(_ename(e))
        opts.MAX_TASK_STACK_SIZE = saved[0]
        after_abort = cc.sched_state(asynq.scheduler.get_scheduler())
        # the same unfinished task objects are awaited again
        mid = min(d - 1, case.get("mid", 1))
        try:
            if again == "inner-first" and mid in tasks:
                got = [tasks[mid].value(), tasks[0].value()]
                out = "ok" if got == [want(mid), want(0)] else "wrong-values"
            elif again == "new-root" and mid in tasks:
                got = top(mid)
                out = "ok" if got == [want(0), want(mid)] else "wrong-values"
            else:
                got = tasks[0].value()
                out = "ok" if got == want(0) else "wrong-values"
        except BaseException as e:
            let_timeouts_through(e)
            out = "raised-" + _ename(e)
        active_none = 1 if asynq.scheduler.get_active_task() is None else 0
        try:
            cv = canary()
            can = "ok" if cv == [sum(9000 + lv for lv in range(c)), sum(9010 + lv for lv in range(c))] else "wrong-values"
        except BaseException as e:
            let_timeouts_through(e)
            can = "raised-" + _ename(e)
        st = cc.sched_state(asynq.scheduler.get_scheduler())
    finally:
        opts.MAX_TASK_STACK_SIZE, opts.DUMP_PRE_ERROR_STATE = saved
        asynq.scheduler.reset()
    nsteps = len(steps) - sum(1 for (n, _) in steps if n.startswith("S90."))
    bad = sorted([n, i, cnt] for (n, i), cnt in steps.items() if cnt != 1)
    uncomputed = sum(1 for i in range(d) if i not in tasks or not tasks[i].is_computed())
    notonce = sorted([b.had, b.n] for b in batches if b.had and b.n != 1)
    lines = ["(case reawait %d %s %d %s %d %s %s %s)" % (case["id"], _sx(["w"] + w), c, trig, k, again, created, pid),
             "(result %s %s %s %d %d %s %s %d %s %s)" % (_sx(["aborts"] + aborts), out, _sx(bad), nsteps, uncomputed, _sx(notonce),
                                                       _sx(["clean"] + list(st)), active_none, can, _sx(["after-abort"] + list(after_abort or ()))),
             "(end)"]
    return {"lines": lines, "features": ["family=reawait", "reawait-trigger=" + trig, "reawait-again=" + again, "reawait-created=" + created],
            "nontrivial": "reawait-" + json.dumps([w if d < 10 else d, c, trig, k, again, created, case.get("mid", 1)])}


RUNNERS = {"crossthread": run_crossthread, "prioflush": run_prioflush, "reawait": run_reawait}
