"""C17  Async generators deliver their Values in order, and only those.

A generator body (list of steps: await a future | yield Value(v)) is turned into a real @async_generator()
(optionally wrapped in outer generators that iterate it as documented), and a history of caller operations
(next(gen) / gen.send(x) with x not None / compute the k-th returned future / take_first(gen, n) /
list_of_generator(gen) / "par": yield the k-th returned future together with a sibling task that advances the
generator, so that the advance happens while that future has STARTED and is parked on an unflushed batch item) is run
on it.  Value payloads include odd objects (equal to everything, falsy, refusing bool/eq/hash, Value objects, subclasses
of built-ins, exception instances and classes) and futures (ConstFuture, computed and uncomputed tasks, unflushed batch
items).  Round 4 (feature interactions): the body may try to advance the generator that is executing it (`re`:
[[position, advance], ...], judged by the direct expectation Generator.reenterExpected - no theorem), operations are
spelled in every public way (next/gen.next/__next__/send.asynq(None)/a stored bound wrapper/copy.copy of it/iter;
positional, keyword, .asynq in a consumer, .asynq().value()), and harness-only `flags` vary the surroundings without
changing what the model is asked: thr (every operation on a thread of its own), weak (uncomputed tasks held weakly +
gc), decoy (a second generator of the same decorated function holds an uncomputed task), dirty (a failed computation
before), meth (generator function is a method called with a keyword argument), yf (body delegates with yield from),
dbg (DUMP_* / KEEP_DEPENDENCIES / COLLECT_PERF_STATS switched on half-way), ret (body returns a value).
Round 5 (second audit): awaits may be asynq's multi-await forms (one `yield` of a list / tuple / dict of futures, of None,
of an empty container - the body checks that it is resumed with the same shape holding the awaited results); the sibling
of a `par` may advance with send(x), x not None (harness-only spelling of next() there: the generator has started); for
NESTED generators every observation also records how far every level below the outermost one has been advanced, which
the driver compares with Generator.innerLevels (the documented loop run over the model of the inner generator): "without
consuming more of the generator than needed" is thereby also checked for the inner generators (direct evaluation, no
theorem).
After every operation the result, the number of items the underlying Python generator has yielded, whether it
ran off its end and whether every await was resumed with the result of the awaited future are recorded.
The Lean model (AsynqModel.Lib.Generator) replays the same history (correspondence) and the Lean observer
`Generator.spec` (the statement of C17) judges the implementation's observations on their own.

A small extra stream has bodies with a `Value(END_OF_GENERATOR)` item.  Such a body is OUTSIDE the statement of C17
("returns all the Values" and "END_OF_GENERATOR never appears" contradict each other there - Lean:
C17_marker_payload_unsatisfiable); the model has the item, so the code's behaviour there (the item is dropped, a
manual consumer sees an END_OF_GENERATOR that does not end the generator, take_first overruns) is pinned by the
correspondence, and the driver judges only the clauses that still make sense (no marker in a list, awaits resumed
with the awaited result)."""
import hashlib
import itertools
import json
import random

PID = "C17"
LEVEL = "proof"
LEAN_MODULES = ["AsynqModel.Theorems.C17"]
HEADLINE = [
    # the property (hypothesis of the Value-delivery theorems: noMarker b = no Value(END_OF_GENERATOR) item in the body)
    "AsynqModel.Generator.C17_list",
    "AsynqModel.Generator.C17_take",
    "AsynqModel.Generator.C17_take_stops_at_value",
    "AsynqModel.Generator.C17_no_marker",
    "AsynqModel.Generator.C17_guard",
    "AsynqModel.Generator.C17_guard_started",
    "AsynqModel.Generator.C17_reachable",
    "AsynqModel.Generator.C17_exhausted",
    "AsynqModel.Generator.C17_take_repeat",
    "AsynqModel.Generator.C17_nested_loop",
    "AsynqModel.Generator.C17_nested",
    "AsynqModel.Generator.C17_spec_holds",
    # round 5: the observer accepts EXACTLY the model's observations (no wrong observation is accepted; the `send`
    # laxity of round 4 is gone), and its clause for a rejected send(x) rejects lost Values for every body with a Value
    "AsynqModel.Generator.C17_spec_exact",
    "AsynqModel.Generator.C17_send_rejected_keeps_values",
    # why noMarker is a hypothesis (the statement is unsatisfiable without it) and what the code does there
    "AsynqModel.Generator.C17_marker_payload_unsatisfiable",
    "AsynqModel.Generator.C17_marker_payload_behaviour",
    # adequacy of the model (the fuel of its structurally recursive loops is never used up - any state, any body)
    "AsynqModel.Generator.C17_loops_within_fuel",
]
# hold by construction of the model (a branch of takeFirst / sendVal returns the state literally); audited with the
# others, but NOT part of the claim: their content is the correspondence run and the observer clauses take-zero /
# send-rejected (C17_spec_exact)
BY_CONSTRUCTION = [
    "AsynqModel.Generator.C17_take_zero",
    "AsynqModel.Generator.C17_send_rejected",
    "AsynqModel.Generator.C17_send_started",
    "AsynqModel.Generator.C17_send_fresh_noop",
    "AsynqModel.Generator.C17_send_then_iterate",
]
THEOREMS = HEADLINE + BY_CONSTRUCTION
BUILDS = {"quick": ["py"], "thorough": ["py", "cy"]}
EXHAUSTIVE = {"quick": True, "thorough": True}
RULE = ("every generator body over {await, Value} of length 0-6 (thorough: 0-8) x scripted histories (list; take n for "
        "n = 0..len+1 followed by further take_first/list/next calls; manual next/compute iteration to exhaustion; "
        "advancing at every position while the previous task is uncomputed; two consumers: every returned future yielded "
        "together with a sibling that advances the generator by next / take_first / list_of_generator, i.e. while the "
        "task has started and is parked on an unflushed batch item) with awaits that are ConstFutures, async calls or "
        "items of a harness batch and Value payloads that are plain objects, None, objects equal to everything or futures "
        "(ConstFuture, computed task, uncomputed task, unflushed batch item), plus random bodies of length 7-30 with "
        "random histories and 0-2 levels of nesting; plus (outside the statement, correspondence only) every body of "
        "length 1-4 (thorough 1-5) over {await, Value, Value(END_OF_GENERATOR)} with at least one marker item under the "
        "same scripted histories (nesting 0, and 1 up to length 3) and about 8% of the random bodies; ROUND 4: for every "
        "body up to length 5 (thorough 6; nesting 0, and 1 up to length 3) histories around send(x) for six non-None "
        "objects x (rejected on the unstarted generator - also after take_first(gen, 0) - then list / take / manual "
        "iteration; send instead of next later on) and re-entrant advances (next / send / take_first n = 0, 1, 3 / "
        "list_of_generator attempted by the body itself before every item and after the last one, under list, manual "
        "and take histories); for every body up to length 4 each harness-only flag (thr, weak, decoy, dirty, meth, yf, "
        "dbg, ret) on five scripted histories, flags also drawn at random (5-12%) elsewhere; operations spelled at "
        "random in 7 (next), 3 (send) and 4 (take_first / list_of_generator) public ways; await kinds also: computed "
        "task, one task awaited at several places, DebugBatchItem; Value items also SubValue(...) and Value(value=...); "
        "third nesting level (scripted up to length 2, random); bodies of length 300 and 1500 (thorough 6000); ROUND 5: "
        "await kinds also asynq's multi-await forms ([ConstFuture, task], (batch item, ConstFuture), {a: task, b: batch "
        "item}, None, empty container; every body of length 1-4 once with all awaits of one such form, thorough: forms 8 "
        "and 10 for every body, random elsewhere), par siblings that advance with send(x), and for every nested case the "
        "position of every inner level after every operation; non-trivial = "
        "body with at least one await and one Value and a history of at least 2 operations; distinct by (body, await "
        "kinds, nesting, history) hash")
TRUSTED = [
    "hand-written Lean model AsynqModel.Lib.Generator tied to the code by this differential run only",
    "Python harness checks/c17.py (generator bodies built from step lists, token <-> object identity mapping, pull counter "
    "inside the body)",
    "CPython generator semantics (send / StopIteration; TypeError for a non-None value sent to an unstarted generator; "
    "ValueError for re-entering an executing generator), the asynq scheduler (C01-C05) computing the tasks",
    "re-entrant advances from the body: judged by the closed-form expectation Generator.reenterExpected evaluated by the "
    "driver (the model has no state 'the body is executing'; no theorem speaks about this family); the rest of such a "
    "history is judged by Generator.spec as usual.  Of its three cases, (i) RuntimeError inside the _send_inner task and "
    "(iii) take_first(gen, 0) = [] are consequences of the property text; (ii) inside send() the property is silent: SPEC "
    "accepts any exception but StopIteration, CORR demands CPython's ValueError - that part is a REGRESSION TEST of "
    "today's code, not a verdict on C17",
    "how far the inner generators of a nested generator are advanced: Generator.innerLevels, a direct evaluation of the "
    "loop machine outerResume/outerAfter by the driver (C17_nested_loop ties that machine to `wrap`; no theorem states "
    "the inner positions)",
    "the observation field `bad` (awaits resumed with the awaited result - also for multi-await forms -, generator "
    "arguments delivered, another generator of the same function undisturbed) is computed by the harness and is the "
    "literal 0 in the model (_send_inner's yield_result plumbing is not modelled): these three observer clauses are "
    "checked on the implementation only, no theorem is about them",
]
ASSUMPTIONS = [
    "no Value payload is the END_OF_GENERATOR marker object itself (hypothesis `noMarker b` of C17_list, C17_take, "
    "C17_take_stops_at_value, C17_take_repeat, C17_nested, C17_reachable, C17_spec_holds): for such a payload the "
    "statement contradicts itself (C17_marker_payload_unsatisfiable); what the code does there is modelled "
    "(Step.valueEnd, C17_marker_payload_behaviour) and compared with the code, but not judged as C17",
    "awaited futures succeed (a body whose awaited future raises is outside the statement)",
    "tasks of one generator are computed by the caller that obtained them; a second consumer only ever advances the "
    "generator as a sibling of the pending task in one yield (the scheduler, C03/C04, runs the pending task first and "
    "as far as it gets without flushing a batch); n >= 0 (the code treats n < 0 like 0)",
    "send(x): the body ignores what `yield Value(...)` evaluates to, so on a started generator send(x) is next(); on a "
    "generator that has not started the model ASSUMES that the rejected send moves nothing (sendVal returns the state "
    "literally: C17_send_rejected / _send_started / _send_fresh_noop / _send_then_iterate hold by construction); the "
    "assumption is validated by the correspondence run and enforced on the implementation by the observer clause "
    "send-rejected, which since round 5 demands exactly TypeError (generator protocol, PEP 342) with nothing moved",
    "asyncio mode (list_of_generator.asyncio(gen)) is outside the statement, which documents the asynq-mode loop",
    "NOT CHECKED (outside the model, code conforms when probed by hand): the parked party of two consumers being a "
    "consumer LOOP (`yield list_of_generator.asynq(gen), sibling.asynq()` with the loop's internal task parked on a "
    "batch item): the model's LastRef.internal is never blocked and Op.par only takes a held future",
    "C17_reachable: its hypothesis noMarker is proof-technical, no counterexample known (bounded check of the second "
    "audit: every body of length <= 3 incl. marker items x every history of length <= 4 over 11 operations)",
    "nested generators are outer generators that iterate the inner one as documented (for task in inner: v = yield task; "
    "skip END_OF_GENERATOR; yield Value(v)); their effective body is Generator.wrap of the inner body (Lean: "
    "C17_nested_loop proves that this loop, run over the model of the inner generator, yields exactly `wrap b`; that a "
    "Python generator is characterised by the sequence of items it yields is part of the trusted CPython semantics)",
]
UNKNOWN = 999999
WILD = 50          # value tokens WILD..FUT-1 are objects whose __eq__ answers True to everything
FUT = 1000         # value tokens >= FUT are futures: t % 4 = 0 ConstFuture, 1 computed task, 2 uncomputed task,
                   # 3 item of a harness batch that has not been flushed


# ---------------------------------------------------------------------------------------------------
# case generation
# ---------------------------------------------------------------------------------------------------

def n_values(body):
    return sum(1 for s in body if s[0] == "v")


def has_marker(body):
    return any(s[0] == "e" for s in body)


def mk_body(shape, rng, kind=None):
    """shape: string over 'a'/'v'/'e' -> [["a", kind] | ["v", token] | ["e"]] with distinct value tokens;
    ["e"] is `yield Value(END_OF_GENERATOR)` (outside the statement, see the module docstring)"""
    body = []
    t = 0
    for ch in shape:
        if ch == "a":
            body.append(["a", rng.randrange(AWAIT_KINDS) if kind is None else kind])
        elif ch == "e":
            body.append(["e"])
        else:
            t += 1
            r = rng.random()
            if r < 0.08:
                body.append(["v", 0])              # Value(None)
            elif r < 0.22:
                body.append(["v", WILD + (8 * t) % 896 + rng.randrange(8)])   # an odd object (odd_payload: by token % 8)
            elif r < 0.40:
                body.append(["v", FUT + 4 * t + rng.randrange(4)])   # a Value whose payload is a future
            else:
                body.append(["v", t])
    return body


def manual_ops(body, extra=2):
    """iterate by hand: next, compute, ... until exhausted, then keep asking"""
    ops = []
    k = 0
    pos = 0
    while pos < len(body):
        ops.append(["next"])
        if body[pos][0] != "a":
            pos += 1
        else:
            pos += 1
            while pos < len(body) and body[pos][0] == "a":
                pos += 1
            if pos < len(body):
                pos += 1
        ops.append(["compute", k])
        k += 1
    ops += [["next"]] * extra
    if k:
        ops.append(["compute", 0])
        ops.append(["compute", k - 1])
    return ops


def guard_ops(body, stop_at):
    """iterate by hand up to the stop_at-th future, leave it uncomputed, try to advance in every way, then go on"""
    ops = []
    k = 0
    pos = 0
    while pos < len(body) and k < stop_at:
        ops.append(["next"])
        pos += 1
        if body[pos - 1][0] == "a":
            while pos < len(body) and body[pos][0] == "a":
                pos += 1
            if pos < len(body):
                pos += 1
        ops.append(["compute", k])
        k += 1
    ops += [["next"], ["next"], ["take", 0], ["take", 1], ["list"], ["take", 2], ["compute", k], ["take", 1], ["next"], ["list"], ["next"]]
    return ops


ADVS = [["next"], ["take", 1], ["list"], ["take", 0], ["take", 2]]
# re-entrant advances the body may attempt on the generator that is executing it
RE_ADVS = [["next"], ["send"], ["take", 1], ["list"], ["take", 0], ["take", 3]]
# how an operation is spelled (all spellings of one operation are the same operation for the model):
NEXT_FORMS = 7     # next(gen) | gen.next() | gen.__next__() | gen.send.asynq(None) | bound = gen.send (bound once, reused)
                   # | copy.copy(bound) | next(iter(gen))
SEND_FORMS = 3     # gen.send.asynq(x) | bound.asynq(x) | gen.send.asynq(value=x)
SENT_KINDS = 6     # the non-None object sent: plain object | 0 | False | "" | () | an object equal to everything (also to None)
CALL_FORMS = 4     # take_first(gen, n) | take_first(generator=gen, n=n) | yield take_first.asynq(gen, n) in a consumer task
                   # | take_first.asynq(gen, n).value()      (the same four for list_of_generator)
FLAGS = ["thr", "weak", "decoy", "dirty", "meth", "yf", "dbg", "ret"]
BLOCKING = (2, 3, 6, 8, 9)    # await kinds that cannot complete before the scheduler flushes a batch
AWAIT_KINDS = 12   # 0 ConstFuture | 1 task | 2 harness batch item | 3 task awaiting a batch item | 4 computed task |
                   # 5 one task awaited at several places | 6 DebugBatchItem | round 5, asynq's multi-await forms:
                   # 7 [ConstFuture, task] | 8 (batch item, ConstFuture) | 9 {"a": task, "b": batch item} | 10 None |
                   # 11 an empty container ((), [] or {})


def send_ops(body, rng):
    """histories around the rarely used entry point send(x), x not None: rejected (TypeError) by a generator that
    has not started - after which every Value must still be delivered - and the same as next() afterwards"""
    L = len(body)
    nv = n_values(body)

    def snd():
        return ["send", rng.randrange(SEND_FORMS), rng.randrange(SENT_KINDS)]
    out = [[snd(), ["list"], snd(), ["next"]],
           [snd(), snd(), ["take", 0], snd(), ["take", 1], snd(), ["take", max(nv, 1)], snd(), ["list"], snd()],
           [["take", 0], snd(), ["next"], snd(), ["compute", 0], snd(), ["compute", 1], snd(), ["take", 2], ["list"]]]
    man = manual_ops(body)
    out.append([snd()] + [snd() if (o[0] == "next" and i % 4 == 2) else o for i, o in enumerate(man)] + [snd()])
    if L:
        out.append([snd(), ["next"], ["par", 0, ["list"]], snd(), ["list"]])
    return out


def reent_cases(body, nest, rng):
    """the body itself tries to advance the generator that is executing it, before every item and after the last"""
    L = len(body)
    out = []
    for adv in RE_ADVS:
        re = [[j, adv] for j in range(L + 1)]
        hs = [[["list"], ["next"]], manual_ops(body, 1),
              [["take", rng.randint(1, max(1, n_values(body)))], ["next"], ["compute", 0], ["list"], ["take", 1]]]
        for ops in hs:
            out.append({"body": body, "nest": nest, "ops": ops, "re": re})
    # mixed kinds of attempt, only at some positions
    re = [[j, rng.choice(RE_ADVS)] for j in range(L + 1) if rng.random() < 0.6]
    if re:
        out.append({"body": body, "nest": nest, "re": re,
                    "ops": [["send", 0, 0], ["take", 1], ["next"], ["par", 0, ["next"]], ["list"], ["next"]]})
    return out


def lottery(case, rng, p=0.05):
    """switch on some of the harness-only dimensions (they do not change what the model is asked)"""
    fl = [f for f in FLAGS if rng.random() < p]
    if fl:
        case["flags"] = fl
    return case


def spell(ops, rng, p=0.3):
    """choose a spelling for some of the operations"""
    out = []
    for o in ops:
        o = list(o)
        if rng.random() < p:
            if o == ["next"]:
                o = ["next", rng.randrange(NEXT_FORMS)]
            elif o[0] == "take" and len(o) == 2:
                o = o + [rng.randrange(CALL_FORMS)]
            elif o == ["list"]:
                o = ["list", rng.randrange(CALL_FORMS)]
        out.append(o)
    return out


def par_ops(body, adv):
    """two consumers: every returned future is yielded together with a sibling that advances the generator"""
    ops = []
    for _ in range(len(body) + 1):
        ops += [["next"], ["par", -1, adv]]
    return ops + [["next"], ["list"], ["par", 0, adv]]


def scripted(body, rng, nest=0):
    L = len(body)
    out = []

    def add(ops):
        out.append({"body": body, "nest": nest, "ops": ops})
    add([["list"], ["list"], ["next"], ["take", 1], ["next"]])
    for n in range(0, L + 2):
        m = rng.randint(0, 3)
        add([["take", n], ["take", 1], ["take", m], ["list"], ["next"], ["next"]])
    add([["take", 1]] * (n_values(body) + 2) + [["next"]])
    # take_first(gen, 0): a no-op at every point - fresh, between calls, while a task is uncomputed, after exhaustion
    add([["take", 0], ["take", 0], ["next"], ["take", 0], ["next"], ["compute", 0], ["take", 0], ["take", 1], ["take", 0],
         ["list"], ["take", 0], ["next"]])
    add(manual_ops(body))
    if any(s[0] == "a" for s in body):
        for adv in ADVS:
            add(par_ops(body, adv))
        add(par_ops(body, ["next", 1 + rng.randrange(SENT_KINDS)]))      # the sibling advances with send(x), x not None
    for stop_at in range(0, min(L, 4)):
        add(guard_ops(body, stop_at))
    return out


def random_ops(rng, nops):
    ops = []
    k = 0
    for _ in range(nops):
        r = rng.random()
        if r < 0.35:
            ops.append(["next"])
            k += 1
        elif r < 0.65 and k:
            # mostly the newest future (the one that may be pending), sometimes an old one, rarely one that does
            # not exist (malformed stream: the harness's own IndexError, mirrored by the model as `raised other`)
            x = rng.random()
            ops.append(["compute", k - 1 if x < 0.7 else (rng.randrange(k) if x < 0.97 else k + rng.randrange(3))])
        elif r < 0.78 and k:
            adv = rng.choice(ADVS)
            if adv == ["next"] and rng.random() < 0.4:
                adv = ["next", 1 + rng.randrange(SENT_KINDS)]      # the sibling advances with send(x)
            ops.append(["par", k - 1 if rng.random() < 0.8 else rng.randrange(k), adv])
            k += 1  # the sibling may have obtained a future (if not, later indices are merely stale)
        elif r < 0.86:
            n = rng.choice([0, 1, 1, 2, 2, 3, 4, 6, 9])
            ops.append(["take", n])
        elif r < 0.93:
            ops.append(["send", rng.randrange(SEND_FORMS), rng.randrange(SENT_KINDS)])
            k += 1
        else:
            ops.append(["list"])
    return ops


def gen_case(rng, length=None):
    L = length if length is not None else rng.choice([1, 2, 3, 5, 7, 8, 10, 12, 16, 22, 30])
    p = rng.choice([0.2, 0.5, 0.5, 0.8])
    shape = "".join("a" if rng.random() < p else "v" for _ in range(L))
    if rng.random() < 0.08:     # outside the statement: some Values carry the marker object itself
        shape = "".join("e" if ch == "v" and rng.random() < 0.4 else ch for ch in shape)
    kind = rng.choice([None, None, None, 0, 2, 8])
    body = mk_body(shape, rng, kind)
    nest = rng.choice([0, 0, 0, 0, 1, 1, 2, 2, 3])
    ops = random_ops(rng, rng.choice([1, 2, 3, 4, 6, 8, 12]))
    if rng.random() < 0.25:     # a history that starts with send(x) on the generator that has not started
        ops = [["send", rng.randrange(SEND_FORMS), rng.randrange(SENT_KINDS)] for _ in range(rng.choice([1, 1, 2]))] + ops
    case = {"body": body, "nest": nest, "ops": spell(ops, rng, 0.4)}
    if rng.random() < 0.2 and not has_marker(body):
        re = [[j, rng.choice(RE_ADVS)] for j in range(L + 1) if rng.random() < 0.4]
        if re:
            case["re"] = re
    return lottery(case, rng, 0.12)


def corpus():
    import glob
    import os
    res = []
    d = os.path.join(os.path.dirname(os.path.dirname(os.path.dirname(os.path.abspath(__file__)))), "corpus", PID)
    for p in sorted(glob.glob(os.path.join(d, "*.json"))):
        with open(p) as f:
            res.append(json.load(f))
    return res


def plan(tier, seed):
    rng = random.Random(seed * 1000003 + 17)
    maxlen = 6 if tier == "quick" else 8
    cases = corpus()
    for L in range(0, maxlen + 1):
        for shape in itertools.product("va", repeat=L):
            shape = "".join(shape)
            kinds = [None, 2] if tier == "quick" else [None, 0, 1, 2, 3, 6, 8, 10]
            if tier == "quick" and 1 <= L <= 4:
                kinds = kinds + [rng.choice([7, 8, 9, 10, 11])]      # every await of the body is a multi-await form
            for kind in kinds:
                cases += scripted(mk_body(shape, rng, kind), rng, 0)
            if L <= 4:
                cases += scripted(mk_body(shape, rng, None), rng, 1)
            if L <= 3:
                cases += scripted(mk_body(shape, rng, None), rng, 2)
            if L <= 2:
                cases += scripted(mk_body(shape, rng, None), rng, 3)      # third level of nesting
            # round 4: the entry point send(x), re-entrant advances from the body, other spellings of the operations
            # and the harness-only dimensions (threads, weakly held tasks + gc, a second generator of the same
            # decorated function, leftover state, methods/kwargs, yield from, debug options switched on mid-flight)
            if L <= (5 if tier == "quick" else 6):
                for nest in ([0, 1] if L <= 3 else [0]):
                    b = mk_body(shape, rng, None)
                    cases += [lottery({"body": b, "nest": nest, "ops": spell(ops, rng)}, rng) for ops in send_ops(b, rng)]
                    b = mk_body(shape, rng, rng.choice([None, 2]))
                    cases += [lottery(c, rng) for c in reent_cases(b, nest, rng)]
            if L <= 4:
                b = mk_body(shape, rng, None)
                for fl in FLAGS:
                    for c in scripted(b, rng, 0)[:3] + scripted(b, rng, 0)[-2:]:
                        c["flags"] = [fl] + [f for f in FLAGS if f != fl and rng.random() < 0.15]
                        c["ops"] = spell(c["ops"], rng, 0.5)
                        cases.append(c)
    # outside the statement (correspondence only): bodies with a Value(END_OF_GENERATOR) item
    for L in range(1, (4 if tier == "quick" else 5) + 1):
        for shape in itertools.product("vae", repeat=L):
            if "e" not in shape:
                continue
            shape = "".join(shape)
            cases += scripted(mk_body(shape, rng, None), rng, 0)
            if L <= 3:
                cases += scripted(mk_body(shape, rng, None), rng, 1)
    # sizes: long bodies (the loops of _send_inner / list_of_generator / take_first are loops, not recursion)
    for L in ([300, 1500] if tier == "quick" else [300, 1500, 6000]):
        for pat in ("v", "a", "av", "aav", "vva"):
            shape = (pat * (L // len(pat) + 1))[:L]
            b = [["a", [0, 2, 1][j % 3]] if ch == "a" else ["v", 1 + j % 40] for j, ch in enumerate(shape)]
            nv = n_values(b)
            cases.append({"body": b, "nest": 0, "ops": [["take", 0], ["take", nv // 2], ["next"], ["take", nv], ["next"]]})
            cases.append({"body": b, "nest": 0, "ops": [["send", 0, 0], ["list"], ["next"]]})
            if L <= 300:
                cases.append({"body": b, "nest": 2, "ops": [["take", 1], ["list"], ["next"]]})
    n = 2500 if tier == "quick" else 40000
    cases += [gen_case(rng) for _ in range(n)]
    return cases


def _mk(case, **kw):
    c = {k: v for k, v in case.items() if k != "id"}
    c.update(kw)
    for k in ("re", "flags"):
        if k in c and not c[k]:
            del c[k]
    return c


def _re_without(re, j):
    """the re-entrant attempts after item j of the body has been removed (one attempt per position)"""
    out, seen = [], set()
    for x in re:
        pos = x[0] - 1 if x[0] > j else x[0]
        if pos not in seen:
            seen.add(pos)
            out.append([pos, x[1]])
    return out


def shrink(case):
    body, ops, nest = case["body"], case["ops"], case["nest"]
    re = case.get("re", [])
    flags = case.get("flags", [])
    for f in flags:
        yield _mk(case, flags=[g for g in flags if g != f])
    if re:
        yield _mk(case, re=[])
        for i in range(len(re)):
            yield _mk(case, re=re[:i] + re[i + 1:])
    for i in range(len(ops) - 1, -1, -1):
        yield _mk(case, ops=ops[:i] + ops[i + 1:])
    if nest:
        yield _mk(case, nest=nest - 1)
    for j in range(len(body)):
        yield _mk(case, body=body[:j] + body[j + 1:], re=_re_without(re, j))
    for i, op in enumerate(ops):
        if op[0] == "take" and op[1] > 1:
            yield _mk(case, ops=ops[:i] + [["take", op[1] - 1] + op[2:]] + ops[i + 1:])
        if (op[0] in ("next", "list") and len(op) > 1) or (op[0] == "take" and len(op) > 2):
            yield _mk(case, ops=ops[:i] + [op[:2] if op[0] == "take" else op[:1]] + ops[i + 1:])
        if op[0] == "send" and op[1:] not in ([], [0, 0]):
            yield _mk(case, ops=ops[:i] + [["send", 0, 0]] + ops[i + 1:])
    for j, s in enumerate(body):
        if s[0] == "a" and s[1] not in (0, 2):
            yield _mk(case, body=body[:j] + [["a", 2 if s[1] in BLOCKING else 0]] + body[j + 1:])
        if s[0] == "a" and s[1] == 2:
            yield _mk(case, body=body[:j] + [["a", 0]] + body[j + 1:])
        if s[0] == "v" and s[1] >= WILD:
            yield _mk(case, body=body[:j] + [["v", 1 + j]] + body[j + 1:])
    for i, op in enumerate(ops):
        if op[0] == "par" and op[2][0] == "next" and len(op[2]) > 1:
            yield _mk(case, ops=ops[:i] + [["par", op[1], ["next"]]] + ops[i + 1:])
        if op[0] == "par":
            yield _mk(case, ops=ops[:i] + [["compute", op[1]]] + ops[i + 1:])
            yield _mk(case, ops=ops[:i] + [["compute", op[1]], op[2]] + ops[i + 1:])


def neighbours(case, rng):
    body, ops, nest = case["body"], case["ops"], case["nest"]
    for n in range(0, len(body) + 2):
        yield _mk(case, ops=ops + [["take", n], ["list"]])
    yield _mk(case, ops=ops + manual_ops(body))
    yield _mk(case, ops=[["send", 0, 0]] + ops + [["list"]])
    for _ in range(24):
        b = [list(s) for s in body]
        o = [list(x) for x in ops]
        r = rng.random()
        if r < 0.3 and b:
            del b[rng.randrange(len(b))]
        elif r < 0.6:
            b.insert(rng.randint(0, len(b)), rng.choice([["a", rng.randrange(4)], ["v", rng.randint(1, 9)], ["v", WILD + 1]]
                                                        + ([["e"]] if has_marker(body) else [])))
        elif o:
            o[rng.randrange(len(o))] = random_ops(rng, 1)[0]
        o.insert(rng.randint(0, len(o)), random_ops(rng, 1)[0])
        # re-entrant attempts: keep those whose position still exists
        yield _mk(case, body=b, ops=o, re=[x for x in case.get("re", []) if x[0] <= len(b)])


def signature(case, v):
    # the failing clause and the kind of operation it fails at, e.g. "fail:guard@take" or "fail:take-zero@take0"
    # (for a body with a marker payload only "fail:end-marker" / "fail:await-result" are possible); round 4:
    # "fail:send-rejected@send" (a send(x) on the unstarted generator moved something or was not refused),
    # "fail:send-refusal-class@send" (refused, nothing moved, but not with TypeError), "fail:<next clause>@send",
    # "fail:nested-inner-consumed@<op>" (an inner generator of a nested one was advanced further/less than the loop needs), "fail:reenter-guard@<advance>" (the body's own advance was not
    # refused with RuntimeError while the running task is uncomputed), "fail:reenter-rejected@<advance>" (not refused inside
    # send()), "fail:reenter-take-zero@take0", "fail:generator-arguments@..", "fail:other-generator-disturbed@.."
    return v["spec"]


# ---------------------------------------------------------------------------------------------------
# implementation side
# ---------------------------------------------------------------------------------------------------

class Wild(object):
    """a perfectly ordinary value for a generator to yield; it just compares equal to everything"""

    def __init__(self, t):
        self.t = t

    def __eq__(self, other):
        return True

    def __ne__(self, other):
        return False

    def __hash__(self):
        return 7


class Plain(object):
    def __init__(self, t):
        self.t = t


class Falsy(object):
    """false in a boolean context and of length 0"""

    def __init__(self, t):
        self.t = t

    def __bool__(self):
        return False

    def __len__(self):
        return 0


class Touchy(object):
    """refuses to be tested, compared or hashed (a Value payload is only ever handed on)"""

    def __init__(self, t):
        self.t = t

    def __bool__(self):
        raise AssertionError("payload tested for truth")

    def __eq__(self, other):
        raise AssertionError("payload compared")

    def __ne__(self, other):
        raise AssertionError("payload compared")

    def __hash__(self):
        raise AssertionError("payload hashed")

    def __len__(self):
        raise AssertionError("payload measured")

    def __iter__(self):
        raise AssertionError("payload iterated")


class EmptyList(list):
    pass


class ZeroInt(int):
    pass


def odd_payload(t, Value):
    """the objects behind the value tokens WILD..FUT-1, by t % 8"""
    k = t % 8
    if k == 0:
        return Wild(t)
    if k == 1:
        return Falsy(t)
    if k == 2:
        return Touchy(t)
    if k == 3:
        return Value(Plain(t))          # the payload is itself a Value object
    if k == 4:
        return EmptyList()              # falsy subclass of a built-in, equal to every other empty list
    if k == 5:
        return ZeroInt(0)               # equal to 0 and False
    if k == 6:
        return StopIteration(t)         # an exception INSTANCE as data
    return type("Exit%d" % t, (GeneratorExit,), {})      # a BaseException-only CLASS as data


def run_case(case):
    import copy
    import gc
    import io
    import sys
    import threading
    import weakref

    import asynq
    from asynq import batching, futures
    from asynq.generator import END_OF_GENERATOR, Value, async_generator, list_of_generator, take_first

    body, nest, ops = case["body"], case["nest"], case["ops"]
    re_at = {x[0]: x[1] for x in case.get("re", [])}
    flags = set(case.get("flags", []))

    # ---- a batch kind of the harness: an await on one of its items blocks until the scheduler flushes it
    def batch_kind(state):
        class HBatch(batching.BatchBase):
            def _try_switch_active_batch(self):
                if state["batch"] is self:
                    state["batch"] = None

            def _flush(self):
                state["flushes"] += 1
                for it in self.items:
                    it.set_value(it.answer)

            def _cancel(self):
                pass

        class HItem(batching.BatchItemBase):
            def __init__(self, answer):
                if state["batch"] is None:
                    state["batch"] = HBatch()
                super(HItem, self).__init__(state["batch"])
                self.answer = answer

        return HItem

    state = {"batch": None, "flushes": 0}
    HItem = batch_kind(state)
    HItem2 = batch_kind({"batch": None, "flushes": 0})     # for everything that is not the generator under test

    @asynq.asynq()
    def echo(x):
        return x

    @asynq.asynq()
    def echo_via_batch(x):
        r = yield HItem(x)
        return r

    if "dirty" in flags:
        # leftover state: a computation on this thread has just failed half-way (a sibling parked on a batch item)
        @asynq.asynq()
        def boom():
            yield echo.asynq(1)
            raise KeyError("boom")

        @asynq.asynq()
        def parked():
            return (yield HItem2(2))

        @asynq.asynq()
        def failing():
            yield boom.asynq(), parked.asynq()

        sink = (asynq.debug.stdout, asynq.debug.stderr)
        asynq.debug.stdout = asynq.debug.stderr = io.StringIO()     # the library dumps the error; not our subject
        try:
            failing()
        except KeyError:
            pass
        finally:
            asynq.debug.stdout, asynq.debug.stderr = sink

    vals = {}
    for s in body:
        if s[0] == "v":
            t = s[1]
            if t == 0:
                vals[t] = None
            elif t < WILD:
                vals[t] = Plain(t)
            elif t < FUT:
                vals[t] = odd_payload(t, Value)
            elif t % 4 == 0:
                vals[t] = futures.ConstFuture(Plain(t))
            elif t % 4 == 1:
                vals[t] = echo.asynq(Plain(t))
                vals[t].value()
            elif t % 4 == 2:
                vals[t] = echo.asynq(Plain(t))
            else:
                vals[t] = HItem(Plain(t))
    val_tok = {id(v): t for t, v in vals.items() if v is not None}
    SENT = [Plain(-1), 0, False, "", (), Wild(-2)]       # none of them is None

    bad = [0]
    relog = []
    shared = {}

    class SubValue(Value):
        """a subclass of Value is a Value"""

    def same_shape(got, expected):
        """the result of a multi-await: the same container type holding the very objects that were awaited"""
        if expected is None:
            return got is None
        if type(got) is not type(expected) or len(got) != len(expected):
            return False
        if isinstance(expected, dict):
            return set(got) == set(expected) and all(got[x] is expected[x] for x in expected)
        return all(a is b for a, b in zip(got, expected))

    def attempt(st, j):
        """code called by the body tries to advance the generator that is executing the body, and is told off"""
        adv = re_at.get(j) if st["main"] else None
        if adv is None:
            return
        g = st["gen"]
        try:
            if adv[0] == "next":
                f = next(g)
                st["stray"].append(f)
                out = futres(f)
            elif adv[0] == "send":
                f = g.send.asynq(SENT[j % len(SENT)])
                st["stray"].append(f)
                out = futres(f)
            elif adv[0] == "take":
                out = lst(take_first(g, adv[1]))
            else:
                out = lst(list_of_generator(g))
        except StopIteration:
            out = "(raised StopIteration)"
        except RuntimeError:
            out = "(raised RuntimeError)"
        except Exception as e:  # noqa
            out = "(raised other %s)" % type(e).__name__
        relog.append("(%d %s %s)" % (j, sx(adv), out))

    def body_fn(steps, st, tag=None):
        """the generator function: one `yield` per step; what runs between two yields is the code `before item j`"""
        if tag is not st["tag"]:
            bad[0] += 100                 # the keyword argument did not arrive (Lean: badClause)
        for j, s in enumerate(steps):
            attempt(st, j)
            st["pulls"] += 1
            if s[0] == "a":
                expected = Plain(-j)
                k = s[1]
                if k == 0:
                    f = futures.ConstFuture(expected)
                elif k == 1:
                    f = echo.asynq(expected)
                elif k == 2:
                    f = st["item"](expected)
                elif k == 3:
                    f = echo_via_batch.asynq(expected) if st["main"] else echo.asynq(expected)
                elif k == 4:
                    f = echo.asynq(expected)      # a task that has been computed before it is awaited
                    f.value()
                elif k == 6:
                    # the library's own DebugBatchItem (a batch name of its own per case: the registry is global)
                    f = batching.DebugBatchItem("c17-%d-%d" % (case["id"], id(state)), expected)
                elif k in (7, 8, 9, 10, 11):
                    # asynq's multi-await forms: one `yield` of a list / tuple / dict of futures, of None, of an
                    # empty container; the body must be resumed with the same shape holding the awaited results
                    e2 = Plain(-j - 5000)
                    if k == 7:
                        f, expected = [futures.ConstFuture(expected), echo.asynq(e2)], [expected, e2]
                    elif k == 8:
                        f, expected = (st["item"](expected), futures.ConstFuture(e2)), (expected, e2)
                    elif k == 9:
                        f, expected = {"a": echo.asynq(expected), "b": st["item"](e2)}, {"a": expected, "b": e2}
                    elif k == 10:
                        f, expected = None, None
                    else:
                        f = expected = ((), [], {})[j % 3]
                    got = yield f
                    if not same_shape(got, expected):
                        bad[0] += 1
                    continue
                else:
                    # ONE task awaited at several places of the body (second use of the same future)
                    if "task" not in shared:
                        shared["obj"] = Plain(-1000)
                        shared["task"] = echo.asynq(shared["obj"])
                    f, expected = shared["task"], shared["obj"]
                got = yield f
                if got is not expected:
                    bad[0] += 1
            elif s[0] == "e":
                yield Value(END_OF_GENERATOR)      # the payload is the marker object itself
            elif st["main"] and s[1] % 5 == 4:
                yield SubValue(vals[s[1]])
            elif st["main"] and s[1] % 5 == 3:
                yield Value(value=vals[s[1]])
            else:
                yield Value(vals[s[1]] if st["main"] else s[1])
        attempt(st, len(steps))
        st["fin"] = True
        if "ret" in flags:
            return st["tag"]               # StopIteration with a value

    def delegating_fn(steps, st, tag=None):
        """a body that delegates to a sub-generator"""
        yield from body_fn(steps, st, tag=tag)

    fn = delegating_fn if "yf" in flags else body_fn

    # ONE decorator object serves every generator function of the case
    dec = async_generator()

    class Holder(object):
        """the generator function as a method (the decorated function only has to RETURN a generator)"""

        @dec
        def gen_m(self, steps, st, tag=None):
            return fn(steps, st, tag=tag)

    base = Holder().gen_m if "meth" in flags else dec(fn)

    def new_st(main, item):
        return {"main": main, "item": item, "pulls": 0, "fin": False, "gen": None, "stray": [], "tag": Plain(-7)}

    st0 = new_st(True, HItem)
    pulls = [0] * (nest + 1)
    fin = [False] * (nest + 1)

    def outer_plain(inner, level):
        # the documented way of consuming an async generator, re-yielding its Values
        for task in inner:
            pulls[level] += 1
            value = yield task
            if value is END_OF_GENERATOR:
                continue
            pulls[level] += 1
            yield Value(value)
        fin[level] = True

    outer = dec(outer_plain)

    gen = base(body, st0, tag=st0["tag"])
    st0["gen"] = gen          # the innermost generator: the one the body re-enters
    for level in range(1, nest + 1):
        gen = outer(gen, level)

    def cur_pulls():
        return st0["pulls"] if nest == 0 else pulls[nest]

    def cur_fin():
        return st0["fin"] if nest == 0 else fin[nest]

    # a second generator made by the same decorated function (and the same decorator object): its state is its own
    decoy = None
    if "decoy" in flags:
        dsteps = [["a", 2], ["v", 1], ["a", 0], ["a", 2], ["v", 2], ["v", 3], ["a", 2]] * 12
        dst = new_st(False, HItem2)
        decoy = {"gen": base(dsteps, dst, tag=dst["tag"]), "task": None, "want": [1, 2, 3] * 12, "got": []}

    def decoy_step():
        """leave the OTHER generator with an uncomputed task while the generator under test is used"""
        d = decoy
        try:
            if d["task"] is not None:
                v = d["task"].value()
                d["task"] = None
                if v is not END_OF_GENERATOR:
                    d["got"].append(v)
            f = next(d["gen"])
            if f.is_computed():
                d["got"].append(f.value())
            else:
                d["task"] = f
            if d["got"] != d["want"][:len(d["got"])]:
                bad[0] += 10000
        except StopIteration:
            pass
        except Exception:  # noqa   the other generator was disturbed
            bad[0] += 10000

    def tok(v):
        if v is END_OF_GENERATOR:
            return "end"
        if v is None:
            return "0"
        return str(val_tok.get(id(v), UNKNOWN))

    def sx(x):
        return "(%s)" % " ".join(sx(y) if isinstance(y, list) else str(y) for y in x)

    def lst(r):
        return ("(lst %s)" % " ".join(tok(x) for x in r)).replace("(lst )", "(lst)") if isinstance(r, list) \
            else "(raised other NotAList)"

    def futres(f):
        return "(fut %s)" % (tok(f.value()) if f.is_computed() else "none")

    def run_par(fk, adv):
        """`yield fk, sibling.asynq()`: the scheduler runs fk first as far as it gets without a flush, then the sibling"""
        info = {}

        @asynq.asynq()
        def sibling():
            info["kdone"] = fk.is_computed()
            try:
                if adv[0] == "next":
                    if len(adv) > 1 and adv[1]:
                        # the sibling advances with send(x), x not None: the generator has started (the caller holds
                        # a future of it), so this is next() - the model is asked for `par k next`
                        return ("fut", gen.send.asynq(SENT[(adv[1] - 1) % len(SENT)]))
                    return ("fut", next(gen))
                elif adv[0] == "take":
                    r = yield take_first.asynq(gen, adv[1])
                    return ("lst", r)
                else:
                    r = yield list_of_generator.asynq(gen)
                    return ("lst", r)
            except StopIteration:
                return ("raised", "StopIteration")
            except RuntimeError:
                return ("raised", "RuntimeError")
            except Exception as e:  # noqa
                return ("raised", "other " + type(e).__name__)

        @asynq.asynq()
        def consumer():
            first, second = yield fk, sibling.asynq()
            return first, second

        first, second = consumer()
        if second[0] == "fut":
            held.append(second[1])
            r2 = futres(second[1])
        elif second[0] == "lst":
            r2 = lst(second[1])
        else:
            r2 = "(raised %s)" % second[1]
        return "(item %s)" % tok(first), "(sib %d %s)" % (1 if info.get("kdone") else 0, r2)

    bound_send = gen.send          # a bound wrapper, made once and used again and again

    def do_next(form):
        if form == 0:
            return next(gen)
        if form == 1:
            return gen.next()
        if form == 2:
            return gen.__next__()
        if form == 3:
            return gen.send.asynq(None)
        if form == 4:
            return bound_send.asynq(None)
        if form == 5:
            return copy.copy(bound_send).asynq(None)
        return next(iter(gen))

    def do_send(form, x):
        if form == 0:
            return gen.send.asynq(x)
        if form == 1:
            return bound_send.asynq(x)
        return gen.send.asynq(value=x)

    def do_call(fn, form, *args):
        names = ("generator", "n")
        if form == 0:
            return fn(*args)
        if form == 1:
            return fn(**dict(zip(names, args)))
        if form == 2:
            @asynq.asynq()
            def consumer():
                r = yield fn.asynq(*args)
                return r
            return consumer()
        return fn.asynq(*args).value()

    def keep(f):
        """the caller's reference to a returned future; with `weak` an uncomputed task is only held weakly until
        it is used - the generator's own `last_task` is then what keeps it alive"""
        if "weak" in flags and not f.is_computed():
            try:
                held.append(weakref.ref(f))
                dropped[0] = True
                return
            except TypeError:
                pass
        held.append(f)

    def fetch(k):
        f = held[k]
        if isinstance(f, weakref.ref):
            f = f()
            if f is None:
                raise LookupError("the uncomputed task was garbage collected")
            held[k] = f
        return f

    def perform(op):
        name = op[0]
        sib = "-"
        if name == "next":
            f = do_next(op[1] if len(op) > 1 else 0)
            res = futres(f)
            keep(f)
        elif name == "send":
            f = do_send(op[1] if len(op) > 1 else 0, SENT[(op[2] if len(op) > 2 else 0) % len(SENT)])
            res = futres(f)
            keep(f)
        elif name == "compute":
            res = "(item %s)" % tok(fetch(op[1]).value())
        elif name == "take":
            res = lst(do_call(take_first, op[2] if len(op) > 2 else 0, gen, op[1]))
        elif name == "list":
            res = lst(do_call(list_of_generator, op[1] if len(op) > 1 else 0, gen))
        elif name == "par":
            res, sib = run_par(fetch(op[1]), op[2])
        else:
            raise ValueError(name)
        return res, sib

    def in_thread(fn):
        box = {}

        def target():
            try:
                box["r"] = fn()
            except BaseException as e:  # noqa
                box["e"] = e

        t = threading.Thread(target=target)
        t.start()
        t.join()
        if "e" in box:
            raise box["e"]
        return box["r"]

    dbg_at = len(ops) // 2 if "dbg" in flags else -1
    saved_opts = None

    bs = " ".join("(a %d)" % (1 if s[1] in BLOCKING else 0) if s[0] == "a" else ("(ve)" if s[0] == "e" else "(v %d)" % s[1])
                  for s in body)
    lines = ["(case generator %d (body %s) (nest %d)%s)" % (
        case["id"], bs, nest,
        " (reent %s)" % " ".join("(%d %s)" % (j, sx(re_at[j])) for j in sorted(re_at)) if re_at else "")]
    held = []
    dropped = [False]
    guard_hits = 0
    stops = 0
    pars = 0
    parked = 0
    rejected = 0
    try:
        for i, op in enumerate(ops):
            if i == dbg_at:
                # debug / profiling options switched on in mid-flight (diagnostic output is swallowed by the worker)
                o = asynq.debug.options
                names = [n for n in dir(o) if (n.startswith("DUMP_") or n in ("KEEP_DEPENDENCIES", "COLLECT_PERF_STATS"))
                         and isinstance(getattr(o, n), bool)]      # (a cdef class in the compiled build: no __dict__)
                saved_opts = ({n: getattr(o, n) for n in names}, sys.stderr, asynq.debug.stdout, asynq.debug.stderr)
                # the DUMP_* options write to asynq.debug.stdout / stderr: keep that out of the worker's pipes
                sys.stderr = asynq.debug.stdout = asynq.debug.stderr = io.StringIO()
                for n in names:
                    setattr(o, n, True)
                # (COLLECT_PERF_STATS included since /repo 9ee915e: a task created before it is switched on completes)
            if decoy is not None:
                decoy_step()
            name = op[0]
            op = list(op)
            if name in ("compute", "par") and op[1] < 0:
                op[1] = max(len(held) - 1, 0)      # "the most recent future"
            sib = "-"
            try:
                if "thr" in flags:
                    res, sib = in_thread(lambda: perform(op))      # every operation on a thread of its own
                else:
                    res, sib = perform(op)
                if name == "par":
                    pars += 1
                    if sib.startswith("(sib 0"):
                        parked += 1
            except StopIteration:
                res = "(raised StopIteration)"
                stops += 1
            except RuntimeError:
                res = "(raised RuntimeError)"
                guard_hits += 1
            except Exception as e:  # the outcome of the operation, not a harness failure
                res = "(raised other %s)" % type(e).__name__
                if name == "send" and isinstance(e, TypeError):
                    rejected += 1
            if "(raised RuntimeError)" in sib:
                guard_hits += 1
            if dropped[0]:
                dropped[0] = False
                gc.collect()     # nothing but the generator's `last_task` refers to the uncomputed task now
            lean_op = [name] if name in ("next", "send", "list") else (op[:2] if name == "take" else op)
            if name == "par":
                lean_op = op[:2] + [op[2][:2] if op[2][0] == "take" else op[2][:1]]
            extra = ""
            if re_at:
                extra = " (re %d %d%s)" % (st0["pulls"], 1 if st0["fin"] else 0, "".join(" " + x for x in relog))
                del relog[:]
            if nest:
                # how far every level BELOW the outermost generator has been advanced, from level nest-1 down to the
                # body: "without consuming more of the generator than needed" is also about the inner generators
                extra += " (inner %s)" % " ".join(
                    "%d %d" % ((pulls[lv], 1 if fin[lv] else 0) if lv else (st0["pulls"], 1 if st0["fin"] else 0))
                    for lv in range(nest - 1, -1, -1))
            lines.append("(obs %s %s %s %d %d %d%s)" % (sx(lean_op), res, sib, cur_pulls(), 1 if cur_fin() else 0, bad[0],
                                                        extra))
    finally:
        if saved_opts is not None:
            for n, v in saved_opts[0].items():
                setattr(asynq.debug.options, n, v)
            sys.stderr, asynq.debug.stdout, asynq.debug.stderr = saved_opts[1:]
    lines.append("(end)")

    nv = n_values(body)
    L = len(body)
    feats = ["len<=%d" % next(b for b in (0, 2, 4, 6, 8, 16, 10**9) if L <= b), "nest=%d" % nest,
             "values=%s" % (nv if nv < 3 else "3+")]
    if L and body[-1][0] == "a":
        feats.append("trailing-await")
    if any(a[0] == "a" and b[0] == "a" for a, b in zip(body, body[1:])):
        feats.append("consecutive-awaits")
    if nv == 0:
        feats.append("no-values")
    if has_marker(body):
        feats.append("marker-payload(outside C17: correspondence only)")
    feats += sorted({"await-kind=%d" % s[1] for s in body if s[0] == "a"})
    if any(s[0] == "a" and s[1] >= 7 for s in body):
        feats.append("multi-await")
    feats += sorted({"value-odd:%s" % ("eq-everything", "falsy", "refuses-bool-eq-hash", "is-a-Value", "empty-list-subclass",
                                       "int-subclass-0", "StopIteration-instance", "GeneratorExit-class")[s[1] % 8]
                     for s in body if s[0] == "v" and WILD <= s[1] < FUT})
    if any(s[0] == "v" and s[1] % 5 == 4 for s in body):
        feats.append("item-is-Value-subclass")
    feats += sorted({"value-is-future:%s" % ("ConstFuture", "computed-task", "uncomputed-task", "unflushed-item")[s[1] % 4]
                     for s in body if s[0] == "v" and s[1] >= FUT})
    if pars:
        feats.append("par")
        feats += sorted({"par-sibling=" + o[2][0] for o in ops if o[0] == "par"})
    if parked:
        feats.append("par:task-started-and-parked-when-sibling-advanced")
    if pars > parked:
        feats.append("par:task-computed-when-sibling-advanced")
    if any(s[0] == "v" and s[1] == 0 for s in body):
        feats.append("value-None")
    feats += sorted({"op=" + o[0] for o in ops})
    feats += sorted({"flag=" + f for f in flags})
    if any(o[0] == "par" and o[2][0] == "next" and len(o[2]) > 1 and o[2][1] for o in ops):
        feats.append("par-sibling-spelled-send(x)")
    if nest:
        feats.append("nested:inner-levels-observed")
    feats += sorted({"next-spelling=%d" % o[1] for o in ops if o[0] == "next" and len(o) > 1})
    feats += sorted({"send-spelling=%d" % o[1] for o in ops if o[0] == "send" and len(o) > 1})
    feats += sorted({"sent-object=%d" % o[2] for o in ops if o[0] == "send" and len(o) > 2})
    feats += sorted({"call-spelling=%d" % o[-1] for o in ops if (o[0] == "take" and len(o) > 2) or (o[0] == "list" and len(o) > 1)})
    if rejected:
        feats.append("send:rejected-by-unstarted-generator")
    if any(o[0] == "send" for o in ops) and rejected < sum(1 for o in ops if o[0] == "send"):
        feats.append("send:not-rejected")
    if re_at:
        feats.append("reenter")
        feats += sorted({"reenter-adv=" + a[0] + ("0" if a == ["take", 0] else "") for a in re_at.values()})
    if any(o[0] == "compute" and o[1] >= sum(1 for p in ops if p[0] in ("next", "par", "send")) for o in ops):
        feats.append("malformed:compute-unknown-future")
    for o in ops:
        if o[0] == "take":
            feats.append("take:n=0" if o[1] == 0 else ("take:n<values" if o[1] < nv else ("take:n=values" if o[1] == nv else "take:n>values")))
    if sum(1 for o in ops if o[0] == "take") >= 2:
        feats.append("repeated-take")
    if guard_hits:
        feats.append("guard-RuntimeError-seen")
    if stops >= 2:
        feats.append("StopIteration-repeated")
    if state["flushes"]:
        feats.append("batch-flushed")
    feats = sorted(set(feats))
    nontrivial = None
    if nv >= 1 and nv < L and len(ops) >= 2:
        nontrivial = hashlib.sha1(json.dumps([body, nest, ops, case.get("re"), case.get("flags")]).encode()).hexdigest()[:16]
    return {"lines": lines, "features": feats, "nontrivial": nontrivial}
