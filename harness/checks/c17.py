"""C17  Async generators deliver their Values in order, and only those.

A generator body (list of steps: await a future | yield Value(v)) is turned into a real @async_generator()
(optionally wrapped in outer generators that iterate it as documented), and a history of caller operations
(next(gen) / compute the k-th returned future / take_first(gen, n) / list_of_generator(gen) / "par": yield the k-th
returned future together with a sibling task that advances the generator, so that the advance happens while that
future has STARTED and is parked on an unflushed batch item) is run on it.  Value payloads include objects that are
equal to everything and futures (ConstFuture, computed and uncomputed tasks, unflushed batch items).
After every operation the result, the number of items the underlying Python generator has yielded, whether it
ran off its end and whether every await was resumed with the result of the awaited future are recorded.
The Lean model (AsynqModel.Lib.Generator) replays the same history (correspondence) and the Lean observer
`Generator.spec` (the statement of C17) judges the implementation's observations on their own.

A small extra stream has bodies with a `Value(END_OF_GENERATOR)` item.  Such a body is OUTSIDE the statement of C17
("returns all the Values" and "END_OF_GENERATOR never appears" contradict each other there - Lean:
C17_marker_payload_unsatisfiable); the model has the item, so the code's behaviour there (the item is dropped, a
manual consumer sees an END_OF_GENERATOR that does not end the generator, take_first overruns) is pinned by the
correspondence, and the driver judges only the clauses that still make sense (no marker in a list, awaits resumed
with the awaited result)."""
import hashlib
import itertools
import json
import random

PID = "C17"
LEVEL = "proof"
LEAN_MODULES = ["AsynqModel.Theorems.C17"]
THEOREMS = [
    # the property (hypothesis of the Value-delivery theorems: noMarker b = no Value(END_OF_GENERATOR) item in the body)
    "AsynqModel.Generator.C17_list",
    "AsynqModel.Generator.C17_take",
    "AsynqModel.Generator.C17_take_stops_at_value",
    "AsynqModel.Generator.C17_no_marker",
    "AsynqModel.Generator.C17_guard",
    "AsynqModel.Generator.C17_guard_started",
    "AsynqModel.Generator.C17_reachable",
    "AsynqModel.Generator.C17_exhausted",
    "AsynqModel.Generator.C17_take_repeat",
    "AsynqModel.Generator.C17_nested_loop",
    "AsynqModel.Generator.C17_nested",
    "AsynqModel.Generator.C17_spec_holds",
    # why noMarker is a hypothesis (the statement is unsatisfiable without it) and what the code does there
    "AsynqModel.Generator.C17_marker_payload_unsatisfiable",
    "AsynqModel.Generator.C17_marker_payload_behaviour",
    # adequacy of the model (the fuel of its structurally recursive loops is never used up - any state, any body)
    "AsynqModel.Generator.C17_loops_within_fuel",
    # holds by construction of the model (first branch of takeFirst); the content is the correspondence run
    "AsynqModel.Generator.C17_take_zero",
]
BY_CONSTRUCTION = ["AsynqModel.Generator.C17_take_zero"]
BUILDS = {"quick": ["py"], "thorough": ["py", "cy"]}
EXHAUSTIVE = {"quick": True, "thorough": True}
RULE = ("every generator body over {await, Value} of length 0-6 (thorough: 0-8) x scripted histories (list; take n for "
        "n = 0..len+1 followed by further take_first/list/next calls; manual next/compute iteration to exhaustion; "
        "advancing at every position while the previous task is uncomputed; two consumers: every returned future yielded "
        "together with a sibling that advances the generator by next / take_first / list_of_generator, i.e. while the "
        "task has started and is parked on an unflushed batch item) with awaits that are ConstFutures, async calls or "
        "items of a harness batch and Value payloads that are plain objects, None, objects equal to everything or futures "
        "(ConstFuture, computed task, uncomputed task, unflushed batch item), plus random bodies of length 7-30 with "
        "random histories and 0-2 levels of nesting; plus (outside the statement, correspondence only) every body of "
        "length 1-4 (thorough 1-5) over {await, Value, Value(END_OF_GENERATOR)} with at least one marker item under the "
        "same scripted histories (nesting 0, and 1 up to length 3) and about 8% of the random bodies; non-trivial = "
        "body with at least one await and one Value and a history of at least 2 operations; distinct by (body, await "
        "kinds, nesting, history) hash")
TRUSTED = [
    "hand-written Lean model AsynqModel.Lib.Generator tied to the code by this differential run only",
    "Python harness checks/c17.py (generator bodies built from step lists, token <-> object identity mapping, pull counter "
    "inside the body)",
    "CPython generator semantics (send / StopIteration), the asynq scheduler (C01-C05) computing the tasks",
]
ASSUMPTIONS = [
    "no Value payload is the END_OF_GENERATOR marker object itself (hypothesis `noMarker b` of C17_list, C17_take, "
    "C17_take_stops_at_value, C17_take_repeat, C17_nested, C17_reachable, C17_spec_holds): for such a payload the "
    "statement contradicts itself (C17_marker_payload_unsatisfiable); what the code does there is modelled "
    "(Step.valueEnd, C17_marker_payload_behaviour) and compared with the code, but not judged as C17",
    "awaited futures succeed (a body whose awaited future raises is outside the statement)",
    "tasks of one generator are computed by the caller that obtained them; a second consumer only ever advances the "
    "generator as a sibling of the pending task in one yield (the scheduler, C03/C04, runs the pending task first and "
    "as far as it gets without flushing a batch); n >= 0 (the code treats n < 0 like 0)",
    "nested generators are outer generators that iterate the inner one as documented (for task in inner: v = yield task; "
    "skip END_OF_GENERATOR; yield Value(v)); their effective body is Generator.wrap of the inner body (Lean: "
    "C17_nested_loop proves that this loop, run over the model of the inner generator, yields exactly `wrap b`; that a "
    "Python generator is characterised by the sequence of items it yields is part of the trusted CPython semantics)",
]
UNKNOWN = 999999
WILD = 50          # value tokens WILD..FUT-1 are objects whose __eq__ answers True to everything
FUT = 1000         # value tokens >= FUT are futures: t % 4 = 0 ConstFuture, 1 computed task, 2 uncomputed task,
                   # 3 item of a harness batch that has not been flushed


# ---------------------------------------------------------------------------------------------------
# case generation
# ---------------------------------------------------------------------------------------------------

def n_values(body):
    return sum(1 for s in body if s[0] == "v")


def has_marker(body):
    return any(s[0] == "e" for s in body)


def mk_body(shape, rng, kind=None):
    """shape: string over 'a'/'v'/'e' -> [["a", kind] | ["v", token] | ["e"]] with distinct value tokens;
    ["e"] is `yield Value(END_OF_GENERATOR)` (outside the statement, see the module docstring)"""
    body = []
    t = 0
    for ch in shape:
        if ch == "a":
            body.append(["a", rng.randrange(4) if kind is None else kind])
        elif ch == "e":
            body.append(["e"])
        else:
            t += 1
            r = rng.random()
            if r < 0.08:
                body.append(["v", 0])              # Value(None)
            elif r < 0.22:
                body.append(["v", WILD + (t % 900)])   # a Value that claims to be equal to everything
            elif r < 0.40:
                body.append(["v", FUT + 4 * t + rng.randrange(4)])   # a Value whose payload is a future
            else:
                body.append(["v", t])
    return body


def manual_ops(body, extra=2):
    """iterate by hand: next, compute, ... until exhausted, then keep asking"""
    ops = []
    k = 0
    pos = 0
    while pos < len(body):
        ops.append(["next"])
        if body[pos][0] != "a":
            pos += 1
        else:
            pos += 1
            while pos < len(body) and body[pos][0] == "a":
                pos += 1
            if pos < len(body):
                pos += 1
        ops.append(["compute", k])
        k += 1
    ops += [["next"]] * extra
    if k:
        ops.append(["compute", 0])
        ops.append(["compute", k - 1])
    return ops


def guard_ops(body, stop_at):
    """iterate by hand up to the stop_at-th future, leave it uncomputed, try to advance in every way, then go on"""
    ops = []
    k = 0
    pos = 0
    while pos < len(body) and k < stop_at:
        ops.append(["next"])
        pos += 1
        if body[pos - 1][0] == "a":
            while pos < len(body) and body[pos][0] == "a":
                pos += 1
            if pos < len(body):
                pos += 1
        ops.append(["compute", k])
        k += 1
    ops += [["next"], ["next"], ["take", 0], ["take", 1], ["list"], ["take", 2], ["compute", k], ["take", 1], ["next"], ["list"], ["next"]]
    return ops


ADVS = [["next"], ["take", 1], ["list"], ["take", 0], ["take", 2]]


def par_ops(body, adv):
    """two consumers: every returned future is yielded together with a sibling that advances the generator"""
    ops = []
    for _ in range(len(body) + 1):
        ops += [["next"], ["par", -1, adv]]
    return ops + [["next"], ["list"], ["par", 0, adv]]


def scripted(body, rng, nest=0):
    L = len(body)
    out = []

    def add(ops):
        out.append({"body": body, "nest": nest, "ops": ops})
    add([["list"], ["list"], ["next"], ["take", 1], ["next"]])
    for n in range(0, L + 2):
        m = rng.randint(0, 3)
        add([["take", n], ["take", 1], ["take", m], ["list"], ["next"], ["next"]])
    add([["take", 1]] * (n_values(body) + 2) + [["next"]])
    # take_first(gen, 0): a no-op at every point - fresh, between calls, while a task is uncomputed, after exhaustion
    add([["take", 0], ["take", 0], ["next"], ["take", 0], ["next"], ["compute", 0], ["take", 0], ["take", 1], ["take", 0],
         ["list"], ["take", 0], ["next"]])
    add(manual_ops(body))
    if any(s[0] == "a" for s in body):
        for adv in ADVS:
            add(par_ops(body, adv))
    for stop_at in range(0, min(L, 4)):
        add(guard_ops(body, stop_at))
    return out


def random_ops(rng, nops):
    ops = []
    k = 0
    for _ in range(nops):
        r = rng.random()
        if r < 0.35:
            ops.append(["next"])
            k += 1
        elif r < 0.65 and k:
            # mostly the newest future (the one that may be pending), sometimes an old one, rarely one that does
            # not exist (malformed stream: the harness's own IndexError, mirrored by the model as `raised other`)
            x = rng.random()
            ops.append(["compute", k - 1 if x < 0.7 else (rng.randrange(k) if x < 0.97 else k + rng.randrange(3))])
        elif r < 0.78 and k:
            ops.append(["par", k - 1 if rng.random() < 0.8 else rng.randrange(k), rng.choice(ADVS)])
            k += 1  # the sibling may have obtained a future (if not, later indices are merely stale)
        elif r < 0.92:
            n = rng.choice([0, 1, 1, 2, 2, 3, 4, 6, 9])
            ops.append(["take", n])
        else:
            ops.append(["list"])
    return ops


def gen_case(rng, length=None):
    L = length if length is not None else rng.choice([1, 2, 3, 5, 7, 8, 10, 12, 16, 22, 30])
    p = rng.choice([0.2, 0.5, 0.5, 0.8])
    shape = "".join("a" if rng.random() < p else "v" for _ in range(L))
    if rng.random() < 0.08:     # outside the statement: some Values carry the marker object itself
        shape = "".join("e" if ch == "v" and rng.random() < 0.4 else ch for ch in shape)
    kind = rng.choice([None, None, 0, 2])
    body = mk_body(shape, rng, kind)
    nest = rng.choice([0, 0, 0, 1, 1, 2])
    return {"body": body, "nest": nest, "ops": random_ops(rng, rng.choice([1, 2, 3, 4, 6, 8, 12]))}


def corpus():
    import glob
    import os
    res = []
    d = os.path.join(os.path.dirname(os.path.dirname(os.path.dirname(os.path.abspath(__file__)))), "corpus", PID)
    for p in sorted(glob.glob(os.path.join(d, "*.json"))):
        with open(p) as f:
            res.append(json.load(f))
    return res


def plan(tier, seed):
    rng = random.Random(seed * 1000003 + 17)
    maxlen = 6 if tier == "quick" else 8
    cases = corpus()
    for L in range(0, maxlen + 1):
        for shape in itertools.product("va", repeat=L):
            shape = "".join(shape)
            kinds = [None, 2] if tier == "quick" else [None, 0, 1, 2, 3]
            for kind in kinds:
                cases += scripted(mk_body(shape, rng, kind), rng, 0)
            if L <= 4:
                cases += scripted(mk_body(shape, rng, None), rng, 1)
            if L <= 3:
                cases += scripted(mk_body(shape, rng, None), rng, 2)
    # outside the statement (correspondence only): bodies with a Value(END_OF_GENERATOR) item
    for L in range(1, (4 if tier == "quick" else 5) + 1):
        for shape in itertools.product("vae", repeat=L):
            if "e" not in shape:
                continue
            shape = "".join(shape)
            cases += scripted(mk_body(shape, rng, None), rng, 0)
            if L <= 3:
                cases += scripted(mk_body(shape, rng, None), rng, 1)
    n = 2500 if tier == "quick" else 40000
    cases += [gen_case(rng) for _ in range(n)]
    return cases


def shrink(case):
    body, ops, nest = case["body"], case["ops"], case["nest"]
    for i in range(len(ops) - 1, -1, -1):
        yield {"body": body, "nest": nest, "ops": ops[:i] + ops[i + 1:]}
    if nest:
        yield {"body": body, "nest": nest - 1, "ops": ops}
    for j in range(len(body)):
        yield {"body": body[:j] + body[j + 1:], "nest": nest, "ops": ops}
    for i, op in enumerate(ops):
        if op[0] == "take" and op[1] > 1:
            yield {"body": body, "nest": nest, "ops": ops[:i] + [["take", op[1] - 1]] + ops[i + 1:]}
    for j, s in enumerate(body):
        if s[0] == "a" and s[1] != 0:
            yield {"body": body[:j] + [["a", 0]] + body[j + 1:], "nest": nest, "ops": ops}
        if s[0] == "v" and s[1] >= WILD:
            yield {"body": body[:j] + [["v", 1 + j]] + body[j + 1:], "nest": nest, "ops": ops}
    for i, op in enumerate(ops):
        if op[0] == "par":
            yield {"body": body, "nest": nest, "ops": ops[:i] + [["compute", op[1]]] + ops[i + 1:]}
            yield {"body": body, "nest": nest, "ops": ops[:i] + [["compute", op[1]], op[2]] + ops[i + 1:]}


def neighbours(case, rng):
    body, ops, nest = case["body"], case["ops"], case["nest"]
    for n in range(0, len(body) + 2):
        yield {"body": body, "nest": nest, "ops": ops + [["take", n], ["list"]]}
    yield {"body": body, "nest": nest, "ops": ops + manual_ops(body)}
    for _ in range(24):
        b = [list(s) for s in body]
        o = [list(x) for x in ops]
        r = rng.random()
        if r < 0.3 and b:
            del b[rng.randrange(len(b))]
        elif r < 0.6:
            b.insert(rng.randint(0, len(b)), rng.choice([["a", rng.randrange(4)], ["v", rng.randint(1, 9)], ["v", WILD + 1]]
                                                        + ([["e"]] if has_marker(body) else [])))
        elif o:
            o[rng.randrange(len(o))] = random_ops(rng, 1)[0]
        o.insert(rng.randint(0, len(o)), random_ops(rng, 1)[0])
        yield {"body": b, "nest": nest, "ops": o}


def signature(case, v):
    # the failing clause and the kind of operation it fails at, e.g. "fail:guard@take" or "fail:take-zero@take0"
    # (for a body with a marker payload only "fail:end-marker" / "fail:await-result" are possible)
    return v["spec"]


# ---------------------------------------------------------------------------------------------------
# implementation side
# ---------------------------------------------------------------------------------------------------

class Wild(object):
    """a perfectly ordinary value for a generator to yield; it just compares equal to everything"""

    def __init__(self, t):
        self.t = t

    def __eq__(self, other):
        return True

    def __ne__(self, other):
        return False

    def __hash__(self):
        return 7


class Plain(object):
    def __init__(self, t):
        self.t = t


def run_case(case):
    import asynq
    from asynq import batching, futures
    from asynq.generator import END_OF_GENERATOR, Value, async_generator, list_of_generator, take_first

    body, nest, ops = case["body"], case["nest"], case["ops"]

    # ---- a batch kind of the harness: an await on one of its items blocks until the scheduler flushes it
    state = {"batch": None, "flushes": 0}

    class HBatch(batching.BatchBase):
        def _try_switch_active_batch(self):
            if state["batch"] is self:
                state["batch"] = None

        def _flush(self):
            state["flushes"] += 1
            for it in self.items:
                it.set_value(it.answer)

        def _cancel(self):
            pass

    class HItem(batching.BatchItemBase):
        def __init__(self, answer):
            if state["batch"] is None:
                state["batch"] = HBatch()
            super(HItem, self).__init__(state["batch"])
            self.answer = answer

    @asynq.asynq()
    def echo(x):
        return x

    @asynq.asynq()
    def echo_via_batch(x):
        r = yield HItem(x)
        return r

    vals = {}
    for s in body:
        if s[0] == "v":
            t = s[1]
            if t == 0:
                vals[t] = None
            elif t < WILD:
                vals[t] = Plain(t)
            elif t < FUT:
                vals[t] = Wild(t)
            elif t % 4 == 0:
                vals[t] = futures.ConstFuture(Plain(t))
            elif t % 4 == 1:
                vals[t] = echo.asynq(Plain(t))
                vals[t].value()
            elif t % 4 == 2:
                vals[t] = echo.asynq(Plain(t))
            else:
                vals[t] = HItem(Plain(t))
    val_tok = {id(v): t for t, v in vals.items() if v is not None}

    pulls = [0] * (nest + 1)
    fin = [False] * (nest + 1)
    bad = [0]

    @async_generator()
    def base():
        for j, s in enumerate(body):
            pulls[0] += 1
            if s[0] == "a":
                expected = Plain(-j)
                k = s[1]
                if k == 0:
                    f = futures.ConstFuture(expected)
                elif k == 1:
                    f = echo.asynq(expected)
                elif k == 2:
                    f = HItem(expected)
                else:
                    f = echo_via_batch.asynq(expected)
                got = yield f
                if got is not expected:
                    bad[0] += 1
            elif s[0] == "e":
                yield Value(END_OF_GENERATOR)      # the payload is the marker object itself
            else:
                yield Value(vals[s[1]])
        fin[0] = True

    @async_generator()
    def outer(inner, level):
        # the documented way of consuming an async generator, re-yielding its Values
        for task in inner:
            pulls[level] += 1
            value = yield task
            if value is END_OF_GENERATOR:
                continue
            pulls[level] += 1
            yield Value(value)
        fin[level] = True

    gen = base()
    for level in range(1, nest + 1):
        gen = outer(gen, level)

    def tok(v):
        if v is END_OF_GENERATOR:
            return "end"
        if v is None:
            return "0"
        return str(val_tok.get(id(v), UNKNOWN))

    def sx(x):
        return "(%s)" % " ".join(sx(y) if isinstance(y, list) else str(y) for y in x)

    def lst(r):
        return ("(lst %s)" % " ".join(tok(x) for x in r)).replace("(lst )", "(lst)") if isinstance(r, list) \
            else "(raised other NotAList)"

    def futres(f):
        return "(fut %s)" % (tok(f.value()) if f.is_computed() else "none")

    def run_par(fk, adv):
        """`yield fk, sibling.asynq()`: the scheduler runs fk first as far as it gets without a flush, then the sibling"""
        info = {}

        @asynq.asynq()
        def sibling():
            info["kdone"] = fk.is_computed()
            try:
                if adv[0] == "next":
                    return ("fut", next(gen))
                elif adv[0] == "take":
                    r = yield take_first.asynq(gen, adv[1])
                    return ("lst", r)
                else:
                    r = yield list_of_generator.asynq(gen)
                    return ("lst", r)
            except StopIteration:
                return ("raised", "StopIteration")
            except RuntimeError:
                return ("raised", "RuntimeError")
            except Exception as e:  # noqa
                return ("raised", "other " + type(e).__name__)

        @asynq.asynq()
        def consumer():
            first, second = yield fk, sibling.asynq()
            return first, second

        first, second = consumer()
        if second[0] == "fut":
            held.append(second[1])
            r2 = futres(second[1])
        elif second[0] == "lst":
            r2 = lst(second[1])
        else:
            r2 = "(raised %s)" % second[1]
        return "(item %s)" % tok(first), "(sib %d %s)" % (1 if info.get("kdone") else 0, r2)

    bs = " ".join("(a %d)" % (1 if s[1] >= 2 else 0) if s[0] == "a" else ("(ve)" if s[0] == "e" else "(v %d)" % s[1])
                  for s in body)
    lines = ["(case generator %d (body %s) (nest %d))" % (case["id"], bs, nest)]
    held = []
    guard_hits = 0
    stops = 0
    pars = 0
    parked = 0
    for op in ops:
        name = op[0]
        op = list(op)
        if name in ("compute", "par") and op[1] < 0:
            op[1] = max(len(held) - 1, 0)      # "the most recent future"
        sib = "-"
        try:
            if name == "next":
                f = next(gen)
                held.append(f)
                res = futres(f)
            elif name == "compute":
                res = "(item %s)" % tok(held[op[1]].value())
            elif name == "take":
                res = lst(take_first(gen, op[1]))
            elif name == "list":
                res = lst(list_of_generator(gen))
            elif name == "par":
                res, sib = run_par(held[op[1]], op[2])
                pars += 1
                if sib.startswith("(sib 0"):
                    parked += 1
            else:
                raise ValueError(name)
        except StopIteration:
            res = "(raised StopIteration)"
            stops += 1
        except RuntimeError:
            res = "(raised RuntimeError)"
            guard_hits += 1
        except Exception as e:  # the outcome of the operation, not a harness failure
            res = "(raised other %s)" % type(e).__name__
        if "(raised RuntimeError)" in sib:
            guard_hits += 1
        lines.append("(obs %s %s %s %d %d %d)" % (sx(op), res, sib, pulls[nest], 1 if fin[nest] else 0, bad[0]))
    lines.append("(end)")

    nv = n_values(body)
    L = len(body)
    feats = ["len<=%d" % next(b for b in (0, 2, 4, 6, 8, 16, 10**9) if L <= b), "nest=%d" % nest,
             "values=%s" % (nv if nv < 3 else "3+")]
    if L and body[-1][0] == "a":
        feats.append("trailing-await")
    if any(a[0] == "a" and b[0] == "a" for a, b in zip(body, body[1:])):
        feats.append("consecutive-awaits")
    if nv == 0:
        feats.append("no-values")
    if has_marker(body):
        feats.append("marker-payload(outside C17: correspondence only)")
    feats += sorted({"await-kind=%d" % s[1] for s in body if s[0] == "a"})
    if any(s[0] == "v" and WILD <= s[1] < FUT for s in body):
        feats.append("value-eq-everything")
    feats += sorted({"value-is-future:%s" % ("ConstFuture", "computed-task", "uncomputed-task", "unflushed-item")[s[1] % 4]
                     for s in body if s[0] == "v" and s[1] >= FUT})
    if pars:
        feats.append("par")
        feats += sorted({"par-sibling=" + o[2][0] for o in ops if o[0] == "par"})
    if parked:
        feats.append("par:task-started-and-parked-when-sibling-advanced")
    if pars > parked:
        feats.append("par:task-computed-when-sibling-advanced")
    if any(s[0] == "v" and s[1] == 0 for s in body):
        feats.append("value-None")
    feats += sorted({"op=" + o[0] for o in ops})
    if any(o[0] == "compute" and o[1] >= sum(1 for p in ops if p[0] in ("next", "par")) for o in ops):
        feats.append("malformed:compute-unknown-future")
    for o in ops:
        if o[0] == "take":
            feats.append("take:n=0" if o[1] == 0 else ("take:n<values" if o[1] < nv else ("take:n=values" if o[1] == nv else "take:n>values")))
    if sum(1 for o in ops if o[0] == "take") >= 2:
        feats.append("repeated-take")
    if guard_hits:
        feats.append("guard-RuntimeError-seen")
    if stops >= 2:
        feats.append("StopIteration-repeated")
    if state["flushes"]:
        feats.append("batch-flushed")
    feats = sorted(set(feats))
    nontrivial = None
    if nv >= 1 and nv < L and len(ops) >= 2:
        nontrivial = hashlib.sha1(json.dumps([body, nest, ops]).encode()).hexdigest()[:16]
    return {"lines": lines, "features": feats, "nontrivial": nontrivial}
