"""Round-4 families of the core checks (C03-C08): behaviour that needs TWO features at once or a rarely used public entry
point - fn.asyncio() start order, asynq.tools.AsyncEventHook, DebugBatchItem on two threads, flush hooks across a guard
reset, tools.call_with_context, a running task awaited by a computation it started itself.  All of it lies outside the
machine's language, so each family drives the REAL library through public API and is judged by a direct expectation
written in lean/Driver.lean (mode of the same name): the expectation is the property's statement for that family.
Shared rules: public API only, objects mapped to small numbers / names, nothing compared by repr / address / time."""
import json



def let_timeouts_through(e):
    """`except BaseException` around code of the implementation must not swallow the worker's per-case watchdog
    (worker.CaseTimeout): a hang is reported as a hang (and the worker restarted), not as an outcome `raised-CaseTimeout`"""
    if type(e).__name__ == "CaseTimeout":
        raise e


def _sx(x):
    from corerun import sx
    return sx(x)


def _ename(e):
    return type(e).__name__


# =====================================================================================================================
# aiostart (C03): start order and laziness of tasks under fn.asyncio() and under the scheduler
# =====================================================================================================================

AIOSTART_KINDS = ["gen", "pure", "meth", "proxy", "plain", "dedup"]
AIOSTART_MODES = ["call", "value", "aiorun", "aionested"]


def aiostart_cases(tier, rng):
    """root creates its children in one order (`create`), yields them together in another (`yields`: one flat list or tuple
    per yield, in the order written), and some children are never yielded (`orphans`)"""
    cases = []
    # the seeds of the family, then random ones
    cases.append({"special": "aiostart", "yields": [["b", "a"], ["d", "c"]], "shapes": ["lst", "tup"], "create": ["o", "a", "b", "c", "d"],
                  "orphans": ["o"], "kinds": {}, "depth": {}, "early": 1})
    cases.append({"special": "aiostart", "yields": [["a"]], "shapes": ["lst"], "create": ["a", "o"], "orphans": ["o"], "kinds": {"o": "pure"},
                  "depth": {}, "early": 1})
    for _ in range(40 if tier == "quick" else 600):
        names = list("abcdefghij"[:rng.randint(1, 7)])
        rng.shuffle(names)
        ny = rng.randint(1, min(3, len(names)))
        cuts = sorted(rng.sample(range(1, len(names)), ny - 1)) if ny > 1 else []
        yields = [names[i:j] for i, j in zip([0] + cuts, cuts + [len(names)])]
        orphans = ["o%d" % i for i in range(rng.choice([0, 1, 1, 2]))]
        create = names + orphans
        rng.shuffle(create)
        allnames = names + orphans
        kinds = {n: rng.choice(AIOSTART_KINDS) for n in allnames if rng.random() < 0.6}
        depth = {n: rng.randint(1, 3) for n in allnames if rng.random() < 0.4}
        cases.append({"special": "aiostart", "yields": yields, "shapes": [rng.choice(["lst", "tup"]) for _ in yields], "create": create,
                      "orphans": orphans, "kinds": kinds, "depth": depth, "early": rng.choice([0, 1, 1])})
    return cases


def run_aiostart(case):
    """C03: 'tasks that are first scheduled by being yielded together in a list or tuple start in the order written, and a
    task that was created but never yielded or waited on never starts' - for fn(args), fn.asynq(args).value() AND for
    `await fn.asyncio(args)` under an event loop (where .asynq() of every kind of function hands out a lazy coroutine).
    Every child logs its start and its end; children of depth d await d grandchildren in a row."""
    import asyncio
    import warnings
    import asynq
    from asynq.tools import deduplicate

    yields, shapes, create = case["yields"], case["shapes"], case["create"]
    kinds, depth, early = case.get("kinds", {}), case.get("depth", {}), case.get("early", 1)
    lines = ["(case aiostart %d %s %s)" % (case["id"], _sx(["yields"] + yields), _sx(["orphans"] + case["orphans"]))]
    for mode in AIOSTART_MODES:
        log = []

        @asynq.asynq()
        def grand(name, i):
            return i

        def body(name, d):
            log.append(["start", name])
            for i in range(d):
                yield grand.asynq(name, i)
            log.append(["end", name])
            return name

        gen_child = asynq.asynq()(body)
        pure_child = asynq.asynq(pure=True)(body)
        dedup_child = deduplicate()(asynq.asynq()(body))

        class Obj(object):
            @asynq.asynq()
            def child(self, name, d):
                return (yield from body(name, d))

        obj = Obj()

        @asynq.async_proxy()
        def proxy_child(name, d):
            return gen_child.asynq(name, d)

        @asynq.asynq()
        def plain_child(name, d):
            log.append(["start", name])
            log.append(["end", name])
            return name

        def make(name):
            k, d = kinds.get(name, "gen"), depth.get(name, 0)
            if k == "pure":
                return pure_child(name, d)
            if k == "meth":
                return obj.child.asynq(name, d)
            if k == "proxy":
                return proxy_child.asynq(name, d)
            if k == "plain":
                return plain_child.asynq(name, d)
            if k == "dedup":
                return dedup_child.asynq(name, d)
            return gen_child.asynq(name, d)

        @asynq.asynq()
        def root():
            made = {}
            if early:
                for n in create:
                    made[n] = make(n)
            got = []
            for ys, sh in zip(yields, shapes):
                if not early:
                    # created just before the yield that awaits them, still in the order of `create`
                    for n in create:
                        if n in ys or (n in case["orphans"] and n not in made):
                            made[n] = make(n)
                struct = [made[n] for n in ys]
                res = yield (tuple(struct) if sh == "tup" else struct)
                got.append(list(res))
            return got

        asynq.scheduler.reset()
        with warnings.catch_warnings():
            warnings.simplefilter("ignore")          # "coroutine ... was never awaited" for the orphans
            try:
                if mode == "call":
                    got = root()
                elif mode == "value":
                    got = root.asynq().value()
                elif mode == "aiorun":
                    got = asyncio.run(root.asyncio())
                else:
                    async def ticker():
                        for _ in range(3):
                            await asyncio.sleep(0)

                    async def main():
                        t = asyncio.ensure_future(ticker())
                        r = await root.asyncio()
                        await t
                        # give anything that was scheduled behind our back a chance to run before the loop closes
                        for _ in range(3):
                            await asyncio.sleep(0)
                        return r
                    got = asyncio.run(main())
                out = "ok" if got == yields else "wrong-values"
            except BaseException as e:
                let_timeouts_through(e)
                out = "raised-" + _ename(e)
            import gc
            gc.collect()
        asynq.scheduler.reset()
        starts = [n for ev, n in log if ev == "start"]
        ends = [n for ev, n in log if ev == "end"]
        lines.append("(result %s %s %s %s)" % (mode, out, _sx(starts), _sx(ends)))
    lines.append("(end)")
    return {"lines": lines, "features": ["family=aiostart", "aiostart-orphans=%d" % len(case["orphans"]), "aiostart-yields=%d" % len(yields)]
            + sorted({"aiostart-kind=" + k for k in kinds.values()}),
            "nontrivial": "aiostart-" + json.dumps([yields, create, sorted(kinds.items()), sorted(depth.items())])[:200]}


# =====================================================================================================================
# eventhook (C04, C05): asynq.tools.AsyncEventHook.trigger / safe_trigger next to sibling tasks
# =====================================================================================================================

EVENTHOOK_KINDS = ["async", "plain", "rasync", "rplain"]


def eventhook_cases(tier, rng):
    cases = []
    # (the shape of the stored demo first: three async handlers, two siblings, chain 1 and 3, one failing)
    for d in (1, 2, 3):
        for mode in ("safe", "trigger"):
            cases.append({"special": "eventhook", "mode": mode, "entry": "yield", "items": "debug", "handlers": [["async", d]] * 3, "siblings": [d, d]})
            cases.append({"special": "eventhook", "mode": mode, "entry": "yield", "items": "harness",
                          "handlers": [["async", d], ["rasync", d], ["async", d]], "siblings": [d, d]})
    for _ in range(60 if tier == "quick" else 800):
        n = rng.randint(1, 5)
        hs = []
        for _i in range(n):
            k = rng.choices(EVENTHOOK_KINDS, weights=[6, 2, 2, 1])[0]
            hs.append([k, rng.randint(1, 3) if k in ("async", "rasync") else 0])
            if k == "rasync" and rng.random() < 0.3:
                hs[-1][1] = 0         # fails before awaiting anything
        entry = rng.choice(["yield", "yield", "yield", "sync"])
        sib = [rng.randint(1, 3) for _ in range(rng.randint(0, 3))] if entry == "yield" else []
        cases.append({"special": "eventhook", "mode": rng.choice(["safe", "trigger"]), "entry": entry,
                      "items": rng.choice(["harness", "debug"]), "handlers": hs, "siblings": sib})
    return cases


def run_eventhook(case):
    """C04 ('a computation using a single batch type performs exactly as many flushes as its longest chain of sequentially
    dependent requests', 'all requests that can be issued before a flush travel in that flush') and C05 (before/after events
    once around each flush) for computations that go through asynq.tools.AsyncEventHook: `trigger` / `safe_trigger` with
    async and plain handlers, each async handler awaiting a chain of requests of ONE batch kind, next to sibling tasks
    doing the same.  What the hook promises (tools.py): all async handlers run concurrently, plain handlers are called
    normally; under safe_trigger a raising handler does not stop the others and the first error (handler order) is
    re-raised at the end; under trigger a raising PLAIN handler stops the event like qcore.EventHook does."""
    import asynq
    from asynq import batching
    from asynq.tools import AsyncEventHook

    mode, entry, hs, sibs = case["mode"], case["entry"], case["handlers"], case["siblings"]
    n = len(hs)
    calls = []
    flushes = []
    nevents = [0, 0]
    owner = {}

    class B(batching.BatchBase):
        def _try_switch_active_batch(self):
            if cur[0] is self:
                cur[0] = B()

        def _flush(self):
            for it in self.items:
                it.set_value(it.payload)

    class I(batching.BatchItemBase):
        def __init__(self, payload):
            batching.BatchItemBase.__init__(self, cur[0])
            self.payload = payload

    cur = [B()]
    bname = "eventhook-%d" % case["id"]

    def request(p, level):
        it = I((p, level)) if case["items"] == "harness" else batching.DebugBatchItem(bname, (p, level))
        owner[id(it)] = p
        keep.append(it)
        return it

    keep = []

    class Boom(Exception):
        pass

    errs = [Boom("handler %d" % i) for i in range(n)]

    def make_handler(i, kind, chain):
        if kind in ("async", "rasync"):
            @asynq.asynq()
            def handler(tag):
                calls.append(i)
                for level in range(chain):
                    v = yield request(i, level)
                    if v != (i, level):
                        calls.append(1000 + i)       # a wrong answer shows up as an impossible call
                if kind == "rasync":
                    raise errs[i]
                return tag
            return handler

        def plain(tag):
            calls.append(i)
            if kind == "rplain":
                raise errs[i]
            return tag
        return plain

    hook = AsyncEventHook([make_handler(i, k, c) for i, (k, c) in enumerate(hs)])

    @asynq.asynq()
    def sibling(p, chain):
        for level in range(chain):
            yield request(p, level)
        return p

    @asynq.asynq()
    def root():
        fn = hook.safe_trigger if mode == "safe" else hook.trigger
        yield tuple([fn.asynq("tag")] + [sibling.asynq(n + j, c) for j, c in enumerate(sibs)])
        return "done"

    asynq.scheduler.reset()
    sched = asynq.scheduler.get_scheduler()

    def before(batch):
        nevents[0] += 1
        flushes.append(sorted(owner.get(id(it), 999) for it in batch.items))

    def after(batch):
        nevents[1] += 1

    sched.on_before_batch_flush.subscribe(before)
    sched.on_after_batch_flush.subscribe(after)
    try:
        if entry == "yield":
            root()
        elif mode == "safe":
            hook.safe_trigger("tag")
        else:
            hook.trigger("tag")
        out = "ok"
    except Boom as e:
        out = "err-%d" % errs.index(e) if e in errs else "err-unknown"
    except BaseException as e:
        let_timeouts_through(e)
        out = "raised-" + _ename(e)
    clean = "(clean %d %d %d)" % (1 if (len(sched._tasks) == 0 and sched.active_task is None) else 0, len(sched._batches),
                                  sum(1 for b in sched._batches if b.items and not b.is_flushed()))
    asynq.scheduler.reset()
    lines = ["(case eventhook %d %s %s %s %s)" % (case["id"], mode, entry, _sx(["handlers"] + hs), _sx(["siblings"] + sibs)),
             "(result %s %s %s %d %d %s)" % (out, _sx(sorted(calls)), _sx(flushes), nevents[0], nevents[1], clean), "(end)"]
    return {"lines": lines, "features": ["family=eventhook", "eventhook=" + mode, "eventhook-entry=" + entry, "eventhook-items=" + case["items"]]
            + sorted({"eventhook-handler=" + k for k, _ in hs}),
            "nontrivial": "eventhook-" + json.dumps([mode, entry, hs, sibs])}


# =====================================================================================================================
# debugthreads (C04): asynq.batching.DebugBatchItem / debug.sync() under ONE name on two threads
# =====================================================================================================================

def debugthreads_cases(tier, rng):
    cases = []
    for la in (2, 3):
        for ca in (1, 2, 3):
            for when in ("start", "level"):
                cases.append({"special": "debugthreads", "a": [ca] * la, "b": [1], "pause": [1, 0 if when == "start" else ca - 1], "api": "item"})
    for _ in range(12 if tier == "quick" else 150):
        a = [rng.randint(1, 3) for _ in range(rng.randint(1, 4))]
        b = [rng.randint(1, 3) for _ in range(rng.randint(1, 3))]
        leaf = rng.randrange(len(a))
        cases.append({"special": "debugthreads", "a": a, "b": b, "pause": [leaf, rng.randrange(a[leaf] + 1)], "api": rng.choice(["item", "sync"])})
    return cases


def run_debugthreads(case):
    """C04 with asynq's own DebugBatchItem (batching.py; debug.sync() is the same thing) on two threads using the SAME
    batch name: every thread has its own scheduler and its own debug batches, so a computation keeps its own flush count
    (= its longest chain) and every flush carries exactly the requests of ITS tasks that were issuable, whatever the other
    thread does meanwhile.  Thread A runs a tree of len(a) leaves with chains a[i]; leaf pause[0] stops in plain Python code
    (before its request number pause[1], or at its end) until thread B has run a complete computation of its own."""
    import threading
    import asynq
    from asynq import batching

    a, b = case["a"], case["b"]
    pleaf, plevel = case["pause"]
    name = "dbgthreads-%d" % case["id"]
    owner = {}
    keep = []
    flushes = {"A": [], "B": []}
    foreign = []
    outs = {}
    go_b = threading.Event()
    b_done = threading.Event()
    # rendezvous budget: thread B's whole computation takes microseconds; 20 s (two thirds of the per-case watchdog) only ever
    # expires on a machine that is not scheduling the process at all - reported as `raised-RuntimeError`, never silently
    T = 20

    def request(who, p, level):
        if case["api"] == "sync":
            it = asynq.debug.sync(name)
        else:
            it = batching.DebugBatchItem(name, (who, p, level))
        owner[id(it)] = (who, p)
        keep.append(it)
        return it

    def install(who):
        def before(batch):
            own = sorted(owner[id(i)][1] for i in batch.items if id(i) in owner and owner[id(i)][0] == who)
            other = [1 for i in batch.items if owner.get(id(i), (who,))[0] != who]
            flushes[who].append(own)
            if other:
                foreign.append(who)
        asynq.scheduler.get_scheduler().on_before_batch_flush.subscribe(before)

    def rendezvous():
        go_b.set()
        if not b_done.wait(T):
            raise RuntimeError("other thread did not finish")

    @asynq.asynq()
    def leaf(who, p, chain):
        for level in range(chain):
            if who == "A" and p == pleaf and level == plevel:
                rendezvous()
            yield request(who, p, level)
        if who == "A" and p == pleaf and plevel >= chain:
            rendezvous()
        return p

    @asynq.asynq()
    def tree(who, chains):
        got = yield [leaf.asynq(who, p, c) for p, c in enumerate(chains)]
        return got

    def main(who, chains):
        try:
            asynq.scheduler.reset()
            install(who)
            if who == "B" and not go_b.wait(T):
                raise RuntimeError("thread A did not get to its rendezvous")
            got = tree(who, chains)
            outs[who] = "ok" if got == list(range(len(chains))) else "wrong-values"
        except BaseException as e:
            let_timeouts_through(e)
            outs[who] = "raised-" + _ename(e)
        finally:
            if who == "B":
                b_done.set()
            else:
                go_b.set()
            asynq.scheduler.reset()

    ths = [threading.Thread(target=main, args=("A", a)), threading.Thread(target=main, args=("B", b))]
    for t in ths:
        t.start()
    for t in ths:
        t.join(T + 5)
    lines = ["(case debugthreads %d %s %s)" % (case["id"], _sx(["a"] + a), _sx(["b"] + b)),
             "(result A %s %s)" % (outs.get("A", "no-outcome"), _sx(flushes["A"])),
             "(result B %s %s)" % (outs.get("B", "no-outcome"), _sx(flushes["B"])),
             "(foreign %d)" % len(foreign), "(end)"]
    return {"lines": lines, "features": ["family=debugthreads", "debugthreads-api=" + case["api"]],
            "nontrivial": "debugthreads-" + json.dumps([a, b, case["pause"], case["api"]])}


# =====================================================================================================================
# hookssurvive (C05): the scheduler's public flush events across a MAX_TASK_STACK_SIZE reset / TaskScheduler.reset()
# =====================================================================================================================

def hookssurvive_cases(tier, rng):
    cases = []
    for k in (1, 2, 3):
        for width in (1, 2):
            # second audit 7b: batch.flush() ITSELF raises (BatchBase.flush swallows what _flush raises, so `raises`=1 never
            # reaches the try/finally of TaskScheduler._flush_batch)
            cases.append({"special": "hookssurvive", "how": "flush-raises", "k": k, "times": 1, "width": width, "raises": 0})
    for how in ("guard", "guard-nested", "method-reset", "none", "module-reset"):
        for k in (1, 2, 3):
            for times in ((1,) if how in ("none",) else (1, 2)):
                cases.append({"special": "hookssurvive", "how": how, "k": k, "times": times, "width": 2, "raises": 0})
    for _ in range(10 if tier == "quick" else 100):
        cases.append({"special": "hookssurvive", "how": rng.choice(["guard", "guard-nested", "method-reset", "module-reset"]), "k": rng.randint(1, 4),
                      "times": rng.randint(1, 3), "width": rng.randint(1, 4), "raises": rng.choice([0, 0, 1])})
    return cases


def run_hookssurvive(case):
    """C05: 'the before/after flush events fire exactly once around each scheduler flush, the after event even when the
    flush fails' - also for computations that run AFTER an earlier computation was stopped by the runaway-recursion guard
    (MAX_TASK_STACK_SIZE: the scheduler object resets ITSELF and stays the thread's scheduler, so handlers subscribed to
    its public events must still be there), after TaskScheduler.reset() called on the same object, and - for comparison -
    after asynq.scheduler.reset(), which installs a NEW scheduler object (handlers of the old one see nothing more, handlers
    subscribed to the new one see everything)."""
    import asynq
    from asynq import batching

    how, k, times, width = case["how"], case["k"], case["times"], case["width"]
    log = []

    class B(batching.BatchBase):
        def __init__(self, seq):
            batching.BatchBase.__init__(self)
            self.seq = seq

        def _try_switch_active_batch(self):
            if cur[0] is self:
                cur[0] = B(self.seq + 1)

        def _flush(self):
            log.append("body")
            for it in self.items:
                it.set_value(it.payload)
            if case.get("raises"):
                raise RuntimeError("flush raises")

        def flush(self):
            batching.BatchBase.flush(self)
            if state["flush_raises"] is not None:
                raise state["flush_raises"]

    class I(batching.BatchItemBase):
        def __init__(self, payload):
            batching.BatchItemBase.__init__(self, cur[0])
            self.payload = payload

    cur = [B(0)]
    state = {"flush_raises": None}

    @asynq.asynq()
    def chain(p, n):
        for level in range(n):
            try:
                yield I((p, level))
            except RuntimeError:
                pass
        return p

    @asynq.asynq()
    def comp():
        return (yield [chain.asynq(p, k) for p in range(width)])

    @asynq.asynq()
    def fan_out(n):
        return (yield [chain.asynq(100 + i, 0) for i in range(n)])

    @asynq.asynq()
    def nested_overflow():
        yield chain.asynq(50, 0)
        try:
            fan_out(60)
        except RuntimeError as e:
            return "guard"        # (whatever the message says: a RuntimeError out of a computation that overflows the limit)
        return "no-guard"

    asynq.scheduler.reset()
    sched = asynq.scheduler.get_scheduler()
    sched.on_before_batch_flush.subscribe(lambda b: log.append("before"))
    sched.on_after_batch_flush.subscribe(lambda b: log.append("after"))
    first = "ok"
    try:
        if comp() != list(range(width)):
            first = "wrong-values"
    except BaseException as e:
        let_timeouts_through(e)
        first = "raised-" + _ename(e)
    log1 = list(log)
    del log[:]
    mid = []
    unavailable = []
    for _ in range(times):
        if how in ("guard", "guard-nested"):
            old = asynq.debug.options.MAX_TASK_STACK_SIZE
            asynq.debug.options.MAX_TASK_STACK_SIZE = 12
            try:
                if how == "guard":
                    try:
                        fan_out(60)
                        mid.append("no-guard")
                    except RuntimeError as e:
                        mid.append("guard")
                else:
                    try:
                        mid.append(nested_overflow())
                    except RuntimeError as e:
                        mid.append("guard-escaped")
            except BaseException as e:
                let_timeouts_through(e)
                mid.append("raised-" + _ename(e))
            finally:
                asynq.debug.options.MAX_TASK_STACK_SIZE = old
        elif how == "method-reset":
            # (in the compiled build TaskScheduler.reset is a C-level method, not callable from Python: the step is empty there)
            if hasattr(sched, "reset"):
                sched.reset()
            else:
                unavailable.append(1)
            mid.append("reset")
        elif how == "module-reset":
            asynq.scheduler.reset()
            mid.append("reset")
        elif how == "flush-raises":
            # a computation whose FIRST flush raises out of batch.flush(): the after event must still fire, the error leaves
            # value(); recorded raw: outcome + the events of that computation
            del log[:]
            flush_boom = RuntimeError("batch.flush() raises")
            state["flush_raises"] = flush_boom
            try:
                comp()
                o = "no-error"
            except RuntimeError as e:
                o = "raised-flush-error" if e is flush_boom else "raised-other-RuntimeError"
            except BaseException as e:
                let_timeouts_through(e)
                o = "raised-" + _ename(e)
            finally:
                state["flush_raises"] = None
            mid.append(o + ":" + ".".join(log))
            cur[0] = B(cur[0].seq + 1)      # (the items of the failed computation stay in the abandoned batch)
        else:
            mid.append("none")
    same = 1 if asynq.scheduler.get_scheduler() is sched else 0
    log_new = []
    if not same:
        s2 = asynq.scheduler.get_scheduler()
        s2.on_before_batch_flush.subscribe(lambda b: log_new.append("before"))
        s2.on_after_batch_flush.subscribe(lambda b: log_new.append("after"))
    del log[:]
    second = "ok"
    try:
        if comp() != list(range(width)):
            second = "wrong-values"
    except BaseException as e:
        let_timeouts_through(e)
        second = "raised-" + _ename(e)
    log2 = list(log)
    asynq.scheduler.reset()
    lines = ["(case hookssurvive %d %s %d)" % (case["id"], how, k),
             "(result %s %s %s %s %d %s %s)" % (first, _sx(log1), second, _sx(log2), same, _sx(log_new), _sx(mid)), "(end)"]
    return {"lines": lines, "features": ["family=hookssurvive", "hookssurvive=" + how + ("-unavailable-in-this-build" if unavailable else "")],
            "nontrivial": "hookssurvive-" + json.dumps(
        [how, k, times, width, case.get("raises")])}


# =====================================================================================================================
# callctx (C07, C06): asynq.tools.call_with_context
# =====================================================================================================================

CALLCTX_KINDS = ["gen", "proxy-task", "proxy-const", "acall-plain", "acall-gen", "wrapper", "dedup", "meth", "pure"]


def callctx_cases(tier, rng):
    cases = []

    def call(kind, chain, via="cwc"):
        return {"kind": kind, "chain": chain, "via": via}

    for kind in CALLCTX_KINDS:
        for via in ("cwc", "with"):
            cases.append({"special": "callctx", "outer": [None, None], "entry": "yield", "calls": [call(kind, [["S", 5]], via), call("gen", [], "cwc"),
                                                                                                   call(kind, [["A", 7]], via)]})
            cases.append({"special": "callctx", "outer": [3, None], "entry": "sync", "calls": [call(kind, [["S", 5], ["L", 0], ["A", 6]], via)]})
    for _ in range(60 if tier == "quick" else 900):
        entry = rng.choice(["yield", "yield", "sync"])
        calls = []
        for _i in range(1 if entry == "sync" else rng.randint(1, 4)):
            chain = []
            for _j in range(rng.choice([0, 1, 1, 1, 2, 2, 3])):
                v = rng.choice(["S", "S", "A", "L"])
                chain.append([v, rng.randint(1, 9) if v != "L" else 0])
            calls.append(call(rng.choice(CALLCTX_KINDS), chain, rng.choice(["cwc", "cwc", "cwc", "with"])))
        cases.append({"special": "callctx", "outer": [rng.choice([None, None, rng.randint(10, 19)]), rng.choice([None, None, rng.randint(20, 29)])],
                      "entry": entry, "calls": calls})
    return cases


def run_callctx(case):
    """C07 ('a value read ... inside any task is the one established by the innermost enclosing override in that task or in
    the tasks awaiting it - exactly what the same code would read if run sequentially - and after the computation ends ...
    every overridden value is back') and C06 (resume / pause alternate, starting with a resume on entry and ending with a
    pause on exit) for asynq.tools.call_with_context(context, fn, *args): 'calls fn in the given with context'.  The
    sequential reading is `with context: fn(*args)`: EVERYTHING fn.asynq(*args) does - the code an @async_proxy function, an
    async_call target or a make_async_decorator wrapper runs at call time, and the task's body before and after a flush -
    reads the override.  Variables: S an AsyncScopedValue, A an attribute under async_override (both default 0); L a
    harness AsyncContext that only logs.  Each call runs through a chain of 0-3 nested call_with_context (or, for
    comparison, plain `with` blocks in a task of its own), several calls concurrently in one yield, optionally inside
    overrides of the root."""
    import asynq
    from asynq import batching, contexts
    from asynq.tools import call_with_context, deduplicate

    class B(batching.BatchBase):
        def _try_switch_active_batch(self):
            if cur[0] is self:
                cur[0] = B()

        def _flush(self):
            for it in self.items:
                it.set_value(it.payload)

    class I(batching.BatchItemBase):
        def __init__(self, payload):
            batching.BatchItemBase.__init__(self, cur[0])
            self.payload = payload

    cur = [B()]
    S = asynq.AsyncScopedValue(0)

    class Cfg(object):
        value = 0

    A = Cfg()
    ctxlogs = {}

    class L(contexts.AsyncContext):
        def __init__(self, key):
            self.key = key
            ctxlogs.setdefault(key, [])

        def resume(self):
            ctxlogs[self.key].append("R")

        def pause(self):
            ctxlogs[self.key].append("P")

    def rd():
        return [S.get(), A.value]

    reads = {}

    def note(idx, where):
        reads.setdefault(idx, []).append([where] + rd())

    @asynq.asynq()
    def gen_fn(idx):
        note(idx, "body")
        yield I(idx)
        note(idx, "after")
        return idx

    @asynq.async_proxy()
    def proxy_task(idx):
        note(idx, "call")
        return gen_fn.asynq(idx)

    @asynq.async_proxy()
    def proxy_const(idx):
        note(idx, "call")
        return asynq.ConstFuture(idx)

    def plain_fn(idx):
        note(idx, "call")
        return idx

    def _wrapper(idx):
        note(idx, "call")
        return gen_fn.asynq(idx)

    @asynq.asynq()
    def _wrapped(idx):
        return idx

    wrapper_fn = asynq.make_async_decorator(_wrapped, _wrapper, "logged")
    dedup_fn = deduplicate()(asynq.asynq()(lambda idx: (yield gen_fn.asynq(idx))))
    pure_fn = asynq.asynq(pure=True)(lambda idx: (yield gen_fn.asynq(idx)))

    class Obj(object):
        @asynq.asynq()
        def meth(self, idx):
            note(idx, "body")
            v = yield proxy_task.asynq(idx)
            note(idx, "after")
            return v

    obj = Obj()

    def target(kind):
        """(fn, args-prefix) such that fn.asynq(*prefix, idx) is the call"""
        return {"gen": (gen_fn, ()), "proxy-task": (proxy_task, ()), "proxy-const": (proxy_const, ()),
                "acall-plain": (asynq.async_call, (plain_fn,)), "acall-gen": (asynq.async_call, (gen_fn,)),
                "wrapper": (wrapper_fn, ()), "dedup": (dedup_fn, ()), "meth": (obj.meth, ()),
                "pure": (_PureAdapter(pure_fn), ())}[kind]

    class _PureAdapter(object):
        """@asynq(pure=True) functions have no .asynq attribute (calling them IS the async call)"""

        def __init__(self, fn):
            self.fn = fn

        def asynq(self, *a):
            return self.fn(*a)

    def mkctx(idx, j, c):
        if c[0] == "S":
            return S.override(c[1])
        if c[0] == "A":
            return asynq.async_override(A, "value", c[1])
        return L("%d-%d" % (idx, j))

    def via_cwc(idx, c):
        fn, prefix = target(c["kind"])
        args = list(prefix) + [idx]
        for j in reversed(range(len(c["chain"]))):
            args = [mkctx(idx, j, c["chain"][j]), fn] + args
            fn = call_with_context
        return fn, args

    @asynq.asynq()
    def via_with(idx, c, j=0):
        if j < len(c["chain"]):
            with mkctx(idx, j, c["chain"][j]):
                return (yield via_with.asynq(idx, c, j + 1))
        fn, prefix = target(c["kind"])
        return (yield fn.asynq(*(list(prefix) + [idx])))

    def start(idx, c):
        if c["via"] == "with":
            return via_with.asynq(idx, c)
        fn, args = via_cwc(idx, c)
        return fn.asynq(*args)

    afters = {}

    @asynq.asynq()
    def root():
        import contextlib
        with contextlib.ExitStack() as st:
            if case["outer"][0] is not None:
                st.enter_context(S.override(case["outer"][0]))
            if case["outer"][1] is not None:
                st.enter_context(asynq.async_override(A, "value", case["outer"][1]))
            got = yield [start(i, c) for i, c in enumerate(case["calls"])]
            afters["root"] = rd()
        return got

    asynq.scheduler.reset()
    try:
        if case["entry"] == "sync":
            # synchronous use from the top level: call_with_context(ctx, fn, *args) / fn(*args)
            c = case["calls"][0]
            import contextlib
            with contextlib.ExitStack() as st:
                if case["outer"][0] is not None:
                    st.enter_context(S.override(case["outer"][0]))
                if case["outer"][1] is not None:
                    st.enter_context(asynq.async_override(A, "value", case["outer"][1]))
                if c["via"] == "with":
                    got = [via_with(0, c)]
                else:
                    fn, args = via_cwc(0, c)
                    got = [fn.asynq(*args).value() if isinstance(fn, _PureAdapter) else fn(*args)]
                afters["root"] = rd()
        else:
            got = root()
        out = "ok" if got == list(range(len(case["calls"]))) else "wrong-values"
    except BaseException as e:
        let_timeouts_through(e)
        out = "raised-" + _ename(e)
    final = rd()
    asynq.scheduler.reset()
    o = case["outer"]
    lines = ["(case callctx %d (outer %s %s))" % (case["id"], "none" if o[0] is None else o[0], "none" if o[1] is None else o[1])]
    for i, c in enumerate(case["calls"]):
        logs = [[k.split("-")[1], "".join(v)] for k, v in sorted(ctxlogs.items()) if k.startswith("%d-" % i)]
        lines.append("(call %d %s %s %s %s)" % (i, c["kind"], _sx(["chain"] + c["chain"]), _sx(["reads"] + reads.get(i, [])), _sx(["ctx"] + logs)))
    lines.append("(result %s %s %s)" % (out, _sx(["after"] + afters.get("root", ["missing"])), _sx(["final"] + final)))
    lines.append("(end)")
    return {"lines": lines, "features": ["family=callctx", "callctx-entry=" + case["entry"]] + sorted(
        {"callctx-kind=" + c["kind"] for c in case["calls"]} | {"callctx-via=" + c["via"] for c in case["calls"]}),
        "nontrivial": "callctx-" + json.dumps([case["outer"], case["entry"], case["calls"]])[:300]}


# =====================================================================================================================
# selfawait (C08): a RUNNING task is awaited by a computation it started synchronously
# =====================================================================================================================

SELFAWAIT_VIAS = ["dedup-send", "dedup-empty", "dedup-throw", "pass-yield", "pass-value", "table"]


def selfawait_cases(tier, rng):
    cases = []
    for via in SELFAWAIT_VIAS:
        for levels in (1, 2):
            for tolerate in (0, 1):
                for after in (("return",) if not tolerate else ("return", "yield", "raise")):
                    cases.append({"special": "selfawait", "via": via, "levels": levels, "tolerate": tolerate, "after": after, "first": "task"})
    for _ in range(10 if tier == "quick" else 100):
        tol = rng.choice([0, 1])
        cases.append({"special": "selfawait", "via": rng.choice(SELFAWAIT_VIAS), "levels": rng.choice([1, 2, 3]), "tolerate": tol,
                      "after": rng.choice(["return", "yield", "raise"]) if tol else "return", "first": rng.choice(["task", "item", "empty"])})
    return cases


def selfawait_reentrant(case):
    """does the nested computation really get the RUNNING task (and not a fresh one)?  deduplicate hands out a fresh task
    while the first instance is running - `running` is set when a task is resumed with a value, not when it is resumed with
    an error it catches"""
    return case["via"] not in ("dedup-send", "dedup-empty")


def run_selfawait(case):
    """C08: 'Inside a task's code get_active_task() is that task, including after a nested synchronous call into asynq
    returns, and it is None once the outermost call has returned.  After a computation ends - with a value, with any
    Exception from a task ... - the thread's scheduler retains no task of that computation and the next computation on the
    same thread behaves as on a fresh scheduler' - for the re-entrancy path: task T synchronously starts a computation that
    (through @deduplicate() handing T out for its own key, through get_active_task() passed along, through a table of
    in-flight work) awaits T itself.  The generator of T is executing, so that await cannot be served: the nested call
    fails with ValueError('generator already executing'); T may tolerate that or let it propagate.  In the machine this is
    a stuck state ('re-entrant'), hence the direct expectation."""
    import asynq
    from asynq import batching
    from asynq.tools import deduplicate

    via, levels, tolerate, after_, first = case["via"], case["levels"], case["tolerate"], case["after"], case.get("first", "task")
    obs = {}
    in_flight = {}

    class B(batching.BatchBase):
        def _try_switch_active_batch(self):
            if cur[0] is self:
                cur[0] = B()

        def _flush(self):
            for it in self.items:
                it.set_value(it.payload)

    class I(batching.BatchItemBase):
        def __init__(self, payload):
            batching.BatchItemBase.__init__(self, cur[0])
            self.payload = payload

    cur = [B()]

    class Inner(Exception):
        pass

    @asynq.asynq()
    def leaf(x):
        return x

    @asynq.asynq()
    def failing():
        raise Inner("caught by the task")
        yield

    def first_yield():
        if first == "item":
            return I(1)
        if first == "empty":
            return []
        return leaf.asynq(1)

    @asynq.asynq()
    def awaiter(t, how, depth):
        if depth > 1:
            return (yield awaiter.asynq(t, how, depth - 1))
        if how == "value":
            return t.value()
        return (yield t)

    @asynq.asynq()
    def warm(key, depth):
        if depth > 1:
            return (yield warm.asynq(key, depth - 1))
        return (yield refresh.asynq(key))

    @asynq.asynq()
    def prefetch(key, depth):
        if depth > 1:
            return (yield prefetch.asynq(key, depth - 1))
        pending = in_flight.get(key)
        if pending is not None:
            yield pending
        return (yield leaf.asynq(key))

    state = {"depth": 0}

    def body(key):
        me = asynq.scheduler.get_active_task()
        if state["depth"] > 0:
            # a second, fresh instance handed out while the first one is running: it simply does its work
            v = yield leaf.asynq(7)
            return ("fresh", v)
        obs["first-is-active"] = me is not None
        if via == "dedup-throw":
            try:
                yield failing.asynq()
            except Inner:
                pass
        elif via == "dedup-empty":
            yield []
        else:
            yield first_yield()
        obs["active-before"] = asynq.scheduler.get_active_task() is me
        in_flight[key] = me
        state["depth"] += 1
        try:
            try:
                if via.startswith("dedup"):
                    r = warm(key, levels)
                elif via == "pass-yield":
                    r = awaiter(me, "yield", levels)
                elif via == "pass-value":
                    r = awaiter(me, "value", levels)
                else:
                    r = prefetch(key, levels)
                obs["nested"] = "ok" if r == ("fresh", 7) else "ok-other"
            except ValueError as e:
                obs["nested"] = "ValueError" if "already executing" in str(e) else "ValueError-other"
                if not tolerate:
                    raise
            except BaseException as e:
                let_timeouts_through(e)
                obs["nested"] = "raised-" + _ename(e)
                if not tolerate:
                    raise
        finally:
            state["depth"] -= 1
            del in_flight[key]
            obs["active-after"] = asynq.scheduler.get_active_task() is me
        if after_ == "yield":
            yield leaf.asynq(2)
            obs["resumed-after-yield"] = True
        elif after_ == "raise":
            raise Inner("raised after tolerating")
        return 5

    refresh = deduplicate()(asynq.asynq()(body))

    @asynq.asynq()
    def root(key):
        return (yield refresh.asynq(key))

    asynq.scheduler.reset()
    sched = asynq.scheduler.get_scheduler()
    try:
        out = "value" if root("k") == 5 else "wrong-value"
    except Inner:
        out = "raised-Inner"
    except ValueError as e:
        out = "raised-ValueError" if "already executing" in str(e) else "raised-ValueError-other"
    except BaseException as e:
        let_timeouts_through(e)
        out = "raised-" + _ename(e)
    act = asynq.scheduler.get_active_task()
    s2 = asynq.scheduler.get_scheduler()
    top = [1 if act is None else 0, len(s2._tasks), 1 if s2 is sched else 0, len(s2._batches),
           sum(1 for b in s2._batches if b.items and not b.is_flushed())]

    @asynq.asynq()
    def second():
        me = asynq.scheduler.get_active_task()
        v = yield leaf.asynq(1)
        w = yield I(3)
        # (format_asynq_stack() is called - it must not fail on a fresh scheduler - but its FORMAT is diagnostic, not behaviour)
        asynq.debug.format_asynq_stack()
        return [v, w, 1 if me.creator is None else 0]

    try:
        nxt = second()
    except BaseException as e:
        let_timeouts_through(e)
        nxt = ["raised-" + _ename(e)]
    act2 = asynq.scheduler.get_active_task()
    try:
        refresh.dirty("k")
    except Exception:
        pass
    asynq.scheduler.reset()
    b = lambda k: "none" if k not in obs else (1 if obs[k] else 0)
    lines = ["(case selfawait %d %s %d %s)" % (case["id"], via, tolerate, after_),
             "(result %s %s %s %s %s %s %s %d)" % (out, obs.get("nested", "none"), b("active-before"), b("active-after"), _sx(top), _sx(nxt),
                                                   b("first-is-active"), 1 if act2 is None else 0), "(end)"]
    return {"lines": lines, "features": ["family=selfawait", "selfawait=" + via, "selfawait-tolerate=%d" % tolerate],
            "nontrivial": "selfawait-" + json.dumps([via, levels, tolerate, after_, first])}


RUNNERS = {"aiostart": run_aiostart, "eventhook": run_eventhook, "debugthreads": run_debugthreads, "hookssurvive": run_hookssurvive,
           "callctx": run_callctx, "selfawait": run_selfawait}
