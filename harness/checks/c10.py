"""C10  A future is completed at most once and reports one consistent outcome.

Histories of operations on one future of every kind, run on the real classes; the Lean model
(AsynqModel.Lib.Futures) replays the same history (correspondence) and the Lean observer `Futures.spec`
(the statement of C10; proved of the model for all kinds and ALL histories, whatever the subscribers raise - C10_spec_holds;
the two former findings about un-printable subscriber exceptions are fixed in /repo: "subscriber-exception-escapes" by 591bc3e
- repr(e) raising - and "subscriber-repr-error-escapes" by 9f49616 - qcore.safe_repr(e) itself raising because formatting what
repr(e) raised raises; both input classes stay in the generator and a regression of either is reported as a violation)
judges the implementation's observations on their own.  Families judged by direct expectations in the driver (no model run): suspended, futsubs
(notification rounds of batches / items / blocking tasks, across threads, with debug options switched in mid-flight),
futcopy (copies of ConstFuture / ErrorFuture).  Round 5: the error OBJECT (tokens 8..13 = exceptions that mean something to the
library, e.g. a genuine FutureIsAlreadyComputed about another future raised by a provider) and the ROUTE by which a provider /
body comes by its outcome (`via`) are generator dimensions; the model and the theorems already quantify over every error token."""
import hashlib
import json
import random

PID = "C10"
LEVEL = "proof"
LEAN_MODULES = ["AsynqModel.Theorems.C10", "AsynqModel.Theorems.C10b"]
# the claims of the property (each a statement over all kinds / states / histories with a proof that is more than one
# unfolding of the model); every hypothesis has a machine-checked necessity witness in Theorems/C10.lean
HEADLINE = [
    "AsynqModel.Futures.C10_spec_holds",
    "AsynqModel.Futures.C10_statsOk_needed",
    "AsynqModel.Futures.C10_subscriber_repr_error_repaired",   # the history of the former finding is accepted; its old observations are still rejected
    "AsynqModel.Futures.C10_spec_enforces_runs",
    "AsynqModel.Futures.C10_spec_enforces_outcome",
    "AsynqModel.Futures.C10_spec_enforces_read",
    "AsynqModel.Futures.C10_spec_enforces_notify",
    "AsynqModel.Futures.C10_spec_enforces_set",
    "AsynqModel.Futures.C10_spec_enforces_stable",
    # Theorems/C10b.lean: the step-level facts above hold at EVERY position of an accepted history of any length and
    # origin (every record was accepted by watchStep from the watch state of its predecessors; prefix-closed; one
    # rejected record rejects the history)
    "AsynqModel.Futures.C10_spec_every_step",
    "AsynqModel.Futures.C10_spec_prefix",
    "AsynqModel.Futures.C10_spec_rejects",
    "AsynqModel.Futures.C10_model_every_step",   # non-vacuity: every history of the model meets the hypothesis, at every position
    "AsynqModel.Futures.C10_stable_until_reset",
    "AsynqModel.Futures.C10_const_complete",
    "AsynqModel.Futures.C10_runs_step",
    "AsynqModel.Futures.C10_provider_once_epoch",
    "AsynqModel.Futures.C10_provider_once",
    "AsynqModel.Futures.C10_provider_once_count",
    "AsynqModel.Futures.C10_notify_once_after_visible",
    "AsynqModel.Futures.C10_notify_count",
    "AsynqModel.Futures.C10_subs_after_completion",
    "AsynqModel.Futures.C10_passive_subs_stay",
    "AsynqModel.Futures.C10_unsubscribed_not_notified",
    "AsynqModel.Futures.C10_completer_result",
    "AsynqModel.Futures.C10_raising_subscribers_swallowed",
    "AsynqModel.Futures.C10_hook_failure_after_notification",
]
# hold by construction of the model (one unfolding of `step` / of the fold `firstRaise`, or an instance of a headline theorem);
# audited for axioms like the others, but NOT claims about the behaviour: their content is the correspondence run.
BY_CONSTRUCTION = [
    "AsynqModel.Futures.C10_single_assignment",      # the one-operation instance of C10_stable_until_reset
    "AsynqModel.Futures.C10_unsubscribe",
    "AsynqModel.Futures.C10_set_error_none",
    "AsynqModel.Futures.C10_quiet_ops",
    "AsynqModel.Futures.C10_hook_state",
    # since /repo 9f49616 no subscriber exception leaves _computed (subEscapes _ = false): these two are statements about the
    # INPUT (in which rounds qcore.safe_repr raises inside _computed = which rounds the regression clause can name), proved
    # by induction over the walk of the snapshot, but no longer claims about the behaviour
    "AsynqModel.Futures.C10_printable_exceptions_swallowed",
    "AsynqModel.Futures.C10_first_exception_decides",
]
THEOREMS = HEADLINE + BY_CONSTRUCTION
BUILDS = {"quick": ["py"], "thorough": ["py", "cy"]}
RULE = ("random operation histories (length 1-40, ops value/error/call/is_computed/set_value/set_error/reset_unsafe/"
        "subscribe/unsubscribe) on each future kind (Future ok/raising/self-completing provider, ConstFuture, ErrorFuture, "
        "AsyncTask returning/raising without blocking); error token 0 = None: set_error(None) (about 1 in 8 set_error "
        "operations) and ErrorFuture(None) (1 in 8 ErrorFutures); a subscriber is well-behaved, raising (three exception classes), "
        "raisingBad (raises an Exception whose repr() raises; about 1 in 20 subscribers of the one-future histories, never in "
        "family futsubs), raisingWorse (raises an Exception whose repr() raises an Exception whose str() raises - the input "
        "class of the finding subscriber-repr-error-escapes, fixed by 9f49616: ordinary cases that must pass; about 1 in 40 subscribers of the one-future histories, "
        "every pair with every other behaviour in family behpair, corpus replay; never in family futsubs), one-shot "
        "(unsubscribes itself while notified), unsubscribes another handler (earlier, later, itself, unknown), subscribes "
        "a new handler, or re-enters set_value/set_error; value and error tokens stand for exotic objects (None, 0, '', False, "
        "__eq__-always-true, an exception instance as a value, a future as a value, the future itself, an object whose "
        "__bool__/__eq__/__repr__ raise; falsy / eq-all / BaseException-only / StopIteration / raising-repr errors); "
        "family 'burst' = n subscribers (n = 5..257, mixed behaviours) + completion + reset + second completion; family "
        "'futsubs' = the same subscriber lists on batch items, batches, DebugBatchItem and blocking AsyncTasks, two "
        "completions each; family 'suspended' = suspended task completed from outside; non-trivial = history that "
        "contains a completion (uncomputed -> computed) and at least 3 operations; distinct by (kind, history) hash. "
        "Round 4 (feature interactions): operations 'option perf|dump 0|1' (a debug option switched while the future is in "
        "flight; flag badarg = the task is called with an argument whose repr() raises; whether collect_perf_stats() can run "
        "for a task created before the switch / for such an argument is PROBED on the tree under test and handed to the "
        "model as Cfg.statsOk - true on the current tree; if not, the step fails between 'outcome stored' and 'subscribers "
        "notified': modelled, and rejected by the observer), "
        "'raiseIfError', 'inspect' (repr/str) which must not compute; family 'midflight' = every computing kind x every "
        "completer x subscriber lists x where the switch happens x second completion; flag weak = nobody but the future "
        "references the subscribers + gc.collect() before completions; futsubs: 19 more targets (debug batch cancelled / "
        "flushed / constructed directly / debug.sync, cancel() without argument, tasks handed out by deduplicate, async_proxy, "
        "asynq.result, pure=True, async_call, async_generator, a bound method of a copied object, ONE decorator object "
        "applied to several functions, a body inside a scoped-value override), dimension thread (target created in another "
        "thread / completed by another thread / both; systematically for every target), dimension optswhen (1-4 of 12 debug "
        "options on for the whole case / switched on after creation+subscription / before the second round / on at creation "
        "and off before the completion; systematically for every target), after each round error(), is_computed(), "
        "raise_if_error(), a refused set_error / set_error(None) / set_value, subscribe + unsubscribe of a late handler on the "
        "completed target (the computed branch of the observer judges them); suspended: inside a scoped-value override / a user "
        "AsyncContext, options switched on while suspended; family 'futcopy' = ConstFuture / ErrorFuture / none_future "
        "constructed by copy.copy, copy.deepcopy, pickle protocols 0-5, __reduce__ (10 values). "
        "Third-audit repair: futsubs family 'link' = a user batch of 2-4 items cancelled (with / without error; watched: an item "
        "or the batch) while an on_computed handler of one item - every ordered pair (source, destination) - completes a still "
        "pending sibling (value / error), tries set_value / flush() on the batch itself or cancels it during the batch's "
        "completion sweep (seeded change C10-12; the sweeps after a raising / forgetful flush with such handlers are C11's "
        "`link` handlers); 10 % of the random futsubs cases on the four cancel targets get such a handler. "
        "Round 5: error tokens 8..13 = exception objects with a meaning to the library (a genuine FutureIsAlreadyComputed raised by "
        "a refused set_value on ANOTHER future, AsyncTaskCancelledError, BatchCancelledError, a second-hand error that already "
        "failed another AsyncTask and carries _task/_type_/_traceback, AttributeError, TypeError) - raised by providers and task "
        "bodies, held by ErrorFutures, handed to set_error (a third of all error choices); a lazy provider may raise StopIteration; "
        "flag via = future|task|lazy (30% of the lazyOk/lazyErr/taskOk/taskErr histories): the provider / body gets its outcome by "
        "calling / yielding a ConstFuture / ErrorFuture, by calling another asynq function, by reading another lazy Future / "
        "yielding fn.asynq(); family 'errclass' = every error token x every source (provider, task body, ErrorFuture, set_error, "
        "re-entering subscriber) x completer x route x DUMP_EXCEPTIONS (thorough: 3 more options), reads, refused sets, reset, "
        "second completion")
TRUSTED = [
    "hand-written Lean model AsynqModel.Lib.Futures tied to the code by this differential run only",
    "Python harness checks/c10.py (token <-> object identity mapping, read-only peek after each operation)",
    "qcore.EventHook.safe_trigger, CPython generator semantics, threading / gc / copy / pickle of the standard library",
]
ASSUMPTIONS = [
    "callbacks raise only Exception (BaseException from a subscriber is out of the statement's scope); the Exception may be "
    "un-printable: repr() raising (swallowed since 591bc3e) and repr() raising an Exception whose str() raises (swallowed since "
    "9f49616; finding subscriber-repr-error-escapes FIXED: generated as raisingWorse, modelled as the repaired code, "
    "C10_subscriber_repr_error_repaired; the observer keeps the clause for a regression); repr() of the subscriber's exception "
    "raising a BaseException-only error is out of scope",
    "a task body that raises a SUBCLASS of AsyncTaskCancelledError / AsyncTaskResult (or GeneratorExit or a subclass of it) ends "
    "with the VALUE None: AsyncTask._continue (async_task.py:197-205) catches `except GeneratorExit` and then compares "
    "type(error) EXACTLY (`is AsyncTaskResult` / `is AsyncTaskCancelledError`), everything else falls to _queue_exit(None) - "
    "probed: class MyCancel(AsyncTaskCancelledError) raised by a body gives value() None twice, error() None, one notification. "
    "Not generated (token 9 is an exact AsyncTaskCancelledError) and NOT a violation of C10's text: the outcome is set once, "
    "announced once and reported consistently; C10 does not say WHICH outcome a body that raises a control-flow exception has "
    "(the observer's clause compute-outcome pins err e for the generated Exception classes and exact AsyncTaskCancelledError only)",
    "WHICH Exception a provider raises is not restricted (the statement says 'providers that return or raise'): library-made "
    "exception objects (FutureIsAlreadyComputed about another future, BatchCancelledError, an error that already failed a task) "
    "are generated; a task body raising plain GeneratorExit / AsyncTaskResult is NOT generated (AsyncTask._continue gives them "
    "the meaning 'return': documented control flow, not an error outcome)",
    "providers / task bodies raise Exception subclasses (a BaseException-only error is passed to set_error / ErrorFuture / "
    "raised by a task body, not by a Future provider: Future._compute lets it through without completing, as any Python code would)",
    "a handler is subscribed at most once (ids are distinct); a handler that another handler unsubscribes before its own "
    "turn in the same notification round, and a handler subscribed during the round, may or may not be notified in it "
    "(the code notifies a snapshot: the former yes, the latter no - the model says so, the observer accepts both)",
    "an error handed to set_error / ErrorFuture is an exception instance or None (None is MODELLED: the future is then "
    "complete with the value None, Op.setErrorNone / Kind.errorNone; any other non-exception object, e.g. a str, makes "
    "value() raise TypeError from the raise statement while error() returns the object - outside the statement)",
    "a subscriber does not call reset_unsafe() on the future that is notifying it (value() of that very call would return "
    "the internal 'not computed' marker; reset_unsafe is documented as never to be used normally)",
    "one thread at a time touches a future (family futsubs creates the target in one thread and completes it in another, "
    "one after the other; CONCURRENT access is out of scope); completion paths of batches and batch items are C11's model - "
    "here only their notification rounds are judged (family futsubs, same Lean clause notifiedAll, no theorem about how "
    "they complete)",
    "collect_perf_stats() can run for every task (hypothesis `hstats` of C10_spec_holds, witness C10_statsOk_needed): "
    "probed once per worker on the tree under test (perf_stats_step_runs: a task created before COLLECT_PERF_STATS is "
    "switched on; a task with an argument whose repr() raises ValueError) and handed to the model as Cfg.statsOk. True on "
    "the current tree (9ee915e, f0f10a3). If a tree makes the step fail, the model follows it (Exc.hook, after the "
    "notifications) and the observer REJECTS the completer's answer: reported as a violation. An argument whose repr() "
    "raises a BaseException-only error is out of scope",
    "the computing error() of a Future whose provider raised e may RAISE e instead of returning it (Future._compute "
    "re-raises into error(); the same outcome through the other channel; every later error() returns e; AsyncTask.error() "
    "returns it at once) - accepted by the observer for kind lazyErr only (freshReadOk), hypothesis hk of C10_spec_enforces_read",
    "a provider that completes ITS OWN future while it runs (kind lazySelfSet) is outside the quantifier 'providers that "
    "return or raise': the computing read raises FutureIsAlreadyComputed while the future holds the first outcome (which "
    "every later read reports) - modelled, accepted by the observer for that kind only (freshReadOk), hypothesis hk' of "
    "C10_spec_enforces_read",
    "two clauses of the observer pin today's code where the statement is silent (regression clauses, not consequences of "
    "the text): a subscriber registered on a ConstFuture / ErrorFuture (qcore SinkingEventHook drops it) is NOT notified "
    "when the future is reset_unsafe() and completed again; a completed AsyncTask that was reset_unsafe() answers a read with "
    "None without running its body (its generator is gone)",
    "copies (family futcopy): values compared by == and type, errors by type and args; only ConstFuture / ErrorFuture "
    "('complete from construction'); a deep copy / unpickled copy of an UNCOMPUTED Future is outside the statement; THAT a "
    "copy can be made at all (verdict copy-fails) is a precondition the harness checks, not part of the statement",
    "families futsubs / suspended / futcopy are judged by direct expectations (no model run, no theorem); futsubs never "
    "uses a subscriber whose exception cannot be printed (the un-printable classes are exercised on the one-future kinds only)",
]
KINDS = ["lazyOk", "lazyErr", "const", "error", "taskOk", "taskErr", "lazySelfSet"]
OPS = ["value", "error", "call", "isComputed", "setValue", "setError", "reset", "subscribe", "unsubscribe",
       "option", "raiseIfError", "inspect"]
OPTION_NAMES = {"perf": "COLLECT_PERF_STATS", "dump": "DUMP_COMPUTED"}
UNKNOWN = 999999
CASE_TIMEOUT = 5     # a history takes milliseconds; a mutant that makes the scheduler spin must not cost 20 s per case
NVALS = 9      # value tokens 0..9 (see make_objects)
NERRS = 6      # error tokens 1..6: classes of the harness (falsy, eq-all, BaseException-only, StopIteration, raising repr)
# round 5: error tokens 8..13 = exception objects that MEAN something to the library (see Env.__init__): 8 a genuine
# FutureIsAlreadyComputed (raised by a refused set_value on ANOTHER future), 9 AsyncTaskCancelledError (a GeneratorExit),
# 10 BatchCancelledError, 11 a second-hand error (it already failed another AsyncTask: carries _task / _type_ / _traceback,
# the hasattr branches of _accept_error / _continue_on_generator / qcore reraise), 12 AttributeError, 13 TypeError (classes
# the library catches around its own steps).  Token 7 stays the library-made error of cancel() without argument (futsubs).
SPECIAL_ERRS = [8, 9, 10, 11, 12, 13]
ERR_TOKENS = [1, 2, 3, 4, 5, 6] + SPECIAL_ERRS
RAISABLE = [1, 2, 3, 6, 8, 10, 11, 12, 13]      # error tokens a Future provider may raise (Exception subclasses)
# a task body may also raise a BaseException-only error (AsyncTask stores it; 9 = AsyncTaskCancelledError goes through the
# GeneratorExit clause of AsyncTask._continue)
TASK_RAISABLE = [1, 2, 3, 4, 6, 8, 9, 10, 11, 12, 13]
# the provider of a lazy Future that is read directly (one-future histories) may also raise StopIteration: an Exception like
# any other there (inside a generator - family futsubs, route via=task/future of a task - PEP 479 would turn it into RuntimeError)
LAZY_RAISABLE = RAISABLE + [5]


def any_err(rng):
    """an error token for set_error / ErrorFuture: a third of the time one of the library-meaningful objects"""
    return rng.choice(SPECIAL_ERRS) if rng.random() < 0.34 else rng.randint(1, NERRS)
BURST_SIZES = {"quick": [5, 9, 17, 33, 65, 129], "thorough": [5, 9, 17, 33, 65, 129, 257]}
SUBS_TARGETS = ["item-value", "item-flush", "item-set", "item-cancel", "batch-flush", "batch-cancel", "batch-via-item",
                "debugitem", "debugbatch", "task-blocked", "task-dep", "future-value", "future-in-task", "nested",
                # round 4: more completion paths of the built-in debug batch, cancel() without argument, seldom used
                # entry points that hand out tasks / futures
                "item-cancel0", "batch-cancel0", "debugitem-sync", "debugitem-flush", "debugitem-cancel", "debugitem-cancel0",
                "debugbatch-direct", "debugbatch-cancel", "debugbatch-cancel0", "task-result", "task-pure", "task-async-call",
                "task-dedup", "task-proxy", "task-method", "task-shared", "task-ctx", "task-generator", "future-proxy"]
THREADS = ["same", "create", "complete", "both"]
OPTSWHEN = ["whole", "mid", "mid2", "offmid"]


def kind_arg(rng, kind):
    if kind == "lazyErr":
        return rng.choice(LAZY_RAISABLE)
    if kind == "taskErr":
        return rng.choice(TASK_RAISABLE)
    if kind == "error":
        return 0 if rng.random() < 0.125 else any_err(rng)      # 0 = ErrorFuture(None)
    if kind == "const":
        return rng.randint(0, NVALS - 3) if rng.random() < 0.8 else rng.choice([8, 9])   # 7 = "the future itself"
    return rng.randint(0, NVALS)


def gen_beh(rng, own, known, fresh, bad=True):
    """what subscriber `own` does while it is notified; `known` = ids subscribed so far, `fresh()` = a new id;
    bad = may raise an Exception whose repr() raises"""
    r = rng.random()
    if r < 0.40:
        return ["good"]
    if r < 0.51 or (r < 0.58 and not bad):
        return ["raising"]
    if r < 0.555:
        return ["raisingBad"]
    if r < 0.58:
        return ["raisingWorse"]
    if r < 0.73:
        return ["oneShot"]
    if r < 0.85:
        q = rng.random()
        if known and q < 0.55:
            return ["unsub", rng.choice(known)]          # an earlier subscriber (already notified when this one runs)
        if q < 0.75:
            return ["unsub", own + rng.randint(1, 2)]    # the next one(s): not yet notified
        if q < 0.9:
            return ["unsub", own]
        return ["unsub", 900000 + own]                   # a handler that was never subscribed: ValueError, swallowed
    if r < 0.92:
        return ["resub", fresh()]
    return ["reenter", rng.choice(["val", "err"]), rng.randint(1, 3)]


class _Ids(object):
    """subscriber ids: 1, 2, 3 ... for subscribe ops; 500001 ... for handlers subscribed from inside a notification"""

    def __init__(self, ops=()):
        self.n = 0
        self.late = 500000
        for o in ops:
            if o[0] == "subscribe":
                self.n = max(self.n, o[1]) if o[1] < 500000 else self.n
                if len(o) > 3 and o[2] == "resub":
                    self.late = max(self.late, o[3])
        self.known = [o[1] for o in ops if o[0] == "subscribe"]

    def fresh_late(self):
        self.late += 1
        return self.late

    def subscribe_op(self, rng, plain=False, bad=True):
        self.n += 1
        beh = (["raising"] if rng.random() < 0.3 else ["good"]) if plain else gen_beh(rng, self.n, self.known, self.fresh_late, bad)
        self.known.append(self.n)
        return ["subscribe", self.n] + beh


def gen_op(rng, ids, allow_reset=True, plain=False, quiet=1.0):
    """`quiet` scales the weight of the operations that must leave the future alone: switching a debug option in
    mid-flight, raise_if_error(), repr()/str()"""
    o = rng.choices(OPS, weights=[5, 4, 2, 3, 3, 3, 2 if allow_reset else 0, 4, 1, 1.2 * quiet, 0.6 * quiet, 0.6 * quiet])[0]
    if o == "option":
        return [o, rng.choice(["perf", "perf", "dump"]), rng.choice([1, 1, 0])]
    if o == "inspect":
        return [o, rng.choice(["repr", "str"])]
    if o == "setValue":
        return [o, rng.randint(0, NVALS)]
    if o == "setError":
        return [o, 0 if rng.random() < 0.125 else any_err(rng)]      # 0 = set_error(None)
    if o == "subscribe":
        return ids.subscribe_op(rng, plain)
    if o == "unsubscribe":
        if ids.known and rng.random() < 0.8:
            return [o, rng.choice(ids.known)]
        return [o, 900000 + rng.randint(0, 5)]
    return [o]


def gen_opts(rng):
    """debug options that switch on the seldom-run branches between 'outcome stored' and 'subscribers notified'
    (FutureBase._computed: DUMP_COMPUTED; AsyncTask._computed: COLLECT_PERF_STATS)"""
    return rng.choice([["DUMP_COMPUTED"], ["COLLECT_PERF_STATS"], ["DUMP_COMPUTED", "COLLECT_PERF_STATS"]])


# every debug option that has a branch on a completion path of a task / batch / batch item (async_task.py _queue_exit,
# _queue_throw_error, _accept_error, _computed; batching.py flush, DebugBatch._flush / _cancel; futures.py _computed)
WIDE_OPTS = ["DUMP_COMPUTED", "COLLECT_PERF_STATS", "DUMP_QUEUED_RESULTS", "DUMP_EXCEPTIONS", "DUMP_SYNC", "DUMP_FLUSH_BATCH",
             "DUMP_STACK", "KEEP_DEPENDENCIES", "DUMP_NEW_TASKS", "DUMP_YIELD_RESULTS", "DUMP_SYNC_CALLS", "DUMP_CONTEXTS"]


def gen_opts_wide(rng):
    if rng.random() < 0.5:
        return gen_opts(rng)
    return sorted(rng.sample(WIDE_OPTS, rng.randint(1, 4)))


def gen_case(rng, size=None):
    kind = rng.choice(KINDS)
    n = size if size is not None else rng.choice([1, 2, 3, 4, 6, 8, 12, 20, 40])
    ids = _Ids()
    allow_reset = rng.random() < 0.6
    plain = rng.random() < 0.25      # a quarter of the histories keep to well-behaved / raising subscribers
    quiet = rng.choice([0.0, 1.0, 1.0, 3.0])
    ops = [gen_op(rng, ids, allow_reset, plain, quiet) for _ in range(n)]
    case = {"kind": [kind, kind_arg(rng, kind)], "ops": ops}
    if rng.random() < 0.12:
        case["opts"] = gen_opts(rng)
    if kind in ("taskOk", "taskErr") and rng.random() < 0.3:
        # profiling switched on while the task is in flight: somewhere before the end of the history
        ops.insert(rng.randint(0, len(ops)), ["option", "perf", 1])
    if kind in ("taskOk", "taskErr") and rng.random() < 0.2:
        case["badarg"] = True       # the task is called with an argument whose repr() raises
        if rng.random() < 0.5:
            case["opts"] = gen_opts(rng)
    if rng.random() < 0.06:
        case["weak"] = True
    if kind in VIA_KINDS and rng.random() < 0.3:
        case["via"] = rng.choice(VIAS)
        if case["via"] == "task" and case["kind"] == ["lazyErr", 5]:
            case["via"] = "lazy"     # StopIteration out of a generator body becomes RuntimeError (PEP 479)
        if case["via"] != "plain" and case["kind"][1] == 6 and kind in ("taskOk",):
            case["kind"][1] = 1      # a future as the value of a yielded dependency would be unwrapped once more
    return case


VIAS = ["future", "task", "lazy"]
VIA_KINDS = ("lazyOk", "lazyErr", "taskOk", "taskErr")
COMPLETERS = [["value"], ["error"], ["call"], ["setValue", 2], ["setError", 2], ["setError", 0]]


def burst_case(rng, n, kind=None):
    """n subscribers with mixed behaviours, a completion, reads, reset_unsafe, a second completion: the size of the
    handler list is the parameter (thresholds in the notification loop / handler storage)"""
    kind = kind or rng.choice([k for k in KINDS if k not in ("const", "error")])
    ids = _Ids()
    ops = [ids.subscribe_op(rng) for _ in range(n)]
    mid = rng.random() < 0.35
    if mid:     # a debug option switched on after the subscriptions, right before the completion
        ops.append(["option", "perf" if kind in ("taskOk", "taskErr") else rng.choice(["perf", "dump"]), 1])
    ops.append(list(rng.choice(COMPLETERS)))
    ops += [["isComputed"], ["setValue", 1], ["value"]]
    if mid and rng.random() < 0.5:
        ops.append(["option", "perf", 0])
    if rng.random() < 0.5:
        ops.append(["unsubscribe", rng.choice(ids.known)])
    ops += [["reset"], list(rng.choice(COMPLETERS)), ["error"], ["reset"], list(rng.choice(COMPLETERS)), ["call"]]
    case = {"kind": [kind, kind_arg(rng, kind)], "ops": ops, "family": "burst"}
    if rng.random() < 0.12:
        case["opts"] = gen_opts(rng)
    if rng.random() < 0.1:
        case["weak"] = True
    return case


def midflight_cases(tier):
    """a debug option switched while the future is in flight (after its creation, before / between its completions):
    every kind that has a computation x every completing operation x a few subscriber lists x where the switch happens;
    for AsyncTasks also the other way round (created under profiling, switched off before the completion)"""
    res = []
    sublists = [[], [["good"]], [["raising"], ["good"]], [["oneShot"], ["reenter", "val", 3], ["good"]]]
    for kind in ("taskOk", "taskErr", "lazyOk", "lazyErr", "lazySelfSet"):
        task = kind.startswith("task")
        for comp in COMPLETERS:
            for subs in (sublists if task or tier != "quick" else sublists[1:3]):
                sub_ops = [["subscribe", i + 1] + b for i, b in enumerate(subs)]
                for opt in (["perf"] if task else ["dump", "perf"]):
                    for where in ("before-subs", "after-subs"):
                        on = [["option", opt, 1]]
                        ops = (on + sub_ops) if where == "before-subs" else (sub_ops + on)
                        ops = ops + [list(comp), ["isComputed"], ["value"], ["setValue", 1], ["reset"]]
                        for second in (["value"], ["setError", 2]):
                            for off in ((False, True) if task else (False,)):
                                tail = ([["option", opt, 0]] if off else []) + [list(second), ["error"], ["raiseIfError"]]
                                res.append({"kind": [kind, 1], "ops": ops + tail, "family": "midflight"})
                if task:
                    # created under profiling, profiling switched off / on again in mid-flight;
                    # the same with an argument that cannot be printed (the perf-stats step fails although there is an id)
                    for subs2 in sublists[1:3]:
                        sub_ops = [["subscribe", i + 1] + b for i, b in enumerate(subs2)]
                        for toggles in ([], [["option", "perf", 0]], [["option", "perf", 0], ["option", "perf", 1]]):
                            for bad in (False, True):
                                c = {"kind": [kind, 1], "opts": ["COLLECT_PERF_STATS"], "family": "midflight",
                                     "ops": sub_ops + toggles + [list(comp), ["value"], ["reset"], ["error"]]}
                                if bad:
                                    c["badarg"] = True
                                if bad or toggles:
                                    res.append(c)
    return res


def errclass_cases(tier):
    """round 5: WHICH exception object a provider / task body raises, an ErrorFuture holds or set_error() gets must not
    matter: every error token (the library-meaningful ones included) x every place an error can come from x every
    completing operation; a good and a raising subscriber, reads, a refused second set, reset_unsafe, second completion"""
    res = []
    subs = [["subscribe", 1, "good"], ["subscribe", 2, "raising"], ["subscribe", 3, "good"]]
    reads = [["isComputed"], ["error"], ["value"], ["call"], ["raiseIfError"], ["error"], ["setValue", 1], ["setError", 1],
             ["value"]]
    for tok in ERR_TOKENS:
        for kind, allowed in (("lazyErr", LAZY_RAISABLE), ("taskErr", TASK_RAISABLE), ("error", ERR_TOKENS)):
            if tok not in allowed:
                continue
            for comp in ([["value"], ["error"], ["call"]] if kind != "error" else [["value"]]):
                for second in (["value"], ["error"], ["setError", tok]):
                    res.append({"kind": [kind, tok], "family": "errclass",
                                "ops": subs + [list(comp)] + reads + [["reset"], list(second), ["error"], ["isComputed"]]})
            if kind != "error":
                # ... arriving by every route (see run_case1 `via`), and with the debug options that print / record it
                for via in VIAS:
                    if via == "task" and tok == 5:
                        continue         # StopIteration out of a generator body becomes RuntimeError (PEP 479)
                    for comp in (["value"], ["error"]):
                        res.append({"kind": [kind, tok], "family": "errclass", "via": via,
                                    "ops": subs + [list(comp)] + reads + [["reset"], ["value"], ["error"]]})
                for opts in ([["DUMP_EXCEPTIONS"]] if tier == "quick" else
                             [["DUMP_EXCEPTIONS"], ["DUMP_COMPUTED"], ["COLLECT_PERF_STATS"], ["DUMP_QUEUED_RESULTS"]]):
                    res.append({"kind": [kind, tok], "family": "errclass", "opts": opts,
                                "ops": subs + [["value"]] + reads})
        # the same object handed to set_error() of every kind that can still be completed, and to a re-entering subscriber
        for kind in ("lazyOk", "lazyErr", "lazySelfSet", "taskOk", "taskErr"):
            res.append({"kind": [kind, 1], "family": "errclass",
                        "ops": subs + [["setError", tok]] + reads + [["reset"], ["setError", tok], ["value"], ["error"]]})
        res.append({"kind": ["lazyOk", 1], "family": "errclass",
                    "ops": [["subscribe", 1, "reenter", "err", tok], ["subscribe", 2, "good"], ["value"], ["error"], ["reset"],
                            ["setError", tok], ["value"]]})
    return res


def subs_case(rng, target, n, thread=None, optswhen=None):
    ids = _Ids()
    subs = [ids.subscribe_op(rng, bad=False)[1:] for _ in range(n)]
    case = {"special": "futsubs", "target": target, "subs": subs, "nitems": rng.randint(1, 4), "which": rng.randint(0, 3),
            "v1": rng.randint(0, NVALS - 3), "e1": rng.choice(RAISABLE), "v2": rng.randint(0, NVALS - 3),
            "second": rng.choice(["setValue", "setError"]), "prior": rng.random() < 0.3, "opts": gen_opts(rng) if rng.random() < 0.12 else [],
            "depth": rng.randint(1, 4), "pos": rng.randint(0, n)}
    if target == "task-result" and case["v1"] == 6:
        case["v1"] = 1          # asynq.result() refuses a future as the result
    # which thread creates the target, which one completes it
    case["thread"] = thread or rng.choices(THREADS, weights=[5, 2, 2, 1])[0]
    if optswhen or rng.random() < 0.2:
        # debug options switched while the target is in flight
        case["opts"] = case["opts"] or gen_opts_wide(rng)
        case["optswhen"] = optswhen or rng.choice(OPTSWHEN)
    if rng.random() < 0.08:
        case["weak"] = True
    if target in LINK_TARGETS and case["nitems"] >= 2 and rng.random() < 0.1:
        w = case["which"] % case["nitems"]
        dsts = [d for d in range(case["nitems"]) if target.startswith("batch-") or d != w]
        dst = rng.choice(dsts)
        case["link"] = [rng.choice(LINK_HOWS), rng.choice([x for x in range(case["nitems"]) if x != dst]), dst]
    return case


LINK_HOWS = ["sibling-value", "sibling-error", "batch-set", "batch-cancel", "batch-flush"]
LINK_TARGETS = ["item-cancel", "item-cancel0", "batch-cancel", "batch-cancel0"]


def link_cases(tier):
    """family futsubs/link (third-audit repair, seeded change C10-12): a batch of 2-4 items is CANCELLED while an on_computed
    handler of one item (any position) re-enters the library during the batch's completion sweep (BatchBase._computed): it
    completes a still pending SIBLING item (value / error), tries to complete / flush the batch itself, or cancels it.  The
    watched future (an item that is not the handler's destination, or the batch) must still be completed and notified exactly
    once.  (The sweep after a raising flush / a flush that leaves items unset with such handlers is C11's model: `link`
    handlers of Lib/Batching.lean.)  Systematic: every cancel target x every action x 2-4 items x every ordered pair
    (source item, destination item) x watched item first / last."""
    rng = random.Random(1012)      # subscriber lists only; the dimensions below are enumerated
    res = []
    for target in LINK_TARGETS:
        for how in LINK_HOWS:
            for n in (2, 3, 4):
                for src in range(n):
                    for dst in range(n):
                        if src == dst:
                            continue
                        for which in ([0] if target.startswith("batch-") else sorted({0, n - 1} - {dst})):
                            c = subs_case(rng, target, 1 + (src + dst) % 3, thread="same")
                            c.update({"nitems": n, "which": which, "link": [how, src, dst], "family": "link",
                                      "prior": False, "opts": [], "weak": False})
                            c.pop("optswhen", None)
                            res.append(c)
    return res


def corpus():
    import glob
    import os
    res = []
    d = os.path.join(os.path.dirname(os.path.dirname(os.path.dirname(os.path.abspath(__file__)))), "corpus", PID)
    for p in sorted(glob.glob(os.path.join(d, "*.json"))):
        with open(p) as f:
            res.append(json.load(f))
    return res


def plan(tier, seed):
    rng = random.Random(seed * 1000003 + 10)
    n = 1500 if tier == "quick" else 40000
    cases = corpus()
    # every kind x every single op and every pair of distinct op kinds (small exhaustive core)
    basic = [["value"], ["error"], ["call"], ["isComputed"], ["setValue", 2], ["setError", 2], ["setError", 0], ["reset"],
             ["subscribe", 1, "good"], ["subscribe", 2, "raising"], ["option", "perf", 1], ["raiseIfError"],
             ["inspect", "repr"]]
    for k in KINDS + ["errorNone"]:
        for a in basic:
            for b in basic:
                for c in ([["value"], ["error"]] if tier == "quick" else basic):
                    cases.append({"kind": ["error", 0] if k == "errorNone" else [k, 1], "ops": [[*a], [*b], [*c]]})
    cases += [suspended_case(o, c, subs) for o in ("value", "error") for c in (False, True)
              for subs in ([], [0], [1], [0, 0], [1, 0], [0, 1, 0])]
    # ... suspended inside a `with` block of an async context (scoped value override / user context), and / or with the
    # debug options switched on while it is suspended
    cases += [suspended_case(o, c, subs, ctx, opts) for o in ("value", "error") for c in (False, True)
              for subs in ([0], [1, 0], [0, 1, 0]) for ctx in ("none", "scoped", "custom")
              for opts in (None, ["COLLECT_PERF_STATS"], ["DUMP_COMPUTED", "COLLECT_PERF_STATS"]) if ctx != "none" or opts]
    # every kind x every pair of subscriber behaviours (+ a plain third subscriber) x completion, reset, second completion
    behs = [["good"], ["raising"], ["raisingBad"], ["raisingWorse"], ["oneShot"], ["unsub", 1], ["unsub", 2], ["unsub", 3], ["resub", 500001],
            ["reenter", "val", 3], ["reenter", "err", 1]]
    for k in KINDS:
        if k in ("const", "error") and tier == "quick":
            continue
        for a in behs:
            for b in behs:
                for comp in ([["value"]] if tier == "quick" else [["value"], ["error"], ["setValue", 2], ["setError", 2],
                                                                  ["setError", 0]]):
                    b2 = ["resub", 500002] if b[0] == "resub" else b
                    cases.append({"kind": [k, 1], "family": "behpair",
                                  "ops": [["subscribe", 1] + a, ["subscribe", 2] + b2, ["subscribe", 3, "good"], list(comp),
                                          ["reset"], ["setValue", 3], ["unsubscribe", 3], ["reset"], ["value"]]})
    cases += midflight_cases(tier)
    cases += errclass_cases(tier)
    cases += futcopy_cases()
    for size in BURST_SIZES[tier]:
        cases += [burst_case(rng, size) for _ in range(12 if tier == "quick" else 40)]
    for target in SUBS_TARGETS:
        for size in ([0, 1, 2, 3, 4, 6, 12, 40] if tier == "quick" else [0, 1, 2, 3, 4, 5, 6, 8, 12, 20, 40, 130]):
            cases += [subs_case(rng, target, size) for _ in range(4 if tier == "quick" else 12)]
        # the interaction dimensions, systematically: every target x every thread arrangement, every target x every
        # moment of switching the debug options (a few subscribers each)
        for size in ([1, 3] if tier == "quick" else [1, 2, 3, 8]):
            for thread in THREADS[1:]:
                cases.append(subs_case(rng, target, size, thread=thread))
            for when in OPTSWHEN[1:]:
                cases.append(subs_case(rng, target, size, optswhen=when))
    cases += link_cases(tier)
    cases += [gen_case(rng) for _ in range(n)]
    return cases


def suspended_case(outside, cleanup_raises, subs, ctx="none", opts=None):
    case = {"special": "suspended", "outside": outside, "cleanup": cleanup_raises, "subs": subs}
    if ctx != "none":
        case["ctx"] = ctx       # the task is suspended INSIDE a `with` block of an async context
    if opts:
        case["opts"], case["optswhen"] = opts, "mid"    # switched on while the task is suspended
    return case


def run_suspended(case):
    """an AsyncTask that is suspended at a yield inside try/finally is completed from outside (set_value / set_error
    by the flush body of the batch it waits for); its clean-up may raise.  C10: the outcome is the outside one, set once,
    and every subscriber is notified exactly once; the outside set returns - or, if the clean-up raises, raises exactly that
    exception after the notifications.  (Judged by a direct expectation, Drv/Futures.lean handleSuspended, mode futsusp:
    blocking tasks are not in the one-future model.)"""
    import asynq
    from asynq import batching

    from asynq import _debug
    v1, e1, boom = ("v", 1), UserErr("outside"), RuntimeError("clean-up raises")
    holder = []
    log = []
    ctx = case.get("ctx", "none")
    sv = asynq.AsyncScopedValue(("outside",))
    events = []

    class Ctx(asynq.AsyncContext):
        def resume(self):
            events.append("resume")

        def pause(self):
            events.append("pause")

    def block():
        if ctx == "scoped":
            return sv.override(("inside",))
        if ctx == "custom":
            return Ctx()
        import contextlib
        return contextlib.nullcontext()

    class B(batching.BatchBase):
        def _try_switch_active_batch(self):
            if cur[0] is self:
                cur[0] = B()

        def _flush(self):
            t = holder[0]
            if case.get("optswhen") == "mid":
                for o in case.get("opts") or []:
                    setattr(_debug.options, o, True)      # restored by run_case
            try:
                if case["outside"] == "value":
                    t.set_value(v1)
                else:
                    t.set_error(e1)
            except BaseException as x:
                log.append("set-raised-" + ("boom" if x is boom else type(x).__name__))
            for it in self.items:
                it.set_value(0)

    class I(batching.BatchItemBase):
        def __init__(self):
            batching.BatchItemBase.__init__(self, cur[0])

    cur = [None]
    cur[0] = B()

    @asynq.asynq()
    def body():
        with block():
            try:
                yield I()
            finally:
                if case["cleanup"]:
                    raise boom
        return ("v", 2)

    asynq.scheduler.reset()
    t = body.asynq()
    holder.append(t)
    seen = []
    for sid, raising in enumerate(case["subs"]):
        def cb(f, sid=sid, raising=raising):
            try:
                o = "val" if f.value() is v1 else "other-value"
            except BaseException as x:
                o = "err" if x is e1 else "other-error"
            seen.append("%d:%s" % (sid, o))
            if raising:
                raise RuntimeError("subscriber raises")
        t.on_computed.subscribe(cb)
    try:
        r = t.value()
        out = "val" if r is v1 else "other-value"
    except BaseException as x:
        out = "err" if x is e1 else "raised-" + type(x).__name__
    try:
        r2 = t.value()
        out2 = "val" if r2 is v1 else "other-value"
    except BaseException as x:
        out2 = "err" if x is e1 else "raised-" + type(x).__name__
    asynq.scheduler.reset()
    lines = ["(case futsusp %d %s %d %d)" % (case["id"], case["outside"], 1 if case["cleanup"] else 0, len(case["subs"])),
             "(result %s %s (%s) (%s))" % (out, out2, " ".join(seen), " ".join(log)), "(end)"]
    if ctx == "scoped" and sv.get() != ("outside",):
        lines.insert(1, "(leak scoped-value-not-restored)")       # makes the case unparsable for the driver: reported
    feats = ["suspended-completed-outside", "suspended-in-context=" + ctx]
    if case.get("optswhen") == "mid":
        feats.append("suspended-completed-under-options-switched-in-flight")
    return {"lines": lines, "features": feats, "nontrivial": "susp-%s-%s-%s-%s-%s" % (
        case["outside"], case["cleanup"], case["subs"], ctx, case.get("opts"))}


def shrink(case):
    if case.get("special") == "futsubs":
        subs = case["subs"]
        for i in range(len(subs)):
            c = dict(case)
            c["subs"] = subs[:i] + subs[i + 1:]
            yield c
        for i, sub in enumerate(subs):
            if sub[1] != "good":
                c = dict(case)
                c["subs"] = subs[:i] + [[sub[0], "good"]] + subs[i + 1:]
                yield c
        for flag, off in (("prior", False), ("opts", []), ("weak", False), ("thread", "same")):
            if case.get(flag) and case.get(flag) != off:
                c = dict(case)
                c[flag] = off
                yield c
        if case["target"] == "nested" and case["depth"] > 1:
            c = dict(case)
            c["depth"] = case["depth"] - 1
            yield c
        return
    if case.get("special"):
        return
    ops = case["ops"]
    extra = {k: case[k] for k in ("opts", "weak", "badarg", "via") if case.get(k)}
    for k in extra:
        yield dict({j: v for j, v in extra.items() if j != k}, kind=case["kind"], ops=ops)
    for i in range(len(ops)):
        yield dict(extra, kind=case["kind"], ops=ops[:i] + ops[i + 1:])
    for i, o in enumerate(ops):
        if o[0] == "subscribe" and o[2] not in ("good", 0):
            yield dict(extra, kind=case["kind"], ops=ops[:i] + [[o[0], o[1], "good"]] + ops[i + 1:])
    if case["kind"][1] != 1:
        yield dict(extra, kind=[case["kind"][0], 1], ops=ops)


def neighbours(case, rng):
    if case.get("special"):
        return
    extra = {k: case[k] for k in ("opts", "weak", "badarg", "via") if case.get(k)}
    for k in KINDS:
        yield dict(extra, kind=[k, case["kind"][1] if k == case["kind"][0] else 1], ops=case["ops"])
    for _ in range(24):
        ops = [list(o) for o in case["ops"]]
        ids = _Ids(ops)       # new subscribers get ids that are not in use: a handler is subscribed once
        if ops and rng.random() < 0.5:
            i = rng.randrange(len(ops))
            if ops[i][0] == "subscribe":
                continue
            ops[i] = gen_op(rng, ids)
        else:
            ops.insert(rng.randint(0, len(ops)), gen_op(rng, ids))
        yield dict(extra, kind=case["kind"], ops=ops)


def signature(case, v):
    if case.get("special") == "futsubs":
        return "futsubs/%s/%s" % (case["target"], v["spec"])
    if case.get("special") == "futcopy":
        return "futcopy/%s/%s" % (case["what"], v["spec"])
    if case.get("special"):
        return "suspended/%s" % v["spec"]
    if "subscriber-repr-error-escapes@" in v["spec"]:
        # a REGRESSION of /repo 9f49616 (FutureBase._computed must guard safe_repr(e)), whichever kind of future and whichever
        # operation completes it; the Lean observer gives this name only when the first exception of the round comes from a
        # raisingWorse subscriber, the completer raised exactly what escaped and everything else is right.  No open entry of
        # known_findings.json has this signature: it is reported as a VIOLATION
        return "subscriber-repr-error-escapes"
    return "%s/%s" % (case["kind"][0], v["spec"])


# ---------------------------------------------------------------------------------------------------
# implementation side
# ---------------------------------------------------------------------------------------------------

class UserErr(Exception):
    pass


class FalsyErr(Exception):
    """an error that is falsy (`if self._error:` instead of `is not None` would lose it)"""

    def __bool__(self):
        return False

    def __len__(self):
        return 0


class EqAllErr(Exception):
    """an error that claims to be equal to everything"""

    def __eq__(self, other):
        return True

    def __ne__(self, other):
        return False

    def __hash__(self):
        return 0


class BaseOnlyErr(BaseException):
    """not an Exception: only `except BaseException` sees it"""


class HostileReprErr(Exception):
    def __repr__(self):
        raise RuntimeError("repr of the error raises")

    __str__ = __repr__


class SubBadErr(Exception):
    """what a `raisingBad` subscriber raises: an Exception that cannot be printed (repr() and str() raise)"""

    def __init__(self, env):
        Exception.__init__(self)
        self.env = env

    def __repr__(self):
        raise self.env.sub_repr_err

    __str__ = __repr__


class ReprErrBadStr(Exception):
    """what repr() of a `raisingWorse` subscriber's exception raises: an Exception whose str() raises (qcore.safe_repr formats
    it with %s inside its own except clause)"""

    def __init__(self, env):
        Exception.__init__(self)
        self.env = env

    def __str__(self):
        raise self.env.sub_repr_err

    __repr__ = __str__


class SubWorseErr(Exception):
    """what a `raisingWorse` subscriber raises: repr() / str() raise an Exception that cannot be formatted either"""

    def __init__(self, env):
        Exception.__init__(self)
        self.env = env

    def __repr__(self):
        raise ReprErrBadStr(self.env)

    __str__ = __repr__


class EqAll(object):
    """a value equal to everything (`_value != _none` instead of `is not` would see 'not computed')"""

    def __eq__(self, other):
        return True

    def __ne__(self, other):
        return False

    def __hash__(self):
        return 0


class Hostile(object):
    """a value that cannot be inspected: truth value, comparison, hash and repr all raise"""

    def __bool__(self):
        raise RuntimeError("bool of the value raises")

    def __eq__(self, other):
        raise RuntimeError("eq of the value raises")

    def __hash__(self):
        raise RuntimeError("hash of the value raises")

    def __repr__(self):
        raise RuntimeError("repr of the value raises")


class BadRepr(object):
    """an argument of a task that cannot be printed (AsyncTask.to_str formats the arguments with %r; since f0f10a3 it
    falls back to a description without arguments for every Exception)"""

    def __init__(self, env):
        self.env = env

    def __repr__(self):
        raise self.env.bad_repr_err


def special_errors(futures):
    """error tokens 8..13: exception OBJECTS with a meaning to the library (made through the public API)"""
    import asynq
    from asynq import batching
    slot = futures.ConstFuture(("slot taken",))
    try:
        slot.set_value(("second",))          # refused: the library's own FutureIsAlreadyComputed, about ANOTHER future
        refused = futures.FutureIsAlreadyComputed(slot)
    except futures.FutureIsAlreadyComputed as e:
        refused = e
    used = UserErr("e11: already failed another task")

    @asynq.asynq()
    def fails():
        raise used
        yield
    try:
        fails()
    except UserErr:
        pass
    return {8: refused, 9: asynq.AsyncTaskCancelledError("e9"), 10: batching.BatchCancelledError("e10"), 11: used,
            12: AttributeError("e12"), 13: TypeError("e13")}


class Env(object):
    """tokens <-> objects (by identity), the notification log and the subscriber callbacks; shared by the one-future
    histories and the futsubs family"""

    def __init__(self, futures, share=None, weak=False):
        self.futures = futures
        # weak: the harness keeps NO strong reference to the subscribers it registers (only the future's on_computed does);
        # together with gc.collect() before a completion this shows a handler list that does not keep its handlers alive
        self.weak = weak
        self.cancel_err = None
        self.bad_repr_err = ValueError("repr of the task's argument raises")
        self.sub_repr_err = RuntimeError("repr of the subscriber's exception raises")
        if share is not None:      # a second future watched in the same case: same objects, own log and handlers
            self.vals, self.errs = share.vals, share.errs
            self.sub_repr_err = share.sub_repr_err
            self.weak = share.weak
            self.cblog, self.handlers = [], {}
            self._index()
            return
        self.vals = {0: None, 1: ("v", 1), 2: 0, 3: "", 4: EqAll(), 5: ValueError("a value, not an error"),
                     6: futures.ConstFuture(("inner",)), 7: ("placeholder for the future itself",), 8: Hostile(), 9: False}
        self.errs = {0: None, 1: UserErr("e1"), 2: FalsyErr("e2"), 3: EqAllErr("e3"), 4: BaseOnlyErr("e4"),
                     5: StopIteration("e5"), 6: HostileReprErr("e6")}
        self.errs.update(special_errors(futures))
        self.cblog = []
        self.handlers = {}
        self._index()

    def _index(self):
        if not hasattr(self, "weakly"):
            self.weakly = set()     # ids of the subscribers that are only weakly referenced from here
        self.val_tok = {id(v): k for k, v in self.vals.items() if v is not None}
        self.err_tok = {id(e): k for k, e in self.errs.items() if e is not None}

    def set_self(self, fut):
        self.vals[7] = fut
        self._index()

    def vt(self, v):
        if v is None:
            return 0
        return self.val_tok.get(id(v), UNKNOWN)

    def et(self, e):
        t = self.err_tok.get(id(e))
        if t is None and type(e).__name__ == "BatchCancelledError":
            # the error the library itself creates for cancel() without argument: token 7, ONE instance per case
            if self.cancel_err is None:
                self.cancel_err = e
            return 7 if e is self.cancel_err else UNKNOWN
        return UNKNOWN if t is None else t

    def peek(self, f):
        if not f.is_computed():
            return "none"
        try:
            v = f.value()
        except BaseException as e:  # noqa
            return "(err %d)" % self.et(e)
        return "(val %d)" % self.vt(v)

    def exc_res(self, e, unsub=False):
        if id(e) in self.err_tok:
            return "(raised user %d)" % self.err_tok[id(e)]
        if e is self.cancel_err and e is not None:
            return "(raised user 7)"
        if e is self.sub_repr_err:
            return "(raised subRepr)"   # what left safe_repr(subscriber's exception) inside FutureBase._computed's except clause
        if (type(e) is AttributeError and "_id" in str(e)) or e is self.bad_repr_err:
            return "(raised hook)"      # AsyncTask.collect_perf_stats() could not run for the task
        if isinstance(e, self.futures.FutureIsAlreadyComputed):
            return "(raised alreadyComputed)"
        if isinstance(e, NotImplementedError):
            return "(raised notImplemented)"
        if unsub and type(e) is ValueError:
            return "(raised notSubscribed)"
        return "(raised other %s)" % type(e).__name__

    def handler(self, sid):
        """the handler with that id; an id nobody subscribed is a function that is not in any handler list"""
        h = self.handlers.get(sid)
        if self.weak and h is not None and sid in self.weakly:
            h = h()      # None if nothing kept the subscriber alive
        if h is None:
            h = self.handlers[sid] = lambda f: None
            self.weakly.discard(sid)
        return h

    def make_cb(self, sid, beh):
        env = self
        kind = beh[0]
        if kind in (0, 1):
            kind = "raising" if kind else "good"

        def cb(f):
            rec = [sid, env.peek(f), None]
            env.cblog.append(rec)
            if kind == "raising":
                raise (RuntimeError, FalsyErr, EqAllErr)[sid % 3]("subscriber %d raises" % sid)
            if kind == "raisingBad":
                raise SubBadErr(env)
            if kind == "raisingWorse":
                raise SubWorseErr(env)
            if kind == "oneShot":
                f.on_computed.unsubscribe(cb)
            elif kind == "unsub":
                f.on_computed.unsubscribe(env.handler(beh[1]))
            elif kind == "resub":
                f.on_computed.subscribe(env.make_cb(beh[1], ["good"]))
            elif kind == "reenter":
                try:
                    if beh[1] == "val":
                        f.set_value(env.vals[beh[2]])
                    else:
                        f.set_error(env.errs[beh[2]])
                    rec[2] = "(unit)"
                except BaseException as e:  # noqa
                    rec[2] = env.exc_res(e)
        if self.weak:
            import weakref
            self.handlers[sid] = weakref.ref(cb)
            self.weakly.add(sid)
        else:
            self.handlers[sid] = cb
        return cb

    def take_cbs(self):
        out = " ".join("(%d %s)" % (r[0], r[1]) if r[2] is None else "(%d %s %s)" % (r[0], r[1], r[2]) for r in self.cblog)
        del self.cblog[:]
        return out


def beh_str(beh):
    if beh[0] in (0, 1):
        return "raising" if beh[0] else "good"
    if beh[0] == "reenter":
        return "reenter (%s %d)" % (beh[1], beh[2])
    return " ".join(str(x) for x in beh)


def op_str(op):
    if op[0] == "subscribe":
        return "subscribe %d %s" % (op[1], beh_str(op[2:]))
    if op[0] == "setError" and op[1] == 0:
        return "setErrorNone"
    if op[0] == "inspect":
        return "inspect"
    return " ".join(str(x) for x in op)


def run_case(case):
    from asynq import _debug
    names = sorted(set(OPTION_NAMES.values()) | set(case.get("opts") or []))
    old = {o: getattr(_debug.options, o) for o in names}
    whole = case.get("opts") and case.get("optswhen", "whole") == "whole"
    if whole:
        for o in case["opts"]:
            setattr(_debug.options, o, True)
    try:
        r = run_case1(case)
    finally:
        # whatever the case switched in mid-flight is switched back; a completion that failed half-way may have left
        # the scheduler of this thread with an active task
        for o, v in old.items():
            setattr(_debug.options, o, v)
        import asynq
        asynq.scheduler.reset()
    if case.get("opts"):
        r["features"] += ["option=%s/%s" % (o, case.get("optswhen", "whole")) for o in case["opts"]]
    return r


_PROBE = {}


def perf_stats_step_runs():
    """can `collect_perf_stats()` run (a) for an AsyncTask that was created while COLLECT_PERF_STATS was off and completes
    under it, (b) for a task called with an argument whose repr() raises ValueError?  Facts about the profiler, not about
    futures: probed once per worker on tasks of its own and handed to the model as `Cfg.statsOk` (both True on the current
    tree; a tree on which one is False makes the model predict Exc.hook, which the observer rejects)."""
    if "noid" not in _PROBE:
        import asynq
        from asynq import _debug

        class Unprintable(object):
            def __repr__(self):
                raise ValueError("repr of the probe's argument raises")

        old = _debug.options.COLLECT_PERF_STATS
        try:
            for key, arg, early in (("noid", 1, True), ("badarg", Unprintable(), False)):
                _debug.options.COLLECT_PERF_STATS = not early
                try:
                    @asynq.asynq()
                    def body(a):
                        return 1
                        yield
                    t = body.asynq(arg)
                    _debug.options.COLLECT_PERF_STATS = True
                    try:
                        t.value()
                        ok = True
                    except (AttributeError, ValueError):
                        ok = False
                    except BaseException:  # noqa  (anything else is not this step's failure; the cases will show it)
                        ok = True
                finally:
                    asynq.scheduler.reset()
                _PROBE[key] = ok
        finally:
            _debug.options.COLLECT_PERF_STATS = old
    return _PROBE


def run_case1(case):
    if case.get("special") == "suspended":
        return run_suspended(case)
    if case.get("special") == "futsubs":
        return run_futsubs(case)
    if case.get("special") == "futcopy":
        return run_futcopy(case)
    import gc
    import asynq
    from asynq import futures, _debug

    env = Env(futures, weak=bool(case.get("weak")))
    vals, errs, vt, et = env.vals, env.errs, env.vt, env.et
    perf0 = "COLLECT_PERF_STATS" in (case.get("opts") or [])
    # can collect_perf_stats() of the task run?  probed on the tree under test (see perf_stats_step_runs)
    badarg = bool(case.get("badarg")) and case["kind"][0] in ("taskOk", "taskErr")
    probe = perf_stats_step_runs()
    stats_ok = (perf0 or probe["noid"]) and (not badarg or probe["badarg"])
    task_args = (BadRepr(env),) if badarg else ()
    runs = [0]
    kind, arg = case["kind"]

    via = case.get("via", "plain")
    # HOW the provider / body comes by its outcome (the model says only THAT it returns v / raises e): plain = return /
    # raise; future = it calls (a lazy Future) / yields (a task) a ConstFuture / ErrorFuture; task = it calls another
    # asynq function synchronously (an error arrives second-hand, carrying _task); lazy = it reads another lazy Future
    if via == "task" or (via == "lazy" and kind in ("taskOk", "taskErr")):
        @asynq.asynq()
        def inner_fn():
            if kind in ("lazyErr", "taskErr"):
                raise errs[arg]
            return vals[arg]
            yield

    def produce():
        bad = kind in ("lazyErr", "taskErr")
        if via == "future":
            return (futures.ErrorFuture(errs[arg]) if bad else futures.ConstFuture(vals[arg]))()
        if via == "task":
            return inner_fn()
        if via == "lazy":
            def p2():
                if bad:
                    raise errs[arg]
                return vals[arg]
            return futures.Future(p2).value()
        if bad:
            raise errs[arg]
        return vals[arg]

    if kind in ("lazyOk", "lazyErr"):
        def provider():
            runs[0] += 1
            return produce()
        fut = futures.Future(provider)
    elif kind == "lazySelfSet":
        holder = []

        def provider():
            runs[0] += 1
            holder[0].set_value(vals[arg])      # somebody completes the future while its provider is running
            return vals[(arg % 3) + 1]
        fut = futures.Future(provider)
        holder.append(fut)
    elif kind == "const":
        fut = futures.ConstFuture(vals[arg])
    elif kind == "error":
        fut = futures.ErrorFuture(errs[arg])
    elif kind in ("taskOk", "taskErr"):
        @asynq.asynq()
        def body(*a):
            runs[0] += 1
            if via == "future":      # a dependency that is complete from construction: the task does not block
                r = yield (futures.ErrorFuture(errs[arg]) if kind == "taskErr" else futures.ConstFuture(vals[arg]))
                return r
            if via == "lazy":        # ... an asynq function called with .asynq(): computed by the scheduler, in this call
                r = yield inner_fn.asynq()
                return r
            return produce()
            yield
        fut = body.asynq(*task_args)
    else:
        raise ValueError(kind)
    env.set_self(fut)

    lines = ["(case futures %d %s %d %d %d)" % (case["id"], "errorNone" if (kind, arg) == ("error", 0) else kind, arg,
                                                 1 if stats_ok else 0, 1 if perf0 else 0)]
    completions = 0
    behs = set()
    was = fut.is_computed()
    fresh_subs = False
    perf_now, midflight, perf_seen = perf0, False, False
    for op in case["ops"]:
        del env.cblog[:]
        name = op[0]
        if name == "raiseIfError" and not hasattr(fut, "raise_if_error"):
            # the compiled classes do not export raise_if_error() (cdef inline in futures.pxd): describe the future instead
            op, name = ["inspect", "repr"], "inspect"
        if env.weak and fresh_subs and name in ("value", "error", "call", "setValue", "setError"):
            gc.collect()
            fresh_subs = False
        try:
            if name == "value":
                res = "(ok %d)" % vt(fut.value())
            elif name == "call":
                res = "(ok %d)" % vt(fut())
            elif name == "error":
                e = fut.error()
                res = "(errIs none)" if e is None else "(errIs %d)" % et(e)
            elif name == "isComputed":
                res = "(bool %d)" % (1 if fut.is_computed() else 0)
            elif name == "setValue":
                fut.set_value(vals[op[1]])
                res = "(unit)"
            elif name == "setError":
                fut.set_error(errs[op[1]])
                res = "(unit)"
            elif name == "reset":
                fut.reset_unsafe()
                res = "(unit)"
            elif name == "subscribe":
                behs.add(beh_str(op[2:]).split()[0])
                fut.on_computed.subscribe(env.make_cb(op[1], op[2:]))
                fresh_subs = True
                res = "(unit)"
            elif name == "option":
                setattr(_debug.options, OPTION_NAMES[op[1]], bool(op[2]))
                if op[1] == "perf":
                    perf_now = bool(op[2])
                res = "(unit)"
            elif name == "raiseIfError":
                fut.raise_if_error()
                res = "(unit)"
            elif name == "inspect":
                # what the description looks like (or that describing a hostile value fails) is not the point:
                # describing a future must not compute it, change it or notify anybody
                try:
                    (repr if op[1] == "repr" else str)(fut)
                except Exception:  # noqa
                    pass
                res = "(unit)"
            elif name == "unsubscribe":
                fut.on_computed.unsubscribe(env.handler(op[1]))
                res = "(unit)"
            else:
                raise ValueError(name)
        except BaseException as e:  # the outcome of the operation, not a harness failure
            if type(e).__name__ == "CaseTimeout":
                raise
            res = env.exc_res(e, unsub=(name == "unsubscribe"))
        ncb = len(env.cblog)
        cbs = env.take_cbs()
        now = fut.is_computed()
        if now and not was:
            completions += 1
            if perf_now and not perf0 and kind in ("taskOk", "taskErr"):
                midflight = True
            perf_seen = perf_seen or perf_now
            if ncb:
                behs.add("notified<=%d" % next(b for b in (1, 4, 16, 64, 10**9) if ncb <= b))
        was = now
        lines.append("(obs (%s) %s (%s) %s %d)" % (op_str(op), res, cbs, env.peek(fut), runs[0]))
    lines.append("(end)")
    feats = ["kind=" + kind, "len<=%d" % next(b for b in (1, 3, 8, 20, 40, 10**9) if len(case["ops"]) <= b)]
    feats += sorted({"op=" + op_str(o).split()[0] for o in case["ops"]})
    feats += sorted("sub=" + b for b in behs)
    feats.append("completions=%d" % min(completions, 3))
    if case.get("family"):
        feats.append("family=" + case["family"])
    if midflight:
        feats.append("task-completed-under-profiling-switched-on-in-flight" + ("" if stats_ok else "/perf-stats-step-fails"))
    if any("(raised subRepr)" in ln for ln in lines):
        feats.append("completer-got-the-exception-of-safe_repr(subscriber's exception)")
    if badarg:
        feats.append("task-with-unprintable-argument" + ("/completed-under-profiling" if perf_seen and completions else ""))
    if env.weak:
        feats.append("weak-subscribers+gc")
    if via != "plain":
        feats.append("via=%s/%s" % (via, kind))
    if True:
        feats.append("arg=%s%d" % ("e" if kind in ("lazyErr", "taskErr", "error") else "v", arg))
    nontrivial = None
    if completions >= 1 and len(case["ops"]) >= 3:
        nontrivial = hashlib.sha1(json.dumps([case["kind"], case["ops"]]).encode()).hexdigest()[:16]
    return {"lines": lines, "features": feats, "nontrivial": nontrivial}


_SHARED = {}
_SERIAL = [0]


def in_thread(fn):
    """run fn() in a fresh thread that is gone when this returns: ("ok", result) | ("exc", exception) | ("hang", None)"""
    import threading
    box = []

    def runner():
        try:
            box.append(("ok", fn()))
        except BaseException as e:  # noqa
            box.append(("exc", e))
    t = threading.Thread(target=runner)
    t.daemon = True
    t.start()
    t.join(CASE_TIMEOUT * 0.6)
    return box[0] if box else ("hang", None)


def run_futsubs(case):
    """notification rounds of futures outside the one-future model: batch items / batches of a user batch class,
    DebugBatchItem / DebugBatch (also cancelled, constructed directly, debug.sync), AsyncTasks that block on an item or on
    another task and are reached through the seldom used entry points (deduplicate, async_proxy, asynq.result,
    pure=True, async_call, a bound method of a copied object, one decorator object shared by several functions, a body
    inside a scoped-value override), a Future awaited by a task.
    Round 1 = the natural completion path of the target, round 2 = reset_unsafe() + set_value / set_error from outside.
    After each round: a second set must raise FutureIsAlreadyComputed, value() and call must report the outcome, and so
    must error(), is_computed(), raise_if_error(), a refused set_error / set_error(None) / set_value, a late handler
    subscribed and removed again (never notified), a last value().
    Dimensions: `thread` (the target is created in another thread / completed by another thread / both),
    `optswhen` (debug options on for the whole case / switched on after creation+subscription / before round 2 /
    on at creation and off before the completion), `weak` (nobody but the future keeps the subscribers alive)."""
    import gc
    import asynq
    from asynq import batching, futures, _debug

    env = Env(futures, weak=bool(case.get("weak")))
    vals, errs = env.vals, env.errs
    target, nitems, which = case["target"], case["nitems"], case["which"] % case["nitems"]
    v1, e1 = vals[case["v1"]], errs[case["e1"]]
    thread = case.get("thread", "same")
    optswhen = case.get("optswhen", "whole") if case.get("opts") else "none"
    asynq.scheduler.reset()
    _SERIAL[0] += 1
    uniq = "c10-%d-%d" % (case["id"], _SERIAL[0])

    def set_opts(on):
        for o in case.get("opts") or []:
            setattr(_debug.options, o, on)

    class B(batching.BatchBase):
        def _try_switch_active_batch(self):
            if cur[0] is self:
                cur[0] = B()

        def _flush(self):
            for it in self.items:
                if it is not skip[0]:
                    it.set_value(v1 if it is marked[0] else ("other", it.index))

    class I(batching.BatchItemBase):
        def __init__(self):
            batching.BatchItemBase.__init__(self, cur[0])

    cur, marked, skip = [None], [None], [None]
    cur[0] = B()

    if case.get("prior"):
        # leftover state: an earlier computation on this thread failed in the middle of a batch wait
        @asynq.asynq()
        def failing():
            yield I()
            raise UserErr("prior computation fails")
        try:
            failing()
        except UserErr:
            pass

    def create():
        """-> (watched future, go, expected first outcome or None = v1)"""
        if target.startswith("item-") or target.startswith("batch-"):
            batch = cur[0]
            items = [I() for _ in range(nitems)]
            marked[0] = items[which]
            if case.get("link"):
                # a handler of item `src` re-enters the library while the batch completes its items (family link)
                how, src, dst = case["link"]
                sib = items[dst % nitems]

                def link_handler(_f):
                    try:
                        if how == "sibling-value":
                            sib.set_value(("fallback", dst))
                        elif how == "sibling-error":
                            sib.set_error(errs[2])
                        elif how == "batch-set":
                            batch.set_value(None)
                        elif how == "batch-cancel":
                            batch.cancel()
                        else:
                            batch.flush()
                    except BaseException:  # noqa  (a refused second completion: FutureIsAlreadyComputed / BatchingError)
                        pass
                items[src % nitems].on_computed.subscribe(link_handler)
            if target.startswith("item-"):
                fut = items[which]
                if target == "item-value":
                    return fut, fut.value, None
                if target == "item-flush":
                    return fut, batch.flush, None
                if target == "item-set":
                    return fut, (lambda: fut.set_value(v1)), None
                if target == "item-cancel0":
                    return fut, batch.cancel, "(err 7)"
                return fut, (lambda: batch.cancel(e1)), "(err %d)" % case["e1"]
            if target == "batch-flush":
                return batch, batch.flush, "(val 0)"          # a flushed batch holds None
            if target == "batch-via-item":
                return batch, items[which].value, "(val 0)"
            if target == "batch-cancel0":
                return batch, batch.cancel, "(err 7)"         # cancel() without argument: the library's own error
            return batch, (lambda: batch.cancel(e1)), "(err %d)" % case["e1"]
        if target.startswith("debug"):
            if target == "debugbatch-direct":
                # a DebugBatch constructed directly (public class): it is in no thread's table of active debug batches
                batch = batching.DebugBatch(uniq)
                items = []

                class PlainItem(batching.BatchItemBase):    # (the compiled base class has no room for `_result`)
                    pass
                for k in range(nitems):
                    it = PlainItem(batch)
                    it._result = v1 if k == which else ("other", k)
                    items.append(it)
            elif target == "debugitem-sync":
                items = [asynq.debug.sync(uniq) for _ in range(nitems)]
                batch = items[0].batch
            else:
                items = [batching.DebugBatchItem(uniq, v1 if k == which else ("other", k)) for k in range(nitems)]
                batch = items[0].batch
            it = items[which]
            if target == "debugitem":
                return it, it.value, None
            if target == "debugitem-sync":
                return it, it.value, "(val 0)"
            if target == "debugitem-flush":
                return it, batch.flush, None
            if target == "debugitem-cancel":
                return it, (lambda: batch.cancel(e1)), "(err %d)" % case["e1"]
            if target == "debugitem-cancel0":
                return it, batch.cancel, "(err 7)"
            if target in ("debugbatch", "debugbatch-direct"):
                return batch, (it.value if target == "debugbatch" else batch.flush), "(val 0)"
            if target == "debugbatch-cancel":
                return batch, (lambda: batch.cancel(e1)), "(err %d)" % case["e1"]
            if target == "debugbatch-cancel0":
                return batch, batch.cancel, "(err 7)"
            raise ValueError(target)
        if target == "task-blocked":
            @asynq.asynq()
            def body():
                yield [I() for _ in range(nitems)]
                return v1
            fut = body.asynq()
            return fut, fut.value, None
        if target == "task-dep":
            @asynq.asynq()
            def leaf():
                yield I()
                return v1

            @asynq.asynq()
            def body():
                r = yield leaf.asynq()
                return r
            fut = body.asynq()
            return fut, fut.value, None
        if target == "task-result":
            @asynq.asynq()
            def body():
                yield I()
                asynq.result(v1)        # ends the task through AsyncTaskResult instead of `return`
                return ("not reached",)
            fut = body.asynq()
            return fut, fut.value, None
        if target == "task-pure":
            @asynq.asynq(pure=True)
            def body():
                yield I()
                return v1
            fut = body()                # a pure async function returns its task when it is called
            return fut, fut.value, None
        if target == "task-async-call":
            @asynq.asynq()
            def body(a, k=None):
                yield I()
                return v1
            fut = asynq.async_call.asynq(body, 1, k=2)
            return fut, fut.value, None
        if target == "task-dedup":
            from asynq import tools

            @tools.deduplicate()
            @asynq.asynq()
            def body(k):
                yield I()
                return v1
            fut = body.asynq(1)
            again = body.asynq(1)       # the in-flight task is shared: the subscribers below sit on the shared task
            if again is not fut:
                raise AssertionError("deduplicate returned a second task for the same key")
            return fut, fut.value, None
        if target == "task-proxy":
            @asynq.asynq()
            def leaf():
                yield I()
                return v1

            @asynq.async_proxy()
            def proxy():
                return leaf.asynq()
            fut = proxy.asynq()         # the proxy hands the leaf's task through
            return fut, fut.value, None
        if target == "task-method":
            import copy

            class Holder(object):
                @asynq.asynq()
                def method(self):
                    yield I()
                    return v1
            h = copy.copy(Holder())     # a copied object: its bound async method is bound anew
            fut = h.method.asynq()
            return fut, fut.value, None
        if target == "task-shared":
            # ONE decorator object applied to several functions (and reused by every later case of this worker)
            deco = _SHARED.get("deco")
            if deco is None:
                deco = _SHARED["deco"] = asynq.asynq()

            @deco
            def first():
                yield I()
                return ("first",)

            @deco
            def second():
                yield I()
                return v1
            other = first.asynq()
            fut = second.asynq()

            def both():
                try:
                    other.value()
                except Exception:  # noqa  (under options switched in mid-flight the completer may get an exception)
                    pass
                return fut.value()
            return fut, both, None
        if target == "task-generator":
            @asynq.async_generator()
            def produce():
                yield I()
                yield asynq.Value(v1)
            fut = next(produce())       # the task that computes the first Value of an async generator
            return fut, fut.value, None
        if target == "task-ctx":
            sv = asynq.AsyncScopedValue(("outside",))

            @asynq.asynq()
            def body():
                with sv.override(("inside",)):
                    yield I()
                    ok = sv.get() == ("inside",)
                return v1 if ok else ("scoped value lost",)
            fut = body.asynq()
            return fut, fut.value, None
        if target in ("future-value", "nested"):
            fut = futures.Future(lambda: v1)
            return fut, fut.value, None
        if target == "future-in-task":
            fut = futures.Future(lambda: v1)

            @asynq.asynq()
            def waiter():
                r = yield fut
                return r
            return fut, waiter, None
        if target == "future-proxy":
            fut = futures.Future(lambda: v1)

            @asynq.async_proxy()
            def proxy():
                return fut

            @asynq.asynq()
            def waiter():
                r = yield proxy.asynq()
                return r
            return fut, waiter, None
        raise ValueError(target)

    if optswhen in ("whole", "offmid"):
        set_opts(True)
    if thread in ("create", "both"):
        st, made = in_thread(create)
        if st != "ok":
            raise made if st == "exc" else RuntimeError("creating the target in another thread hangs")
    else:
        made = create()
    fut, go, first = made
    if target.startswith("batch-") or target.startswith("debugbatch"):
        v1 = None
    if first is None:
        first = "(val %d)" % case["v1"]

    lines = ["(case futsubs %d %s %d)" % (case["id"], target, len(case["subs"]))]
    # the watched futures: (env, future, its lines); every one gets its own instances of the case's subscribers
    watched = [(env, fut, [])]
    if target == "nested":
        # level k's notification round completes level k+1 from the inside (a handler in the middle of the list calls
        # set_value on the next future): notification rounds nested `depth` deep, each judged on its own
        for level in range(1, case["depth"] + 1):
            watched.append((Env(futures, share=env), futures.Future(lambda: ("never computed by provider",)), []))
    for level, (env_k, fut_k, lines_k) in enumerate(watched):
        pos = case.get("pos", 0) if level + 1 < len(watched) else -1
        for n, sub in enumerate(case["subs"]):
            if n == pos:
                fut_k.on_computed.subscribe(lambda f, nxt=watched[level + 1][1]: nxt.set_value(v1))
            lines_k.append("(sub %d %s)" % (sub[0], beh_str(sub[1:])))
            fut_k.on_computed.subscribe(env_k.make_cb(sub[0], sub[1:]))
        if pos >= len(case["subs"]):
            fut_k.on_computed.subscribe(lambda f, nxt=watched[level + 1][1]: nxt.set_value(v1))

    def one_round(go, expected, elsewhere=False):
        for env_k, _, _ in watched:
            del env_k.cblog[:]
        if env.weak:
            gc.collect()
        try:
            if elsewhere:
                in_thread(go)
            else:
                go()
        except BaseException as e:  # noqa  (item-cancel etc. do not raise; a raise shows in the reads below)
            if type(e).__name__ == "CaseTimeout":
                raise
        for env_k, fut_k, lines_k in watched:
            cbs = env_k.take_cbs()
            out = env_k.peek(fut_k)
            try:
                fut_k.set_value(("again",))
                again = "(unit)"
            except BaseException as e:  # noqa
                again = env_k.exc_res(e)
            reads = []
            for rd in (fut_k.value, fut_k):
                try:
                    reads.append("(ok %d)" % env_k.vt(rd()))
                except BaseException as e:  # noqa
                    reads.append(env_k.exc_res(e))
            # further operations on the completed target (judged by the computed branch of the Lean observer): error(),
            # is_computed(), raise_if_error(), ONE refused set (set_error / set_error(None) / set_value, varying with the
            # case and the round), a late handler subscribed and removed again, a last value()
            late = 700001 + len(lines_k)
            todo = [["error"], ["isComputed"]]
            if hasattr(fut_k, "raise_if_error"):
                todo.append(["raiseIfError"])
            todo.append([["setError", case["e1"]], ["setError", 0], ["setValue", 2]][(case["which"] + len(lines_k)) % 3])
            todo += [["subscribe", late, "good"], ["unsubscribe", late], ["value"]]
            more = []
            for op in todo:
                try:
                    if op[0] == "error":
                        e = fut_k.error()
                        r = "(errIs none)" if e is None else "(errIs %d)" % env_k.et(e)
                    elif op[0] == "isComputed":
                        r = "(bool %d)" % (1 if fut_k.is_computed() else 0)
                    elif op[0] == "raiseIfError":
                        fut_k.raise_if_error()
                        r = "(unit)"
                    elif op[0] == "setError":
                        fut_k.set_error(errs[op[1]])
                        r = "(unit)"
                    elif op[0] == "setValue":
                        fut_k.set_value(vals[op[1]])
                        r = "(unit)"
                    elif op[0] == "subscribe":
                        fut_k.on_computed.subscribe(env_k.make_cb(op[1], ["good"]))
                        r = "(unit)"
                    elif op[0] == "unsubscribe":
                        fut_k.on_computed.unsubscribe(env_k.handler(op[1]))
                        r = "(unit)"
                    else:
                        r = "(ok %d)" % env_k.vt(fut_k.value())
                except BaseException as e:  # noqa
                    if type(e).__name__ == "CaseTimeout":
                        raise
                    r = env_k.exc_res(e, unsub=(op[0] == "unsubscribe"))
                more.append("((%s) %s)" % (op_str(op), r))
            if env_k.cblog:   # nobody may be notified by the failed sets, the reads or the late subscription
                cbs += " " + env_k.take_cbs()
            lines_k.append("(round %s (%s) %s %s %s %s (%s))" % (out, cbs, again, reads[0], reads[1], expected, " ".join(more)))

    if optswhen == "mid":
        set_opts(True)
    elif optswhen == "offmid":
        set_opts(False)
    one_round(go, first, elsewhere=thread in ("complete", "both"))
    for _, fut_k, _ in watched:
        fut_k.reset_unsafe()
    if optswhen == "mid2":
        set_opts(True)
    if target == "nested":
        v1 = vals[case["v2"]]      # the inner handlers pass v1 on: every level completes with the second value
        one_round(lambda: fut.set_value(v1), "(val %d)" % case["v2"])
    elif case["second"] == "setValue":
        one_round(lambda: fut.set_value(vals[case["v2"]]), "(val %d)" % case["v2"])
    else:
        one_round(lambda: fut.set_error(e1), "(err %d)" % case["e1"])
    for _, _, lines_k in watched:
        lines.append("(fut)")
        lines += lines_k
    asynq.scheduler.reset()
    lines.append("(end)")
    behs = sorted({"sub=" + beh_str(sub[1:]).split()[0] for sub in case["subs"]})
    feats = ["family=futsubs", "target=" + target, "nsubs<=%d" % next(b for b in (0, 1, 4, 16, 64, 10**9) if len(case["subs"]) <= b)]
    feats += behs
    feats.append("thread=" + thread)
    if optswhen not in ("none", "whole"):
        feats.append("options-%s/%s" % (optswhen, target.split("-")[0]))
    if env.weak:
        feats.append("weak-subscribers+gc")
    key = hashlib.sha1(json.dumps([target, case["subs"], case["second"], thread, optswhen]).encode()).hexdigest()[:16] if case["subs"] else None
    return {"lines": lines, "features": feats, "nontrivial": key}


COPY_VALUES = {0: None, 1: ("v", 1), 2: 0, 3: "", 4: False, 5: [1, [2, 3]], 6: {"k": ("v", 2)}, 7: 2 ** 70, 8: b"\x00bytes",
               9: frozenset([1, 2])}
COPY_HOW = ["copy", "deepcopy", "pickle0", "pickle1", "pickle2", "pickle3", "pickle4", "pickle5", "reduce"]


def futcopy_cases():
    res = []
    for how in COPY_HOW:
        for v in sorted(COPY_VALUES):
            res.append({"special": "futcopy", "what": "const", "how": how, "v": v})
        for what in ("none_future", "error", "errorNone"):
            if how != "reduce" or what == "none_future":      # only ConstFuture defines __reduce__ itself
                res.append({"special": "futcopy", "what": what, "how": how, "v": 1})
    return res


def run_futcopy(case):
    """ConstFuture and ErrorFuture are complete from construction - also when the construction is done by copy.copy(),
    copy.deepcopy() or pickle (ConstFuture.__reduce__; asynq/tests/test_futures.py pickles a ConstFuture): the copy is
    computed, reports an outcome equal to the original's (value by ==, error by type and args), refuses a second
    set_value / set_error, does not compute anything, and the original is untouched.  Direct expectation in the driver
    (mode futcopy); no theorem."""
    import copy
    import pickle
    from asynq import futures

    what, how = case["what"], case["how"]
    v = COPY_VALUES[case["v"]]
    err = ValueError("the error of the original", 42)
    if what == "const":
        orig = futures.ConstFuture(v)
    elif what == "none_future":
        orig, v = futures.none_future, None
    elif what == "error":
        orig = futures.ErrorFuture(err)
    else:
        orig, v = futures.ErrorFuture(None), None
    is_err = what == "error"
    out = {"made": 0, "computed": 0, "same": 0, "reads": 0, "again": "(unit)", "kept": 0, "orig": 0}
    try:
        if how == "copy":
            dup = copy.copy(orig)
        elif how == "deepcopy":
            dup = copy.deepcopy(orig)
        elif how == "reduce":
            fn, args = orig.__reduce__()[:2]
            dup = fn(*args)
        else:
            dup = pickle.loads(pickle.dumps(orig, int(how[6:])))
        out["made"] = 1
    except BaseException as e:  # noqa
        dup = None
        out["again"] = "(raised other %s)" % type(e).__name__

    def outcome_ok(f):
        """value() / call / error() of f report the original's outcome (twice)"""
        for _ in range(2):
            if is_err:
                e = f.error()
                if type(e) is not ValueError or e.args != err.args:
                    return False
                for rd in (f.value, f):
                    try:
                        rd()
                        return False
                    except ValueError as x:
                        if x is not e:
                            return False
            else:
                if f.error() is not None:
                    return False
                for rd in (f.value, f):
                    r = rd()
                    if type(r) is not type(v) or r != v:
                        return False
        return True

    if dup is not None:
        try:
            out["computed"] = 1 if dup.is_computed() is True else 0
            out["same"] = 1 if out["computed"] and outcome_ok(dup) else 0
            try:
                if case["v"] % 2:
                    dup.set_value(("another value",))
                else:
                    dup.set_error(RuntimeError("another error"))
            except BaseException as e:  # noqa
                out["again"] = "(raised alreadyComputed)" if isinstance(e, futures.FutureIsAlreadyComputed) else \
                    "(raised other %s)" % type(e).__name__
            out["kept"] = 1 if dup.is_computed() is True and outcome_ok(dup) else 0
        except BaseException as e:  # noqa
            out["again"] = "(raised other %s)" % type(e).__name__
    try:
        out["orig"] = 1 if orig.is_computed() is True and outcome_ok(orig) and (is_err or orig.value() is v) else 0
    except BaseException:  # noqa
        pass
    lines = ["(case futcopy %d %s %s)" % (case["id"], what, how),
             "(result %d %d %d %s %d %d)" % (out["made"], out["computed"], out["same"], out["again"], out["kept"], out["orig"]),
             "(end)"]
    return {"lines": lines, "features": ["family=futcopy", "copy=%s/%s" % (what, how.rstrip("012345"))],
            "nontrivial": "futcopy-%s-%s-%d" % (what, how, case["v"])}
