"""C10  A future is completed at most once and reports one consistent outcome.

Histories of operations on one future of every kind, run on the real classes; the Lean model
(AsynqModel.Lib.Futures) replays the same history (correspondence) and the Lean observer `Futures.spec`
(the statement of C10, proved of the model for all kinds and all histories) judges the implementation's
observations on their own."""
import hashlib
import json
import random

PID = "C10"
LEVEL = "proof"
LEAN_MODULES = ["AsynqModel.Theorems.C10"]
# the claims of the property (each a statement over all kinds / states / histories with a proof that is more than one
# unfolding of the model)
HEADLINE = [
    "AsynqModel.Futures.C10_spec_holds",
    "AsynqModel.Futures.C10_spec_enforces_runs",
    "AsynqModel.Futures.C10_spec_enforces_outcome",
    "AsynqModel.Futures.C10_spec_enforces_read",
    "AsynqModel.Futures.C10_single_assignment",
    "AsynqModel.Futures.C10_stable_until_reset",
    "AsynqModel.Futures.C10_const_complete",
    "AsynqModel.Futures.C10_runs_step",
    "AsynqModel.Futures.C10_provider_once_epoch",
    "AsynqModel.Futures.C10_provider_once",
    "AsynqModel.Futures.C10_provider_once_count",
    "AsynqModel.Futures.C10_notify_once_after_visible",
    "AsynqModel.Futures.C10_notify_count",
    "AsynqModel.Futures.C10_subs_after_completion",
    "AsynqModel.Futures.C10_passive_subs_stay",
    "AsynqModel.Futures.C10_unsubscribed_not_notified",
]
# hold by construction of the model (one unfolding of `step`); audited for axioms like the others, but NOT claims about
# the behaviour: their content is the correspondence run.  (The former C10_failed_set_noop / C10_reads_stable are now
# the lemma `computed_step` in Proofs/Futures.lean, used by C10_stable_until_reset.)
BY_CONSTRUCTION = [
    "AsynqModel.Futures.C10_unsubscribe",
    "AsynqModel.Futures.C10_set_error_none",
]
THEOREMS = HEADLINE + BY_CONSTRUCTION
BUILDS = {"quick": ["py"], "thorough": ["py", "cy"]}
RULE = ("random operation histories (length 1-40, ops value/error/call/is_computed/set_value/set_error/reset_unsafe/"
        "subscribe/unsubscribe) on each future kind (Future ok/raising/self-completing provider, ConstFuture, ErrorFuture, "
        "AsyncTask returning/raising without blocking); error token 0 = None: set_error(None) (about 1 in 8 set_error "
        "operations) and ErrorFuture(None) (1 in 8 ErrorFutures); a subscriber is well-behaved, raising (three exception classes), one-shot "
        "(unsubscribes itself while notified), unsubscribes another handler (earlier, later, itself, unknown), subscribes "
        "a new handler, or re-enters set_value/set_error; value and error tokens stand for exotic objects (None, 0, '', False, "
        "__eq__-always-true, an exception instance as a value, a future as a value, the future itself, an object whose "
        "__bool__/__eq__/__repr__ raise; falsy / eq-all / BaseException-only / StopIteration / raising-repr errors); "
        "family 'burst' = n subscribers (n = 5..257, mixed behaviours) + completion + reset + second completion; family "
        "'futsubs' = the same subscriber lists on batch items, batches, DebugBatchItem and blocking AsyncTasks, two "
        "completions each; family 'suspended' = suspended task completed from outside; non-trivial = history that "
        "contains a completion (uncomputed -> computed) and at least 3 operations; distinct by (kind, history) hash")
TRUSTED = [
    "hand-written Lean model AsynqModel.Lib.Futures tied to the code by this differential run only",
    "Python harness checks/c10.py (token <-> object identity mapping, read-only peek after each operation)",
    "qcore.EventHook.safe_trigger, CPython generator semantics",
]
ASSUMPTIONS = [
    "callbacks raise only Exception (BaseException from a subscriber is out of the statement's scope)",
    "providers / task bodies raise Exception subclasses (a BaseException-only error is passed to set_error / ErrorFuture / "
    "raised by a task body, not by a Future provider: Future._compute lets it through without completing, as any Python code would)",
    "a handler is subscribed at most once (ids are distinct); a handler that another handler unsubscribes before its own "
    "turn in the same notification round, and a handler subscribed during the round, may or may not be notified in it "
    "(the code notifies a snapshot: the former yes, the latter no - the model says so, the observer accepts both)",
    "an error handed to set_error / ErrorFuture is an exception instance or None (None is MODELLED: the future is then "
    "complete with the value None, Op.setErrorNone / Kind.errorNone; any other non-exception object, e.g. a str, makes "
    "value() raise TypeError from the raise statement while error() returns the object - outside the statement)",
    "a subscriber does not call reset_unsafe() on the future that is notifying it (value() of that very call would return "
    "the internal 'not computed' marker; reset_unsafe is documented as never to be used normally)",
    "single thread; completion paths of batches and batch items are C11's model - here only their notification rounds "
    "are judged (family futsubs, same Lean clause notifiedAll, no theorem about how they complete)",
]
KINDS = ["lazyOk", "lazyErr", "const", "error", "taskOk", "taskErr", "lazySelfSet"]
OPS = ["value", "error", "call", "isComputed", "setValue", "setError", "reset", "subscribe", "unsubscribe"]
UNKNOWN = 999999
CASE_TIMEOUT = 5     # a history takes milliseconds; a mutant that makes the scheduler spin must not cost 20 s per case
NVALS = 9      # value tokens 0..9 (see make_objects)
NERRS = 6      # error tokens 1..6
RAISABLE = [1, 2, 3, 6]      # error tokens a Future provider may raise (Exception subclasses)
TASK_RAISABLE = [1, 2, 3, 4, 6]   # a task body may also raise a BaseException-only error (AsyncTask stores it)
BURST_SIZES = {"quick": [5, 9, 17, 33, 65, 129], "thorough": [5, 9, 17, 33, 65, 129, 257]}
SUBS_TARGETS = ["item-value", "item-flush", "item-set", "item-cancel", "batch-flush", "batch-cancel", "batch-via-item",
                "debugitem", "debugbatch", "task-blocked", "task-dep", "future-value", "future-in-task", "nested"]


def kind_arg(rng, kind):
    if kind == "lazyErr":
        return rng.choice(RAISABLE)
    if kind == "taskErr":
        return rng.choice(TASK_RAISABLE)
    if kind == "error":
        return 0 if rng.random() < 0.125 else rng.randint(1, NERRS)      # 0 = ErrorFuture(None)
    if kind == "const":
        return rng.randint(0, NVALS - 3) if rng.random() < 0.8 else rng.choice([8, 9])   # 7 = "the future itself"
    return rng.randint(0, NVALS)


def gen_beh(rng, own, known, fresh):
    """what subscriber `own` does while it is notified; `known` = ids subscribed so far, `fresh()` = a new id"""
    r = rng.random()
    if r < 0.40:
        return ["good"]
    if r < 0.58:
        return ["raising"]
    if r < 0.73:
        return ["oneShot"]
    if r < 0.85:
        q = rng.random()
        if known and q < 0.55:
            return ["unsub", rng.choice(known)]          # an earlier subscriber (already notified when this one runs)
        if q < 0.75:
            return ["unsub", own + rng.randint(1, 2)]    # the next one(s): not yet notified
        if q < 0.9:
            return ["unsub", own]
        return ["unsub", 900000 + own]                   # a handler that was never subscribed: ValueError, swallowed
    if r < 0.92:
        return ["resub", fresh()]
    return ["reenter", rng.choice(["val", "err"]), rng.randint(1, 3)]


class _Ids(object):
    """subscriber ids: 1, 2, 3 ... for subscribe ops; 500001 ... for handlers subscribed from inside a notification"""

    def __init__(self, ops=()):
        self.n = 0
        self.late = 500000
        for o in ops:
            if o[0] == "subscribe":
                self.n = max(self.n, o[1]) if o[1] < 500000 else self.n
                if len(o) > 3 and o[2] == "resub":
                    self.late = max(self.late, o[3])
        self.known = [o[1] for o in ops if o[0] == "subscribe"]

    def fresh_late(self):
        self.late += 1
        return self.late

    def subscribe_op(self, rng, plain=False):
        self.n += 1
        beh = (["raising"] if rng.random() < 0.3 else ["good"]) if plain else gen_beh(rng, self.n, self.known, self.fresh_late)
        self.known.append(self.n)
        return ["subscribe", self.n] + beh


def gen_op(rng, ids, allow_reset=True, plain=False):
    o = rng.choices(OPS, weights=[5, 4, 2, 3, 3, 3, 2 if allow_reset else 0, 4, 1])[0]
    if o == "setValue":
        return [o, rng.randint(0, NVALS)]
    if o == "setError":
        return [o, 0 if rng.random() < 0.125 else rng.randint(1, NERRS)]      # 0 = set_error(None)
    if o == "subscribe":
        return ids.subscribe_op(rng, plain)
    if o == "unsubscribe":
        if ids.known and rng.random() < 0.8:
            return [o, rng.choice(ids.known)]
        return [o, 900000 + rng.randint(0, 5)]
    return [o]


def gen_opts(rng):
    """debug options that switch on the seldom-run branches between 'outcome stored' and 'subscribers notified'
    (FutureBase._computed: DUMP_COMPUTED; AsyncTask._computed: COLLECT_PERF_STATS)"""
    return rng.choice([["DUMP_COMPUTED"], ["COLLECT_PERF_STATS"], ["DUMP_COMPUTED", "COLLECT_PERF_STATS"]])


def gen_case(rng, size=None):
    kind = rng.choice(KINDS)
    n = size if size is not None else rng.choice([1, 2, 3, 4, 6, 8, 12, 20, 40])
    ids = _Ids()
    allow_reset = rng.random() < 0.6
    plain = rng.random() < 0.25      # a quarter of the histories keep to well-behaved / raising subscribers
    ops = [gen_op(rng, ids, allow_reset, plain) for _ in range(n)]
    case = {"kind": [kind, kind_arg(rng, kind)], "ops": ops}
    if rng.random() < 0.12:
        case["opts"] = gen_opts(rng)
    return case


COMPLETERS = [["value"], ["error"], ["call"], ["setValue", 2], ["setError", 2], ["setError", 0]]


def burst_case(rng, n, kind=None):
    """n subscribers with mixed behaviours, a completion, reads, reset_unsafe, a second completion: the size of the
    handler list is the parameter (thresholds in the notification loop / handler storage)"""
    kind = kind or rng.choice([k for k in KINDS if k not in ("const", "error")])
    ids = _Ids()
    ops = [ids.subscribe_op(rng) for _ in range(n)]
    ops.append(list(rng.choice(COMPLETERS)))
    ops += [["isComputed"], ["setValue", 1], ["value"]]
    if rng.random() < 0.5:
        ops.append(["unsubscribe", rng.choice(ids.known)])
    ops += [["reset"], list(rng.choice(COMPLETERS)), ["error"], ["reset"], list(rng.choice(COMPLETERS)), ["call"]]
    case = {"kind": [kind, kind_arg(rng, kind)], "ops": ops, "family": "burst"}
    if rng.random() < 0.12:
        case["opts"] = gen_opts(rng)
    return case


def subs_case(rng, target, n):
    ids = _Ids()
    subs = [ids.subscribe_op(rng)[1:] for _ in range(n)]
    return {"special": "futsubs", "target": target, "subs": subs, "nitems": rng.randint(1, 4), "which": rng.randint(0, 3),
            "v1": rng.randint(0, NVALS - 3), "e1": rng.choice(RAISABLE), "v2": rng.randint(0, NVALS - 3),
            "second": rng.choice(["setValue", "setError"]), "prior": rng.random() < 0.3, "opts": gen_opts(rng) if rng.random() < 0.12 else [],
            "depth": rng.randint(1, 4), "pos": rng.randint(0, n)}


def corpus():
    import glob
    import os
    res = []
    d = os.path.join(os.path.dirname(os.path.dirname(os.path.dirname(os.path.abspath(__file__)))), "corpus", PID)
    for p in sorted(glob.glob(os.path.join(d, "*.json"))):
        with open(p) as f:
            res.append(json.load(f))
    return res


def plan(tier, seed):
    rng = random.Random(seed * 1000003 + 10)
    n = 1500 if tier == "quick" else 40000
    cases = corpus()
    # every kind x every single op and every pair of distinct op kinds (small exhaustive core)
    basic = [["value"], ["error"], ["call"], ["isComputed"], ["setValue", 2], ["setError", 2], ["setError", 0], ["reset"],
             ["subscribe", 1, "good"], ["subscribe", 2, "raising"]]
    for k in KINDS + ["errorNone"]:
        for a in basic:
            for b in basic:
                for c in ([["value"], ["error"]] if tier == "quick" else basic):
                    cases.append({"kind": ["error", 0] if k == "errorNone" else [k, 1], "ops": [[*a], [*b], [*c]]})
    cases += [suspended_case(o, c, subs) for o in ("value", "error") for c in (False, True)
              for subs in ([], [0], [1], [0, 0], [1, 0], [0, 1, 0])]
    # every kind x every pair of subscriber behaviours (+ a plain third subscriber) x completion, reset, second completion
    behs = [["good"], ["raising"], ["oneShot"], ["unsub", 1], ["unsub", 2], ["unsub", 3], ["resub", 500001],
            ["reenter", "val", 3], ["reenter", "err", 1]]
    for k in KINDS:
        if k in ("const", "error") and tier == "quick":
            continue
        for a in behs:
            for b in behs:
                for comp in ([["value"]] if tier == "quick" else [["value"], ["error"], ["setValue", 2], ["setError", 2],
                                                                  ["setError", 0]]):
                    b2 = ["resub", 500002] if b[0] == "resub" else b
                    cases.append({"kind": [k, 1], "family": "behpair",
                                  "ops": [["subscribe", 1] + a, ["subscribe", 2] + b2, ["subscribe", 3, "good"], list(comp),
                                          ["reset"], ["setValue", 3], ["unsubscribe", 3], ["reset"], ["value"]]})
    for size in BURST_SIZES[tier]:
        cases += [burst_case(rng, size) for _ in range(12 if tier == "quick" else 40)]
    for target in SUBS_TARGETS:
        for size in ([0, 1, 2, 3, 4, 6, 12, 40] if tier == "quick" else [0, 1, 2, 3, 4, 5, 6, 8, 12, 20, 40, 130]):
            cases += [subs_case(rng, target, size) for _ in range(4 if tier == "quick" else 12)]
    cases += [gen_case(rng) for _ in range(n)]
    return cases


def suspended_case(outside, cleanup_raises, subs):
    return {"special": "suspended", "outside": outside, "cleanup": cleanup_raises, "subs": subs}


def run_suspended(case):
    """an AsyncTask that is suspended at a yield inside try/finally is completed from outside (set_value / set_error
    by the flush body of the batch it waits for); its clean-up may raise.  C10: the outcome is the outside one, set once,
    and every subscriber is notified exactly once.  (Judged by a direct expectation: blocking tasks are not in the
    one-future model.)"""
    import asynq
    from asynq import batching

    v1, e1, boom = ("v", 1), UserErr("outside"), RuntimeError("clean-up raises")
    holder = []
    log = []

    class B(batching.BatchBase):
        def _try_switch_active_batch(self):
            if cur[0] is self:
                cur[0] = B()

        def _flush(self):
            t = holder[0]
            try:
                if case["outside"] == "value":
                    t.set_value(v1)
                else:
                    t.set_error(e1)
            except BaseException as x:
                log.append("set-raised-" + ("boom" if x is boom else type(x).__name__))
            for it in self.items:
                it.set_value(0)

    class I(batching.BatchItemBase):
        def __init__(self):
            batching.BatchItemBase.__init__(self, cur[0])

    cur = [None]
    cur[0] = B()

    @asynq.asynq()
    def body():
        try:
            yield I()
        finally:
            if case["cleanup"]:
                raise boom
        return ("v", 2)

    asynq.scheduler.reset()
    t = body.asynq()
    holder.append(t)
    seen = []
    for sid, raising in enumerate(case["subs"]):
        def cb(f, sid=sid, raising=raising):
            try:
                o = "val" if f.value() is v1 else "other-value"
            except BaseException as x:
                o = "err" if x is e1 else "other-error"
            seen.append("%d:%s" % (sid, o))
            if raising:
                raise RuntimeError("subscriber raises")
        t.on_computed.subscribe(cb)
    try:
        r = t.value()
        out = "val" if r is v1 else "other-value"
    except BaseException as x:
        out = "err" if x is e1 else "raised-" + type(x).__name__
    try:
        r2 = t.value()
        out2 = "val" if r2 is v1 else "other-value"
    except BaseException as x:
        out2 = "err" if x is e1 else "raised-" + type(x).__name__
    asynq.scheduler.reset()
    lines = ["(case suspended %d %s %d %d)" % (case["id"], case["outside"], 1 if case["cleanup"] else 0, len(case["subs"])),
             "(result %s %s (%s))" % (out, out2, " ".join(seen)), "(end)"]
    return {"lines": lines, "features": ["suspended-completed-outside"], "nontrivial": "susp-%s-%s-%s" % (
        case["outside"], case["cleanup"], case["subs"])}


def shrink(case):
    if case.get("special") == "futsubs":
        subs = case["subs"]
        for i in range(len(subs)):
            c = dict(case)
            c["subs"] = subs[:i] + subs[i + 1:]
            yield c
        for i, sub in enumerate(subs):
            if sub[1] != "good":
                c = dict(case)
                c["subs"] = subs[:i] + [[sub[0], "good"]] + subs[i + 1:]
                yield c
        for flag, off in (("prior", False), ("opts", [])):
            if case.get(flag):
                c = dict(case)
                c[flag] = off
                yield c
        if case["target"] == "nested" and case["depth"] > 1:
            c = dict(case)
            c["depth"] = case["depth"] - 1
            yield c
        return
    if case.get("special"):
        return
    ops = case["ops"]
    extra = {"opts": case["opts"]} if case.get("opts") else {}
    if extra:
        yield {"kind": case["kind"], "ops": ops}
    for i in range(len(ops)):
        yield dict(extra, kind=case["kind"], ops=ops[:i] + ops[i + 1:])
    for i, o in enumerate(ops):
        if o[0] == "subscribe" and o[2] not in ("good", 0):
            yield dict(extra, kind=case["kind"], ops=ops[:i] + [[o[0], o[1], "good"]] + ops[i + 1:])
    if case["kind"][1] != 1:
        yield dict(extra, kind=[case["kind"][0], 1], ops=ops)


def neighbours(case, rng):
    if case.get("special"):
        return
    extra = {"opts": case["opts"]} if case.get("opts") else {}
    for k in KINDS:
        yield dict(extra, kind=[k, case["kind"][1] if k == case["kind"][0] else 1], ops=case["ops"])
    for _ in range(24):
        ops = [list(o) for o in case["ops"]]
        ids = _Ids(ops)       # new subscribers get ids that are not in use: a handler is subscribed once
        if ops and rng.random() < 0.5:
            i = rng.randrange(len(ops))
            if ops[i][0] == "subscribe":
                continue
            ops[i] = gen_op(rng, ids)
        else:
            ops.insert(rng.randint(0, len(ops)), gen_op(rng, ids))
        yield dict(extra, kind=case["kind"], ops=ops)


def signature(case, v):
    if case.get("special") == "futsubs":
        return "futsubs/%s/%s" % (case["target"], v["spec"])
    if case.get("special"):
        return "suspended/%s" % v["spec"]
    return "%s/%s" % (case["kind"][0], v["spec"])


# ---------------------------------------------------------------------------------------------------
# implementation side
# ---------------------------------------------------------------------------------------------------

class UserErr(Exception):
    pass


class FalsyErr(Exception):
    """an error that is falsy (`if self._error:` instead of `is not None` would lose it)"""

    def __bool__(self):
        return False

    def __len__(self):
        return 0


class EqAllErr(Exception):
    """an error that claims to be equal to everything"""

    def __eq__(self, other):
        return True

    def __ne__(self, other):
        return False

    def __hash__(self):
        return 0


class BaseOnlyErr(BaseException):
    """not an Exception: only `except BaseException` sees it"""


class HostileReprErr(Exception):
    def __repr__(self):
        raise RuntimeError("repr of the error raises")

    __str__ = __repr__


class EqAll(object):
    """a value equal to everything (`_value != _none` instead of `is not` would see 'not computed')"""

    def __eq__(self, other):
        return True

    def __ne__(self, other):
        return False

    def __hash__(self):
        return 0


class Hostile(object):
    """a value that cannot be inspected: truth value, comparison, hash and repr all raise"""

    def __bool__(self):
        raise RuntimeError("bool of the value raises")

    def __eq__(self, other):
        raise RuntimeError("eq of the value raises")

    def __hash__(self):
        raise RuntimeError("hash of the value raises")

    def __repr__(self):
        raise RuntimeError("repr of the value raises")


class Env(object):
    """tokens <-> objects (by identity), the notification log and the subscriber callbacks; shared by the one-future
    histories and the futsubs family"""

    def __init__(self, futures, share=None):
        self.futures = futures
        if share is not None:      # a second future watched in the same case: same objects, own log and handlers
            self.vals, self.errs = share.vals, share.errs
            self.cblog, self.handlers = [], {}
            self._index()
            return
        self.vals = {0: None, 1: ("v", 1), 2: 0, 3: "", 4: EqAll(), 5: ValueError("a value, not an error"),
                     6: futures.ConstFuture(("inner",)), 7: ("placeholder for the future itself",), 8: Hostile(), 9: False}
        self.errs = {0: None, 1: UserErr("e1"), 2: FalsyErr("e2"), 3: EqAllErr("e3"), 4: BaseOnlyErr("e4"),
                     5: StopIteration("e5"), 6: HostileReprErr("e6")}
        self.cblog = []
        self.handlers = {}
        self._index()

    def _index(self):
        self.val_tok = {id(v): k for k, v in self.vals.items() if v is not None}
        self.err_tok = {id(e): k for k, e in self.errs.items() if e is not None}

    def set_self(self, fut):
        self.vals[7] = fut
        self._index()

    def vt(self, v):
        if v is None:
            return 0
        return self.val_tok.get(id(v), UNKNOWN)

    def et(self, e):
        return self.err_tok.get(id(e), UNKNOWN)

    def peek(self, f):
        if not f.is_computed():
            return "none"
        try:
            v = f.value()
        except BaseException as e:  # noqa
            return "(err %d)" % self.et(e)
        return "(val %d)" % self.vt(v)

    def exc_res(self, e, unsub=False):
        if id(e) in self.err_tok:
            return "(raised user %d)" % self.err_tok[id(e)]
        if isinstance(e, self.futures.FutureIsAlreadyComputed):
            return "(raised alreadyComputed)"
        if isinstance(e, NotImplementedError):
            return "(raised notImplemented)"
        if unsub and type(e) is ValueError:
            return "(raised notSubscribed)"
        return "(raised other %s)" % type(e).__name__

    def handler(self, sid):
        """the handler with that id; an id nobody subscribed is a function that is not in any handler list"""
        h = self.handlers.get(sid)
        if h is None:
            h = self.handlers[sid] = lambda f: None
        return h

    def make_cb(self, sid, beh):
        env = self
        kind = beh[0]
        if kind in (0, 1):
            kind = "raising" if kind else "good"

        def cb(f):
            rec = [sid, env.peek(f), None]
            env.cblog.append(rec)
            if kind == "raising":
                raise (RuntimeError, FalsyErr, EqAllErr)[sid % 3]("subscriber %d raises" % sid)
            if kind == "oneShot":
                f.on_computed.unsubscribe(cb)
            elif kind == "unsub":
                f.on_computed.unsubscribe(env.handler(beh[1]))
            elif kind == "resub":
                f.on_computed.subscribe(env.make_cb(beh[1], ["good"]))
            elif kind == "reenter":
                try:
                    if beh[1] == "val":
                        f.set_value(env.vals[beh[2]])
                    else:
                        f.set_error(env.errs[beh[2]])
                    rec[2] = "(unit)"
                except BaseException as e:  # noqa
                    rec[2] = env.exc_res(e)
        self.handlers[sid] = cb
        return cb

    def take_cbs(self):
        out = " ".join("(%d %s)" % (r[0], r[1]) if r[2] is None else "(%d %s %s)" % (r[0], r[1], r[2]) for r in self.cblog)
        del self.cblog[:]
        return out


def beh_str(beh):
    if beh[0] in (0, 1):
        return "raising" if beh[0] else "good"
    if beh[0] == "reenter":
        return "reenter (%s %d)" % (beh[1], beh[2])
    return " ".join(str(x) for x in beh)


def op_str(op):
    if op[0] == "subscribe":
        return "subscribe %d %s" % (op[1], beh_str(op[2:]))
    if op[0] == "setError" and op[1] == 0:
        return "setErrorNone"
    return " ".join(str(x) for x in op)


def run_case(case):
    if not case.get("opts"):
        return run_case1(case)
    from asynq import _debug
    old = {o: getattr(_debug.options, o) for o in case["opts"]}
    for o in case["opts"]:
        setattr(_debug.options, o, True)
    try:
        r = run_case1(case)
    finally:
        for o, v in old.items():
            setattr(_debug.options, o, v)
    r["features"] += ["option=" + o for o in case["opts"]]
    return r


def run_case1(case):
    if case.get("special") == "suspended":
        return run_suspended(case)
    if case.get("special") == "futsubs":
        return run_futsubs(case)
    import asynq
    from asynq import futures

    env = Env(futures)
    vals, errs, vt, et = env.vals, env.errs, env.vt, env.et
    runs = [0]
    kind, arg = case["kind"]

    if kind == "lazyOk":
        def provider():
            runs[0] += 1
            return vals[arg]
        fut = futures.Future(provider)
    elif kind == "lazyErr":
        def provider():
            runs[0] += 1
            raise errs[arg]
        fut = futures.Future(provider)
    elif kind == "lazySelfSet":
        holder = []

        def provider():
            runs[0] += 1
            holder[0].set_value(vals[arg])      # somebody completes the future while its provider is running
            return vals[(arg % 3) + 1]
        fut = futures.Future(provider)
        holder.append(fut)
    elif kind == "const":
        fut = futures.ConstFuture(vals[arg])
    elif kind == "error":
        fut = futures.ErrorFuture(errs[arg])
    elif kind == "taskOk":
        @asynq.asynq()
        def body():
            runs[0] += 1
            return vals[arg]
            yield
        fut = body.asynq()
    elif kind == "taskErr":
        @asynq.asynq()
        def body():
            runs[0] += 1
            raise errs[arg]
            yield
        fut = body.asynq()
    else:
        raise ValueError(kind)
    env.set_self(fut)

    lines = ["(case futures %d %s %d)" % (case["id"], "errorNone" if (kind, arg) == ("error", 0) else kind, arg)]
    completions = 0
    behs = set()
    was = fut.is_computed()
    for op in case["ops"]:
        del env.cblog[:]
        name = op[0]
        try:
            if name == "value":
                res = "(ok %d)" % vt(fut.value())
            elif name == "call":
                res = "(ok %d)" % vt(fut())
            elif name == "error":
                e = fut.error()
                res = "(errIs none)" if e is None else "(errIs %d)" % et(e)
            elif name == "isComputed":
                res = "(bool %d)" % (1 if fut.is_computed() else 0)
            elif name == "setValue":
                fut.set_value(vals[op[1]])
                res = "(unit)"
            elif name == "setError":
                fut.set_error(errs[op[1]])
                res = "(unit)"
            elif name == "reset":
                fut.reset_unsafe()
                res = "(unit)"
            elif name == "subscribe":
                behs.add(beh_str(op[2:]).split()[0])
                fut.on_computed.subscribe(env.make_cb(op[1], op[2:]))
                res = "(unit)"
            elif name == "unsubscribe":
                fut.on_computed.unsubscribe(env.handler(op[1]))
                res = "(unit)"
            else:
                raise ValueError(name)
        except BaseException as e:  # the outcome of the operation, not a harness failure
            if type(e).__name__ == "CaseTimeout":
                raise
            res = env.exc_res(e, unsub=(name == "unsubscribe"))
        ncb = len(env.cblog)
        cbs = env.take_cbs()
        now = fut.is_computed()
        if now and not was:
            completions += 1
            if ncb:
                behs.add("notified<=%d" % next(b for b in (1, 4, 16, 64, 10**9) if ncb <= b))
        was = now
        lines.append("(obs (%s) %s (%s) %s %d)" % (op_str(op), res, cbs, env.peek(fut), runs[0]))
    lines.append("(end)")
    feats = ["kind=" + kind, "len<=%d" % next(b for b in (1, 3, 8, 20, 40, 10**9) if len(case["ops"]) <= b)]
    feats += sorted({"op=" + op_str(o).split()[0] for o in case["ops"]})
    feats += sorted("sub=" + b for b in behs)
    feats.append("completions=%d" % min(completions, 3))
    if case.get("family"):
        feats.append("family=" + case["family"])
    if True:
        feats.append("arg=%s%d" % ("e" if kind in ("lazyErr", "taskErr", "error") else "v", arg))
    nontrivial = None
    if completions >= 1 and len(case["ops"]) >= 3:
        nontrivial = hashlib.sha1(json.dumps([case["kind"], case["ops"]]).encode()).hexdigest()[:16]
    return {"lines": lines, "features": feats, "nontrivial": nontrivial}


def run_futsubs(case):
    """notification rounds of futures outside the one-future model: batch items / batches of a user batch class,
    DebugBatchItem / DebugBatch, AsyncTasks that block on an item or on another task, a Future awaited by a task.
    Round 1 = the natural completion path of the target, round 2 = reset_unsafe() + set_value / set_error from outside.
    After each round: a second set must raise FutureIsAlreadyComputed, value() and call must report the outcome."""
    import asynq
    from asynq import batching, futures

    env = Env(futures)
    vals, errs = env.vals, env.errs
    target, nitems, which = case["target"], case["nitems"], case["which"] % case["nitems"]
    v1, e1 = vals[case["v1"]], errs[case["e1"]]
    asynq.scheduler.reset()

    class B(batching.BatchBase):
        def _try_switch_active_batch(self):
            if cur[0] is self:
                cur[0] = B()

        def _flush(self):
            for it in self.items:
                if it is not skip[0]:
                    it.set_value(v1 if it is marked[0] else ("other", it.index))

    class I(batching.BatchItemBase):
        def __init__(self):
            batching.BatchItemBase.__init__(self, cur[0])

    cur, marked, skip = [None], [None], [None]
    cur[0] = B()

    if case.get("prior"):
        # leftover state: an earlier computation on this thread failed in the middle of a batch wait
        @asynq.asynq()
        def failing():
            yield I()
            raise UserErr("prior computation fails")
        try:
            failing()
        except UserErr:
            pass

    if target.startswith("item-") or target.startswith("batch-"):
        batch = cur[0]
        items = [I() for _ in range(nitems)]
        marked[0] = items[which]
        if target.startswith("item-"):
            fut = items[which]
            if target == "item-value":
                go = fut.value
            elif target == "item-flush":
                go = batch.flush
            elif target == "item-set":
                go = lambda: fut.set_value(v1)
            else:
                go = lambda: batch.cancel(e1)
        else:
            fut = batch
            v1 = None
            if target == "batch-flush":
                go = batch.flush
            elif target == "batch-via-item":
                go = items[which].value
            else:
                go = lambda: batch.cancel(e1)
    elif target == "debugitem":
        fut = batching.DebugBatchItem("c10-%d" % case["id"], v1)
        go = fut.value
    elif target == "debugbatch":
        it = batching.DebugBatchItem("c10b-%d" % case["id"], v1)
        fut = it.batch
        v1 = None
        go = it.value
    elif target == "task-blocked":
        @asynq.asynq()
        def body():
            yield [I() for _ in range(nitems)]
            return v1
        fut = body.asynq()
        go = fut.value
    elif target == "task-dep":
        @asynq.asynq()
        def leaf():
            yield I()
            return v1

        @asynq.asynq()
        def body():
            r = yield leaf.asynq()
            return r
        fut = body.asynq()
        go = fut.value
    elif target in ("future-value", "nested"):
        fut = futures.Future(lambda: v1)
        go = fut.value
    elif target == "future-in-task":
        fut = futures.Future(lambda: v1)

        @asynq.asynq()
        def waiter():
            r = yield fut
            return r
        go = waiter
    else:
        raise ValueError(target)

    lines = ["(case futsubs %d %s %d)" % (case["id"], target, len(case["subs"]))]
    # the watched futures: (env, future, its lines); every one gets its own instances of the case's subscribers
    watched = [(env, fut, [])]
    if target == "nested":
        # level k's notification round completes level k+1 from the inside (a handler in the middle of the list calls
        # set_value on the next future): notification rounds nested `depth` deep, each judged on its own
        for level in range(1, case["depth"] + 1):
            watched.append((Env(futures, share=env), futures.Future(lambda: ("never computed by provider",)), []))
    for level, (env_k, fut_k, lines_k) in enumerate(watched):
        pos = case.get("pos", 0) if level + 1 < len(watched) else -1
        for n, sub in enumerate(case["subs"]):
            if n == pos:
                fut_k.on_computed.subscribe(lambda f, nxt=watched[level + 1][1]: nxt.set_value(v1))
            lines_k.append("(sub %d %s)" % (sub[0], beh_str(sub[1:])))
            fut_k.on_computed.subscribe(env_k.make_cb(sub[0], sub[1:]))
        if pos >= len(case["subs"]):
            fut_k.on_computed.subscribe(lambda f, nxt=watched[level + 1][1]: nxt.set_value(v1))

    def one_round(go, expected):
        for env_k, _, _ in watched:
            del env_k.cblog[:]
        try:
            go()
        except BaseException as e:  # noqa  (item-cancel etc. do not raise; a raise shows in the reads below)
            if type(e).__name__ == "CaseTimeout":
                raise
        for env_k, fut_k, lines_k in watched:
            cbs = env_k.take_cbs()
            out = env_k.peek(fut_k)
            try:
                fut_k.set_value(("again",))
                again = "(unit)"
            except BaseException as e:  # noqa
                again = env_k.exc_res(e)
            reads = []
            for rd in (fut_k.value, fut_k):
                try:
                    reads.append("(ok %d)" % env_k.vt(rd()))
                except BaseException as e:  # noqa
                    reads.append(env_k.exc_res(e))
            if env_k.cblog:   # nobody may be notified by the failed set or by the reads
                cbs += " " + env_k.take_cbs()
            lines_k.append("(round %s (%s) %s %s %s %s)" % (out, cbs, again, reads[0], reads[1], expected))

    if target in ("item-cancel", "batch-cancel"):
        first = "(err %d)" % case["e1"]
    elif target in ("batch-flush", "batch-via-item", "debugbatch"):
        first = "(val 0)"          # a flushed batch holds None
    else:
        first = "(val %d)" % case["v1"]
    one_round(go, first)
    for _, fut_k, _ in watched:
        fut_k.reset_unsafe()
    if target == "nested":
        v1 = vals[case["v2"]]      # the inner handlers pass v1 on: every level completes with the second value
        one_round(lambda: fut.set_value(v1), "(val %d)" % case["v2"])
    elif case["second"] == "setValue":
        one_round(lambda: fut.set_value(vals[case["v2"]]), "(val %d)" % case["v2"])
    else:
        one_round(lambda: fut.set_error(e1), "(err %d)" % case["e1"])
    for _, _, lines_k in watched:
        lines.append("(fut)")
        lines += lines_k
    asynq.scheduler.reset()
    lines.append("(end)")
    behs = sorted({"sub=" + beh_str(sub[1:]).split()[0] for sub in case["subs"]})
    feats = ["family=futsubs", "target=" + target, "nsubs<=%d" % next(b for b in (0, 1, 4, 16, 64, 10**9) if len(case["subs"]) <= b)]
    feats += behs
    key = hashlib.sha1(json.dumps([target, case["subs"], case["second"]]).encode()).hexdigest()[:16] if case["subs"] else None
    return {"lines": lines, "features": feats, "nontrivial": key}
