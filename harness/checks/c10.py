"""C10  A future is completed at most once and reports one consistent outcome.

Histories of operations on one future of every kind, run on the real classes; the Lean model
(AsynqModel.Lib.Futures) replays the same history (correspondence) and the Lean observer `Futures.spec`
(the statement of C10, proved of the model for all kinds and all histories) judges the implementation's
observations on their own."""
import hashlib
import json
import random

PID = "C10"
LEVEL = "proof"
LEAN_MODULES = ["AsynqModel.Theorems.C10"]
THEOREMS = [
    "AsynqModel.Futures.C10_spec_holds",
    "AsynqModel.Futures.C10_single_assignment",
    "AsynqModel.Futures.C10_failed_set_noop",
    "AsynqModel.Futures.C10_reads_stable",
    "AsynqModel.Futures.C10_provider_once",
    "AsynqModel.Futures.C10_notify_once_after_visible",
    "AsynqModel.Futures.C10_const_complete",
]
BUILDS = {"quick": ["py"], "thorough": ["py", "cy"]}
RULE = ("random operation histories (length 1-40, ops value/error/call/is_computed/set_value/set_error/reset_unsafe/"
        "subscribe good|raising) on each future kind (Future ok/raising provider, ConstFuture, ErrorFuture, AsyncTask "
        "returning/raising); non-trivial = history that contains a completion (uncomputed -> computed) and at least 3 "
        "operations; distinct by (kind, history) hash")
TRUSTED = [
    "hand-written Lean model AsynqModel.Lib.Futures tied to the code by this differential run only",
    "Python harness checks/c10.py (token <-> object identity mapping, read-only peek after each operation)",
    "qcore.EventHook.safe_trigger, CPython generator semantics",
]
ASSUMPTIONS = [
    "callbacks raise only Exception (BaseException from a subscriber is out of the statement's scope)",
    "single thread; batches and batch items as futures are covered by C11's model",
]
KINDS = ["lazyOk", "lazyErr", "const", "error", "taskOk", "taskErr", "lazySelfSet"]
OPS = ["value", "error", "call", "isComputed", "setValue", "setError", "reset", "subscribe"]
UNKNOWN = 999999


def gen_case(rng, size=None):
    kind = rng.choice(KINDS)
    n = size if size is not None else rng.choice([1, 2, 3, 4, 6, 8, 12, 20, 40])
    ops = []
    nsub = 0
    for _ in range(n):
        o = rng.choices(OPS, weights=[5, 4, 2, 3, 3, 3, 2 if rng.random() < 0.6 else 0, 4])[0]
        if o == "setValue":
            ops.append([o, rng.randint(0, 3)])
        elif o == "setError":
            ops.append([o, rng.randint(1, 3)])
        elif o == "subscribe":
            nsub += 1
            ops.append([o, nsub, 1 if rng.random() < 0.3 else 0])
        else:
            ops.append([o])
    return {"kind": [kind, rng.randint(1, 3)], "ops": ops}


def corpus():
    import glob
    import os
    res = []
    d = os.path.join(os.path.dirname(os.path.dirname(os.path.dirname(os.path.abspath(__file__)))), "corpus", PID)
    for p in sorted(glob.glob(os.path.join(d, "*.json"))):
        with open(p) as f:
            res.append(json.load(f))
    return res


def plan(tier, seed):
    rng = random.Random(seed * 1000003 + 10)
    n = 1500 if tier == "quick" else 40000
    cases = corpus()
    # every kind x every single op and every pair of distinct op kinds (small exhaustive core)
    basic = [["value"], ["error"], ["call"], ["isComputed"], ["setValue", 2], ["setError", 2], ["reset"], ["subscribe", 1, 0],
             ["subscribe", 2, 1]]
    for k in KINDS:
        for a in basic:
            for b in basic:
                for c in ([["value"], ["error"]] if tier == "quick" else basic):
                    cases.append({"kind": [k, 1], "ops": [[*a], [*b], [*c]]})
    cases += [suspended_case(o, c, subs) for o in ("value", "error") for c in (False, True)
              for subs in ([], [0], [1], [0, 0], [1, 0], [0, 1, 0])]
    cases += [gen_case(rng) for _ in range(n)]
    return cases


def suspended_case(outside, cleanup_raises, subs):
    return {"special": "suspended", "outside": outside, "cleanup": cleanup_raises, "subs": subs}


def run_suspended(case):
    """an AsyncTask that is suspended at a yield inside try/finally is completed from outside (set_value / set_error
    by the flush body of the batch it waits for); its clean-up may raise.  C10: the outcome is the outside one, set once,
    and every subscriber is notified exactly once.  (Judged by a direct expectation: blocking tasks are not in the
    one-future model.)"""
    import asynq
    from asynq import batching

    v1, e1, boom = ("v", 1), UserErr("outside"), RuntimeError("clean-up raises")
    holder = []
    log = []

    class B(batching.BatchBase):
        def _try_switch_active_batch(self):
            if cur[0] is self:
                cur[0] = B()

        def _flush(self):
            t = holder[0]
            try:
                if case["outside"] == "value":
                    t.set_value(v1)
                else:
                    t.set_error(e1)
            except BaseException as x:
                log.append("set-raised-" + ("boom" if x is boom else type(x).__name__))
            for it in self.items:
                it.set_value(0)

    class I(batching.BatchItemBase):
        def __init__(self):
            batching.BatchItemBase.__init__(self, cur[0])

    cur = [None]
    cur[0] = B()

    @asynq.asynq()
    def body():
        try:
            yield I()
        finally:
            if case["cleanup"]:
                raise boom
        return ("v", 2)

    asynq.scheduler.reset()
    t = body.asynq()
    holder.append(t)
    seen = []
    for sid, raising in enumerate(case["subs"]):
        def cb(f, sid=sid, raising=raising):
            try:
                o = "val" if f.value() is v1 else "other-value"
            except BaseException as x:
                o = "err" if x is e1 else "other-error"
            seen.append("%d:%s" % (sid, o))
            if raising:
                raise RuntimeError("subscriber raises")
        t.on_computed.subscribe(cb)
    try:
        r = t.value()
        out = "val" if r is v1 else "other-value"
    except BaseException as x:
        out = "err" if x is e1 else "raised-" + type(x).__name__
    try:
        r2 = t.value()
        out2 = "val" if r2 is v1 else "other-value"
    except BaseException as x:
        out2 = "err" if x is e1 else "raised-" + type(x).__name__
    asynq.scheduler.reset()
    lines = ["(case suspended %d %s %d %d)" % (case["id"], case["outside"], 1 if case["cleanup"] else 0, len(case["subs"])),
             "(result %s %s (%s))" % (out, out2, " ".join(seen)), "(end)"]
    return {"lines": lines, "features": ["suspended-completed-outside"], "nontrivial": "susp-%s-%s-%s" % (
        case["outside"], case["cleanup"], case["subs"])}


def shrink(case):
    if case.get("special"):
        return
    ops = case["ops"]
    for i in range(len(ops)):
        yield {"kind": case["kind"], "ops": ops[:i] + ops[i + 1:]}


def neighbours(case, rng):
    if case.get("special"):
        return
    for k in KINDS:
        yield {"kind": [k, case["kind"][1]], "ops": case["ops"]}
    for _ in range(24):
        ops = [list(o) for o in case["ops"]]
        if ops and rng.random() < 0.5:
            ops[rng.randrange(len(ops))] = gen_case(rng, 1)["ops"][0]
        else:
            ops.insert(rng.randint(0, len(ops)), gen_case(rng, 1)["ops"][0])
        yield {"kind": case["kind"], "ops": ops}


def signature(case, v):
    if case.get("special"):
        return "suspended/%s" % v["spec"]
    return "%s/%s" % (case["kind"][0], v["spec"])


# ---------------------------------------------------------------------------------------------------
# implementation side
# ---------------------------------------------------------------------------------------------------

class UserErr(Exception):
    pass


def run_case(case):
    if case.get("special") == "suspended":
        return run_suspended(case)
    import asynq
    from asynq import futures

    vals = {0: None}
    for i in range(1, 5):
        vals[i] = ("v", i)  # unique objects
    errs = {i: UserErr("e%d" % i) for i in range(1, 5)}
    val_tok = {id(v): k for k, v in vals.items() if v is not None}
    err_tok = {id(e): k for k, e in errs.items()}
    runs = [0]
    kind, arg = case["kind"]

    if kind == "lazyOk":
        def provider():
            runs[0] += 1
            return vals[arg]
        fut = futures.Future(provider)
    elif kind == "lazyErr":
        def provider():
            runs[0] += 1
            raise errs[arg]
        fut = futures.Future(provider)
    elif kind == "lazySelfSet":
        holder = []

        def provider():
            runs[0] += 1
            holder[0].set_value(vals[arg])      # somebody completes the future while its provider is running
            return vals[(arg % 3) + 1]
        fut = futures.Future(provider)
        holder.append(fut)
    elif kind == "const":
        fut = futures.ConstFuture(vals[arg])
    elif kind == "error":
        fut = futures.ErrorFuture(errs[arg])
    elif kind == "taskOk":
        @asynq.asynq()
        def body():
            runs[0] += 1
            return vals[arg]
            yield
        fut = body.asynq()
    elif kind == "taskErr":
        @asynq.asynq()
        def body():
            runs[0] += 1
            raise errs[arg]
            yield
        fut = body.asynq()
    else:
        raise ValueError(kind)

    def vt(v):
        if v is None:
            return 0
        return val_tok.get(id(v), UNKNOWN)

    def et(e):
        return err_tok.get(id(e), UNKNOWN)

    def peek(f):
        if not f.is_computed():
            return "none"
        try:
            v = f.value()
        except BaseException as e:  # noqa
            return "(err %d)" % et(e)
        return "(val %d)" % vt(v)

    def exc_res(e):
        if id(e) in err_tok:
            return "(raised user %d)" % err_tok[id(e)]
        if isinstance(e, futures.FutureIsAlreadyComputed):
            return "(raised alreadyComputed)"
        if isinstance(e, NotImplementedError):
            return "(raised notImplemented)"
        return "(raised other %s)" % type(e).__name__

    cblog = []

    def make_cb(sid, raising):
        def cb(f):
            cblog.append("(%d %s)" % (sid, peek(f)))
            if raising:
                raise RuntimeError("subscriber %d raises" % sid)
        return cb

    lines = ["(case futures %d %s %d)" % (case["id"], kind, arg)]
    completions = 0
    was = fut.is_computed()
    for op in case["ops"]:
        del cblog[:]
        name = op[0]
        try:
            if name == "value":
                res = "(ok %d)" % vt(fut.value())
            elif name == "call":
                res = "(ok %d)" % vt(fut())
            elif name == "error":
                e = fut.error()
                res = "(errIs none)" if e is None else "(errIs %d)" % et(e)
            elif name == "isComputed":
                res = "(bool %d)" % (1 if fut.is_computed() else 0)
            elif name == "setValue":
                fut.set_value(vals[op[1]])
                res = "(unit)"
            elif name == "setError":
                fut.set_error(errs[op[1]])
                res = "(unit)"
            elif name == "reset":
                fut.reset_unsafe()
                res = "(unit)"
            elif name == "subscribe":
                fut.on_computed.subscribe(make_cb(op[1], bool(op[2])))
                res = "(unit)"
            else:
                raise ValueError(name)
        except Exception as e:  # the outcome of the operation, not a harness failure
            res = exc_res(e)
        cbs = " ".join(cblog)
        now = fut.is_computed()
        if now and not was:
            completions += 1
        was = now
        lines.append("(obs (%s) %s (%s) %s %d)" % (" ".join(str(x) for x in op), res, cbs, peek(fut), runs[0]))
    lines.append("(end)")
    feats = ["kind=" + kind, "len<=%d" % next(b for b in (1, 3, 8, 20, 40, 10**9) if len(case["ops"]) <= b)]
    feats += sorted({"op=" + o[0] for o in case["ops"]})
    feats.append("completions=%d" % min(completions, 3))
    nontrivial = None
    if completions >= 1 and len(case["ops"]) >= 3:
        nontrivial = hashlib.sha1(json.dumps([case["kind"], case["ops"]]).encode()).hexdigest()[:16]
    return {"lines": lines, "features": feats, "nontrivial": nontrivial}
