"""C20, family `deepdump` (round 6): programs with DEEP SUSPENDED dependency chains (up to 3000 tasks, far beyond the
interpreter's default recursion limit, which is restored for the run) and WIDE fans, run without options and under option
sets containing DUMP_SCHEDULER_STATE, with a scripted clock that makes the time-based state dump happen: the scheduler reads
`time.time()` (asynq.scheduler.time is replaced by a fake module object) and the PROGRAM advances that clock by `tick`
seconds at chosen steps (the slow steps of a real program), so the dump threshold SCHEDULER_STATE_DUMP_INTERVAL is crossed
while the whole chain is suspended on the task stack.  Every dumping code path then walks the live objects (scheduler ->
task stack -> dependencies of every task -> batches -> items); none of that may change values, exceptions, flushes, context
events or the scheduler's state (the output itself is not compared).

Judged by lean/AsynqModel/Drv/Families8.lean, mode `deepdump`: the outcome of the run WITHOUT options is the one computed
from the case header, and the observations of the run WITH options are identical."""
import json

SHAPES = ["chain", "fan", "chainfan"]
TICKS = [0.000001, 0.4, 1.0, 2.5, 3600.0]       # seconds of clock time a slow step takes (index in the case)


def _program(E, shape, n, every, advance):
    a = E.asynq
    level_ticks = every if shape == "chain" else 0      # (chainfan: `every` = number of chains)

    @a.asynq()
    def down(i, key):
        if i == 0:
            advance()                     # a slow step, while the chain above is suspended ...
            with E.Ctx("leaf%s" % key):
                v = yield E.item("db", key)
            advance()                     # ... and another one after the first flush
            yield E.item("wr", key)
            return v
        below = yield down.asynq(i - 1, key)
        if level_ticks and i % level_ticks == 0:
            advance()
        return below + 1

    @a.asynq()
    def bad(i):
        if i == 0:
            yield E.item("db", 99, "err")
            return 0
        return (yield bad.asynq(i - 1))

    @a.asynq()
    def guarded(i):
        try:
            return (yield bad.asynq(i))
        except KeyError:
            advance()
            return 1

    @a.asynq()
    def leaf(i):
        if every and i % every == 0:
            advance()
        v = yield E.item("db", i)
        return v

    @a.asynq()
    def main_chain():
        with E.Ctx("main"):
            deep, failed = yield down.asynq(n, 7), guarded.asynq(25)
            again = down(3, 8)            # synchronous re-entry
            last = yield down.asynq(40, 9)
        return deep + failed + again + last

    @a.asynq()
    def main_fan():
        vs = yield [leaf.asynq(i) for i in range(n)]
        return sum(vs)

    @a.asynq()
    def main_chainfan():
        # a fan of `every` chains, each n deep: several deep suspended chains side by side on the stack
        vs = yield [down.asynq(n, 7) for _ in range(max(every, 1))]
        return sum(vs)

    return {"chain": main_chain, "fan": main_fan, "chainfan": main_chainfan}[shape]


def run_once(case, opts):
    import sys
    import asynq
    import asynq.scheduler
    from checks import optprogs
    opts = dict(opts)
    clock = opts.pop("_clock", None)
    tick = TICKS[case["tick"]]
    dbg = asynq.debug.options
    saved = {}
    real_utime = getattr(asynq.scheduler, "utime", None)
    real_time = asynq.scheduler.time
    old_limit = sys.getrecursionlimit()

    class FakeTime(object):
        """stands in for the `time` module inside asynq.scheduler (try_time_based_dump reads time.time())"""
        now = 4096.0     # small: the compiled build keeps the scheduler's last dump time and `current_time` in C floats (32 bits)

        def time(self):
            return self.now

    ft = FakeTime()

    def advance():
        ft.now += tick

    class Sink(object):
        """the diagnostic output is not part of behaviour (and is tens of megabytes for the deep shapes): dropped"""
        def write(self, text):
            return len(text)

        def flush(self):
            pass

    real_out = (asynq.debug.stdout, asynq.debug.stderr)
    asynq.debug.stdout = asynq.debug.stderr = Sink()
    asynq.scheduler.time = ft
    asynq.scheduler.reset()      # a new scheduler: its last dump time is the fake "now"
    asynq.profiler.reset()
    E = optprogs.Env()
    sys.setrecursionlimit(1000)  # the interpreter's DEFAULT limit (the worker raises it), as in family `chain`
    try:
        if clock is not None:
            state = {"now": 1000000, "i": 0}

            def fake_utime():
                state["now"] += clock[state["i"] % len(clock)]
                state["i"] += 1
                return state["now"]
            asynq.scheduler.utime = fake_utime
        for k, v in opts.items():
            saved[k] = getattr(dbg, k)
            setattr(dbg, k, v)
        E.install_hooks()
        main = _program(E, case["shape"], case["n"], case["every"], advance)
        E.outcome("main", main)
        sched = asynq.scheduler.get_scheduler()
        E.log("sched", len(sched._tasks), "none" if sched.active_task is None else "task", len(sched._batches),
              sum(1 for b in sched._batches if b.items and not b.is_flushed()))
    finally:
        sys.setrecursionlimit(old_limit)
        for k, v in saved.items():
            setattr(dbg, k, v)
        if real_utime is not None:
            asynq.scheduler.utime = real_utime
        asynq.scheduler.time = real_time
        asynq.debug.stdout, asynq.debug.stderr = real_out
        try:
            asynq.profiler.reset()
        except Exception:
            pass
        asynq.scheduler.reset()
    return E.events


def run_deepdump(case):
    from corerun import sx
    ev0 = run_once(case, {})
    ev1 = run_once(case, case["opts"])
    lines = ["(case deepdump %d %s %d %d %d)" % (case["id"], case["shape"], case["n"], case["every"], case["tick"])] + \
        [sx(e) for e in ev0] + ["(sep)"] + [sx(e) for e in ev1] + ["(end)"]
    feats = ["family=deepdump", "deepdump=" + case["shape"], "deepdump-depth<=%d" % next(b for b in (100, 1000, 10**9) if case["n"] <= b),
             "deepdump-tick=%g" % TICKS[case["tick"]]] + sorted("opt=" + k for k in case["opts"] if not k.startswith("_"))
    return {"lines": lines, "features": feats,
            "nontrivial": "deepdump-" + json.dumps([case["shape"], case["n"], case["every"], case["tick"],
                                                    sorted((k, v) for k, v in case["opts"].items() if not k.startswith("_"))])}


def deepdump_cases(tier, rng, bool_opts, gen_opts):
    """option sets: DUMP_SCHEDULER_STATE alone, with KEEP_DEPENDENCIES (tasks then keep the futures of EARLIER yields as
    dependencies, which the dump walks too), with COLLECT_PERF_STATS, every DUMP_* flag that prints per step (not
    DUMP_EXCEPTIONS / DUMP_PRE_ERROR_STATE on the deepest shapes: their output is quadratic in the depth) with both; on
    shapes up to 60 tasks also SCHEDULER_STATE_DUMP_INTERVAL = 0 (a dump at every scheduler iteration) and random subsets"""
    dumps = [o for o in bool_opts if o.startswith("DUMP_") and o not in ("DUMP_EXCEPTIONS", "DUMP_PRE_ERROR_STATE")]
    state = {"DUMP_SCHEDULER_STATE": True}
    sets = [dict(state), dict(state, KEEP_DEPENDENCIES=True), dict(state, COLLECT_PERF_STATS=True),
            dict({o: True for o in dumps}, COLLECT_PERF_STATS=True, KEEP_DEPENDENCIES=True)]
    cases = []

    def add(shape, n, every, tick, opts):
        o = dict(opts)
        o.setdefault("_clock", [rng.choice([1, 7, 1000, 250000, 10 ** 6])])
        cases.append({"special": "deepdump", "shape": shape, "n": n, "every": every, "tick": tick, "opts": o})

    # deep suspended chains: below, around and far beyond the recursion limit
    for n, tick in ((30, 2), (400, 3), (1100, 3), (1500, 4), (3000, 3)):
        add("chain", n, 0, tick, sets[0])
    add("chain", 1300, 0, 2, sets[1])
    add("chain", 1300, 650, 3, sets[2])
    add("chain", 1200, 0, 3, sets[3])
    add("chain", 1500, 0, 1, sets[0])          # 0.4 s per step: the threshold is crossed at the third slow step only
    add("chain", 1500, 0, 0, sets[3])          # microseconds: no state dump at all
    add("chainfan", 1100, 2, 3, sets[0])
    # wide fans
    add("fan", 2000, 500, 3, sets[0])
    add("fan", 2000, 400, 4, sets[1])
    add("fan", 600, 100, 2, sets[3])
    # small shapes: a dump at EVERY scheduler iteration, random subsets
    for _ in range(10 if tier == "quick" else 200):
        shape = rng.choice(SHAPES)
        n = rng.randint(1, 60) if shape != "chainfan" else rng.randint(1, 20)
        o = gen_opts(rng)
        o["DUMP_SCHEDULER_STATE"] = True
        if rng.random() < 0.6:
            o["SCHEDULER_STATE_DUMP_INTERVAL"] = 0
        add(shape, n, rng.choice([0, 1, 2, 5]) if shape != "chainfan" else rng.randint(1, 3), rng.randrange(len(TICKS)), o)
    if tier != "quick":
        for _ in range(12):
            add("chain", rng.randint(900, 3000), rng.choice([0, 500]), rng.choice([2, 3, 4]), rng.choice(sets))
    return cases
