"""Third-audit family of the core checks (C07, C01): `sharedread` - a task SHARED by several awaiters that hold different
overrides of one scoped variable (audit/AUDIT3-core.md item 1).

A shared task X (0-2 overrides of its own, 1-3 reads of the variable separated by batch yields) is awaited by 2-3 awaiter
tasks; each awaiter first waits for a batch of ITS OWN kind, then - inside 0-2 nested overrides of the variable - awaits X
(directly, or through an intermediate task without overrides), reads the variable itself and returns [its read, X's value];
X returns the list of its reads, root() returns the list of the awaiters' values - so the reads of X FLOW INTO THE VALUE of
root().  The root may hold an override around the whole list; a bystander task that does NOT await X may sit next to the
awaiters inside an override of its own (99).  The variable is an AsyncScopedValue or an attribute under async_override.

The SAME program is run under EVERY permutation of the priorities of its batch kinds (kind i of awaiter i, one more kind for
X's own yields): flush order is steered only through BatchBase.get_priority(); each permutation is one real run of root()
on the real scheduler after scheduler.reset().  Per permutation the harness reports X's reads, the value of root(), the
value of the variable afterwards, the flush order and the scheduler's state.

Outside the machine's language (`.read` of the Lean machine never feeds a value into a result; one run = one flush oracle),
so the family is judged by a direct expectation computed from the header in lean/AsynqModel/Drv/Families7.lean (mode
`sharedread`).  The machine-level statements about the same situation are Theorems/C07d.lean: C07_read_value_dag (a read =
the first override along the scheduler's spine) and C07_shared_read_depends_on_scheduler (the witness program of the audit).
Rules as in corefam4/6: public API only, nothing compared by repr / address / time; every run is deterministic."""
import itertools
import json

from checks.corefam4 import let_timeouts_through, _sx, _ename

BYSTANDER_VALUE = 99


def _mk(x, aw, hop=None, root=0, by=0, var="S"):
    return {"special": "sharedread", "x": x, "aw": aw, "hop": hop or [0] * len(aw), "root": root, "by": by, "var": var}


def _chain_values(case):
    return [(a[-1] if a else case["root"]) for a in case["aw"]]


def is_control(case):
    """all awaiting chains establish the same value: the reads of the shared task cannot depend on who resumed it"""
    return len(set(_chain_values(case))) == 1


def _gen_x(rng, pool=()):
    """X's program: tokens r (read), y (yield an item of X's kind), [e, v] (enter override v), x (leave the innermost one);
    1-3 reads separated by yields, 0-2 own overrides, balanced; an own override sometimes establishes the very value one of
    the awaiting chains has (`pool`): 'already in effect' where the task is started, not where it is resumed"""
    nreads = rng.randint(1, 3)
    ops = []
    for j in range(nreads):
        if j:
            ops.append("y")
        ops.append("r")
    if rng.random() < 0.3:
        ops.insert(rng.randrange(len(ops) + 1), "y")
    for _ in range(rng.choice([0, 0, 0, 1, 1, 2])):
        i = rng.randrange(len(ops) + 1)
        j = rng.randrange(i, len(ops) + 1)
        # a block around ops[i:j]; keep blocks properly nested: take the span to the matching depth
        depth = 0
        ok = True
        for t in ops[i:j]:
            if isinstance(t, list):
                depth += 1
            elif t == "x":
                depth -= 1
                if depth < 0:
                    ok = False
        if not ok or depth != 0:
            continue
        v = rng.choice(list(pool)) if pool and rng.random() < 0.35 else rng.randint(50, 59)
        ops = ops[:i] + [["e", v]] + ops[i:j] + ["x"] + ops[j:]
    return ops


def sharedread_cases(tier, rng):
    fixed = [
        # the probe of the audit: no own override, two reads, awaiters 11 / 22
        _mk(["r", "y", "r"], [[11], [22]]),
        _mk(["r", "y", "r"], [[11], [22]], var="A"),
        _mk(["r"], [[11], [22]]),
        _mk(["r", "y", "r", "y", "r"], [[11], [22], [33]]),
        _mk(["r", "y", "r"], [[11], []]),
        _mk(["r", "y", "r"], [[11], []], root=7),
        _mk(["r", "y", "r"], [[5, 11], [22]], hop=[1, 0], by=1),
        _mk(["r", ["e", 50], "r", "y", "r", "x", "y", "r"], [[11], [22]]),
        # control group: the same override in every awaiting chain (or none)
        _mk(["r", "y", "r"], [[11], [11]]),
        _mk(["r", "y", "r"], [[], []]),
        _mk(["r", "y", "r"], [[], []], root=7, by=1),
        _mk(["r", "y", "r", "y", "r"], [[11], [5, 11], [11]], hop=[0, 1, 0], var="A"),
        _mk([["e", 50], "r", "y", "r", "x"], [[11], [22]]),          # every read inside X's own override: decided by X alone
        _mk([["e", 11], "r", "y", "r", "x"], [[11], [22]]),          # ... an override of the value already in effect at the start
        _mk([["e", 22], "r", "y", "r", "y", "r", "x"], [[11], [22]], var="A"),
        _mk([["e", 22], "r", "y", "r", "y", "r", "x"], [[11], [22]]),
        _mk(["r", ["e", 33], "y", "r", "y", "r", "x"], [[11], [22], [33]], hop=[0, 1, 0]),
        _mk(["r", ["e", 50], ["e", 51], "y", "r", "x", "r", "x", "y", "r"], [[7], [7]], root=3),
    ]
    cases = list(fixed)
    want = 36 if tier == "quick" else 600
    n = 0
    while n < want:
        naw = rng.choice([2, 2, 3])
        control = n % 3 == 2
        root = rng.choice([0, 0, 7])
        if control:
            common = rng.choice([0, 11, 12])
            aw = [([] if common == 0 else rng.choice([[common], [rng.randint(1, 9), common]])) for _ in range(naw)]
            if common == 0 and rng.random() < 0.5:
                root = 7
        else:
            vals = rng.sample([11, 22, 33, 44], naw)
            aw = [rng.choice([[v], [v], [rng.randint(1, 9), v], []]) for v in vals]
        c = _mk(_gen_x(rng, [v for v in [(a[-1] if a else root) for a in aw] if v]), aw, [rng.choice([0, 0, 1]) for _ in range(naw)], root, rng.choice([0, 0, 1]), rng.choice(["S", "S", "A"]))
        if is_control(c) != control:
            continue
        cases.append(c)
        n += 1
    return cases


def _nest(ops):
    """flat tokens -> nested program: ["r"] / ["y"] / ["w", v, [...]]"""
    stack = [[]]
    for t in ops:
        if isinstance(t, list):
            blk = ["w", t[1], []]
            stack[-1].append(blk)
            stack.append(blk[2])
        elif t == "x":
            stack.pop()
        else:
            stack[-1].append([t])
    return stack[0]


def run_sharedread(case, pid="C07"):
    import asynq
    from asynq import batching
    from checks import corecommon as cc

    xops, aws, hops, rootov, by, var = case["x"], case["aw"], case["hop"], case["root"], case["by"], case["var"]
    naw = len(aws)
    nk = naw + 1          # kinds 0 .. naw-1: the awaiters' own batches; kind naw: X's yields (and the bystander's)
    KX = naw
    prog = _nest(xops)

    S = asynq.AsyncScopedValue(0)

    class Cfg(object):
        value = 0

    A = Cfg()

    def get():
        return S.get() if var == "S" else A.value

    def override(v):
        return S.override(v) if var == "S" else asynq.async_override(A, "value", v)

    def one_run(prios):
        cur = {}
        flushes = []
        reads = []
        byreads = []

        class Batch(batching.BatchBase):
            def __init__(self, k):
                batching.BatchBase.__init__(self)
                self.k = k

            def _try_switch_active_batch(self):
                if cur.get(self.k) is self:
                    cur[self.k] = Batch(self.k)

            def _flush(self):
                flushes.append(self.k)
                for i in self.items:
                    i.set_value(self.k)

            def get_priority(self):
                return (prios[self.k], 0)

        class Item(batching.BatchItemBase):
            def __init__(self, k):
                if k not in cur:
                    cur[k] = Batch(k)
                batching.BatchItemBase.__init__(self, cur[k])

        def interp(ops):
            for op in ops:
                if op[0] == "r":
                    reads.append(get())
                elif op[0] == "y":
                    yield Item(KX)
                else:
                    with override(op[1]):
                        yield from interp(op[2])

        @asynq.asynq()
        def X():
            mine = len(reads)
            yield from interp(prog)
            return list(reads[mine:])

        @asynq.asynq()
        def mid(x):
            got = yield x
            return got

        def held(i, ovs, x):
            if ovs:
                with override(ovs[0]):
                    got = yield from held(i, ovs[1:], x)
                    return got
            got = yield (mid.asynq(x) if hops[i] else x)
            return [get(), got]

        @asynq.asynq()
        def awaiter(i, x):
            yield Item(i)
            got = yield from held(i, aws[i], x)
            return got

        @asynq.asynq()
        def bystander():
            with override(BYSTANDER_VALUE):
                byreads.append(get())
                yield Item(KX)
                byreads.append(get())
            return None

        @asynq.asynq()
        def inner():
            x = X.asynq()
            tasks = [awaiter.asynq(i, x) for i in range(naw)]
            if by:
                got = yield tasks + [bystander.asynq()]
                return got[:naw]
            got = yield tasks
            return got

        @asynq.asynq()
        def root():
            if rootov:
                with override(rootov):
                    got = yield inner.asynq()
                    return got
            got = yield inner.asynq()
            return got

        asynq.scheduler.reset()
        try:
            value = root()
            out = "ok"
        except BaseException as e:
            let_timeouts_through(e)
            value = []
            out = "raised-" + _ename(e)
        after = get()
        st = cc.sched_state(asynq.scheduler.get_scheduler())
        asynq.scheduler.reset()
        # put the variable back for the next permutation whatever happened (the observation `after` is already taken)
        if var == "S":
            S.set(0)
        else:
            A.value = 0
        if not isinstance(value, list):
            value = ["unreadable"]
        return [["perm"] + list(prios), out, ["reads"] + reads, ["value"] + value, after, ["flushes"] + flushes, ["clean"] + list(st), ["by"] + byreads]

    runs = []
    for prios in itertools.permutations(range(1, nk + 1)):
        runs.append(one_run(prios))
    lines = ["(case sharedread %d %s %s %s %s %s %s)" % (case["id"], pid, var, _sx(["x"] + xops),
                                                      _sx(["aws"] + [["aw", hops[i]] + aws[i] for i in range(naw)]),
                                                      _sx(["root", rootov]), _sx(["by", by]))]
    lines += [_sx(["run"] + r) for r in runs]
    lines.append("(end)")
    nown = sum(1 for t in xops if isinstance(t, list))
    nreads = sum(1 for t in xops if t == "r")
    distinct_reads = len({json.dumps(r[2]) for r in runs})
    feats = ["family=sharedread", "sharedread-group=" + ("control" if is_control(case) else "differing"), "sharedread-awaiters=%d" % naw,
             "sharedread-own-overrides=%d" % nown, "sharedread-reads=%d" % nreads, "sharedread-var=" + var,
             "sharedread-permutations=%d" % len(runs), "sharedread-distinct-read-vectors=%d" % distinct_reads]
    if any(hops):
        feats.append("sharedread-through-intermediate-task")
    if by:
        feats.append("sharedread-bystander")
    if rootov:
        feats.append("sharedread-root-override")
    return {"lines": lines, "features": feats,
            "nontrivial": "sharedread-" + json.dumps([xops, aws, hops, rootov, by, var])}


def shrink(case):
    """smaller cases of the same family: no bystander, no intermediate tasks, no root override, fewer awaiters, fewer nested
    overrides, a shorter program of the shared task (balanced prefixes only)"""
    if case["by"]:
        yield dict(case, by=0)
    if any(case["hop"]):
        yield dict(case, hop=[0] * len(case["hop"]))
    if case["root"]:
        yield dict(case, root=0)
    if case["var"] != "S":
        yield dict(case, var="S")
    if len(case["aw"]) > 2:
        for i in range(len(case["aw"])):
            yield dict(case, aw=case["aw"][:i] + case["aw"][i + 1:], hop=case["hop"][:i] + case["hop"][i + 1:])
    for i, a in enumerate(case["aw"]):
        if len(a) > 1:
            yield dict(case, aw=case["aw"][:i] + [a[-1:]] + case["aw"][i + 1:])
    x = case["x"]
    for i in range(len(x)):
        y = x[:i] + x[i + 1:]
        depth = 0
        ok = any(t == "r" for t in y)
        for t in y:
            depth += 1 if isinstance(t, list) else (-1 if t == "x" else 0)
            ok = ok and depth >= 0
        if ok and depth == 0:
            yield dict(case, x=y)


RULE = ("; plus family sharedread (third audit): a task SHARED by 2-3 awaiters that hold different overrides of one scoped "
        "variable (or the same one / none: the control group) - the shared task has 0-2 overrides of its own and 1-3 reads "
        "separated by batch yields and returns its reads, every awaiter reaches it after a batch of its own kind (directly or "
        "through an intermediate task), root() returns the awaiters' values, optional root override and bystander task - run "
        "under EVERY permutation of the priorities of its batch kinds (6 or 24 real runs per case, flush order steered only "
        "through get_priority); judged by direct expectation computed from the header (Drv/Families7.lean): strictly - every "
        "read is the shared task's own innermost override, else the value established by SOME awaiting chain "
        "(shared-read-from-nowhere), reads before its first suspension are those of the chain that started it, root() is built "
        "from exactly these reads, the variable is restored, the scheduler clean; and the two order-independence clauses of the "
        "property texts (C07 scoped-read-of-shared-task-depends-on-flush-order, C01 result-depends-on-flush-order: reads and "
        "root() equal under all permutations), which FAIL on the library as it is whenever two awaiting chains establish "
        "different values (open known finding; the control group passes); machine-level counterparts: C07_read_value_dag, "
        "C07_shared_read_depends_on_scheduler (Theorems/C07d.lean), C07_read_from_somewhere (Theorems/C07e.lean); non-trivial = "
        "every case; distinct by (program of the shared task, overrides, hops, root, bystander, variable kind)")

RUNNERS = {"sharedread": run_sharedread}
