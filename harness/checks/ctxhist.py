"""ctxhist - histories of context operations on ONE real task (used by the C06 and C07 checks; not a check of its own).

A case is a list of context definitions and a HISTORY of operations
    enter c | exit c | suspend | continue | finish ok|error
executed, in this order, against the real library:
  * one real @asynq() task whose body interprets the history: `enter`/`exit` are manual __enter__/__exit__ calls on real
    AsyncContext subclasses (plain, with optionally raising pause()/resume()), real asynq.scoped_value overrides and
    NonAsyncContext subclasses (so blocks may overlap in any way), `suspend` = the task yields a real batch item, so the
    real scheduler pauses the task (`_pause_contexts`), `finish` = return / raise;
  * the operations between `suspend` and `continue` run in the flush body of that batch (the task is suspended, no task is
    active), `continue` = the flush body returns and the real scheduler continues the task (`_resume_contexts`);
  * operations after the task is computed (finished, or failed by a raising hook) run at top level.
An operation that makes no sense in the current phase (suspend while suspended, ...) is recorded as skipped.  When the
history ends while the task is suspended / running, `continue` / `finish ok` is executed (and recorded) implicitly.
Observed after every operation: the pause()/resume() calls on plain contexts since the previous operation (with ids), the
exception that escaped the operation (token), the values of the scoped variables, whether the task is computed (and how).
Replayed by the Lean model AsynqModel.Contexts (driver mode `ctxhist`); theorems in AsynqModel/Theorems/C06c.lean.

Cases with a "hooks" field (hook_cases below; second audit item 12): the plain contexts are COMPOSITE - their resume() / pause()
call member.__enter__() / member.__exit__() of other contexts of the case from inside the hook - and the history may hold
`revisit` (the task is suspended on several real batches at once; each revisit = the flush body of one of them returns and the
real scheduler visits the still blocked task again: _resume_contexts, _pause_contexts).  Header `(hooks ...)`, replayed by
AsynqModel.Contexts.runH (Lib/ContextsHooks.lean, Drv/Contexts.lean handleH); theorems C06h_* in Theorems/C06h.lean."""
import hashlib
import itertools
import json
import os

# ---------------------------------------------------------------------------------------------------------------------
# context definitions:  ["plain", [resume call numbers that raise], [pause call numbers that raise]]
#                       ["ov", var, value]      asynq.scoped_value.AsyncScopedValue.override(value) of variable var
#                       ["na"]                  NonAsyncContext subclass
CONFIGS = {
    "plain2": [["plain", [], []], ["plain", [], []]],
    "plain3": [["plain", [], []], ["plain", [], []], ["plain", [], []]],
    "ov-same": [["ov", 0, 1], ["ov", 0, 2]],
    "ov-diff": [["ov", 0, 1], ["ov", 1, 2]],
    "ov-plain": [["ov", 0, 1], ["plain", [], []], ["ov", 0, 2]],
    "ov3": [["ov", 0, 1], ["ov", 1, 2], ["ov", 0, 3]],
    "na-plain": [["na"], ["plain", [], []]],
    "na-ov": [["na"], ["ov", 0, 1]],
    "praise1": [["plain", [], [1]], ["plain", [], []]],
    "praise2": [["plain", [], []], ["plain", [], [1, 2]]],
    "praise-both": [["plain", [], [1]], ["plain", [], [1]]],
    "rraise2": [["plain", [2], []], ["plain", [], []]],
    "rraise2b": [["plain", [], []], ["plain", [2], []]],
    "rraise-both": [["plain", [2], []], ["plain", [2], []]],
    "rraise1": [["plain", [1], []], ["plain", [], []]],
    "mixed-raise": [["plain", [2], [2]], ["ov", 0, 1], ["plain", [], [1]]],
    "na-praise": [["plain", [], [1]], ["na"]],
    "ov-outer": [["ov", 0, 100], ["ov", 0, 1]],          # an override with the value the variable has anyway
    "ov-dup": [["ov", 0, 1], ["ov", 0, 1], ["ov", 1, 101]],
}
LEAN_MODULES = ["AsynqModel.Theorems.C06c", "AsynqModel.Theorems.C06w", "AsynqModel.Theorems.C06h"]
THEOREMS = ["C06c_spec_partial", "C06c_spec_holds_repaired", "C06c_enter_leak_counterexample", "C06c_enter_leak_reorders_counterexample",
            "C06c_suspend_pauses_all_in_reverse_entry_order", "C06c_pause_error_fails_task",
            "C06c_nonasync_suspension_fails_task", "C06c_continue_resumes_all_in_entry_order", "C06c_exit_pauses_iff_resumed",
            "C06c_exit_keeps_the_others", "C06c_reachable", "C06c_values_follow_innermost_override",
            "C06c_paused_task_has_outer_values", "C06c_all_closed_restored", "C06c_registered_are_the_open_blocks",
            "C06c_alternate", "C06c_model_alternates",
            "C06c_exit_not_entered", "C06c_enter_twice_keeps_place", "C06c_values_need_lifo",
            "C06w_alternate_needs_no_raise",
            # hook-issued operations and revisits (Lib/ContextsHooks.lean), what `spec` claims after a misuse
            "C06h_reduces_to_plain", "C06h_hook_enter_registered", "C06h_no_crash", "C06h_resume_walks_copy",
            "C06h_composite_pause_order", "C06h_pause_walks_copy", "C06h_revisit_example",
            "C06h_revisit_resume_error_fails_task", "C06h_observer_silent_after_misuse",
            "C06h_spec_is_about_the_prefix"]   # in namespace AsynqModel.Contexts
RULE = ("histories of context operations (enter / exit via manual __enter__/__exit__ in ANY order, suspend = yield of a real batch "
        "item, continue, finish ok/error; operations during the suspension run in the flush body, after the end at top level) on ONE "
        "real task over 1-4 contexts (plain AsyncContext with pause()/resume() raising at scripted call numbers, "
        "AsyncScopedValue.override, NonAsyncContext): all well-phased histories up to length 3 (quick) / 4 (thorough) over the "
        "core context sets + sampled length 4-5 + random histories of 6-25 operations, replayed in the Lean model "
        "AsynqModel.Contexts; non-trivial = a suspension/continuation that calls a hook or changes a scoped value; distinct by "
        "hash of (contexts, history); plus histories over COMPOSITE contexts (real AsyncContext subclasses whose resume()/pause() "
        "call member.__enter__()/__exit__() from inside the hook; resume() AND pause() scripts both enter and leave, also contexts "
        "the task has registered itself: both library loops walk over a copy) and with `revisit` operations (the task is suspended "
        "on several real batches at once: the scheduler visits it again after each flush), 16 fixed + random histories of 3-18 "
        "operations (composite-style scripts, free scripts, and histories that operate the members directly as well), replayed in "
        "AsynqModel.Contexts.runH (Lib/ContextsHooks.lean); C06h_no_crash (no suspension / continuation / revisit lets an exception "
        "out) is a theorem in the manual-block model (hand-operated __enter__/__exit__); with real with-blocks two raising hooks DO "
        "let an error out - C06w_close_escape_counterexample / open C08 finding")
TRUSTED = ["hand-written Lean model AsynqModel.Contexts (contexts.py, scoped_value.py, context bookkeeping of async_task.py) tied "
           "to the code by the differential run of harness/checks/ctxhist.py only",
           "harness/checks/ctxhist.py: interpreter of a history on the real library (task body / flush body / top level)",
           "hand-written Lean layer AsynqModel.Contexts.runH (Lib/ContextsHooks.lean: hook-issued __enter__/__exit__, both library "
           "loops over a copy of task._contexts, revisit) tied to the code by the differential run of the ctxhist cases with a "
           "\"hooks\" field only; its theorems (C06h_no_crash in particular) hold in the manual-block model (hand-operated "
           "__enter__/__exit__); with real with-blocks two raising hooks DO let an error out - C06w_close_escape_counterexample / "
           "open C08 finding"]
ASSUMPTIONS = ["ctxhist: one task; hooks fail with Exceptions at scripted call numbers; scoped-value overrides never raise",
               "ctxhist hooks: members of a composite have no hook actions themselves; one top-level task (hooks called by the "
               "scheduler run while no task is active)"]
CORE_CONFIGS = ["plain2", "ov-same", "ov-diff", "na-plain", "praise1", "rraise2"]
NVARS = 2



def _let_timeouts_through(e):
    """`except BaseException` around code of the implementation must not swallow the worker's per-case watchdog
    (worker.CaseTimeout): a hang is reported as a hang (and the worker restarted), not as an outcome `raised-CaseTimeout`"""
    if type(e).__name__ == "CaseTimeout":
        raise e


def alphabet(nctx):
    ops = []
    for c in range(nctx):
        ops.append(["enter", c])
        ops.append(["exit", c])
    return ops + [["suspend"], ["continue"], ["finish", 1], ["finish", 0]]


def mk(ctxs, ops, origin, gx=0):
    """gx=1: once the task has been FAILED by a hook (its generator was closed), blocks are left the way the
    with-statements of a closing generator leave them: __exit__(GeneratorExit, exc, None) instead of __exit__(None, None, None)"""
    return {"special": "ctxhist", "ctxs": ctxs, "ops": ops, "origin": origin, "gx": gx}


def well_phased(ops):
    """no operation that would merely be skipped (phase discipline; the outcome of suspensions is ignored)"""
    ph = "running"
    for op in ops:
        if op[0] == "suspend":
            if ph != "running":
                return False
            ph = "suspended"
        elif op[0] == "continue":
            if ph != "suspended":
                return False
            ph = "running"
        elif op[0] == "finish":
            if ph != "running":
                return False
            ph = "done"
    return True


def exhaustive(cfg, maxlen):
    ctxs = CONFIGS[cfg]
    al = alphabet(len(ctxs))
    for n in range(1, maxlen + 1):
        for ops in itertools.product(al, repeat=n):
            if well_phased(ops):
                yield mk(ctxs, [list(o) for o in ops], "exh-%s-%d" % (cfg, n))


def random_history(rng, ctxs, n, tidy):
    """a mostly sensible history: `tidy` = probability of choosing an operation that respects what is open"""
    ops = []
    open_ = []
    ph = "running"
    nctx = len(ctxs)
    for _ in range(n):
        r = rng.random()
        if r < tidy:
            choices = []
            closed = [c for c in range(nctx) if c not in open_]
            if closed:
                choices += [["enter", c] for c in closed] * 2
            if open_:
                choices += [["exit", open_[-1]]] * 2 + [["exit", rng.choice(open_)]]
            if ph == "running":
                choices += [["suspend"]] * 3
                if rng.random() < 0.08:
                    choices.append(["finish", rng.randint(0, 1)])
            elif ph == "suspended":
                choices += [["continue"]] * 4
            op = rng.choice(choices) if choices else ["enter", 0]
        else:
            op = rng.choice(alphabet(nctx))
        ops.append(op)
        if op[0] == "enter" and op[1] not in open_:
            open_.append(op[1])
        elif op[0] == "exit" and op[1] in open_:
            open_.remove(op[1])
        elif op[0] == "suspend" and ph == "running":
            ph = "suspended"
        elif op[0] == "continue" and ph == "suspended":
            ph = "running"
        elif op[0] == "finish" and ph == "running":
            ph = "done"
    return ops


def random_ctxs(rng):
    if rng.random() < 0.6:
        return CONFIGS[rng.choice(sorted(CONFIGS))]
    n = rng.randint(2, 4)
    res = []
    for _ in range(n):
        k = rng.random()
        if k < 0.4:
            rr = sorted(set(rng.randint(1, 4) for _ in range(rng.randint(0, 1) if rng.random() < 0.35 else 0)))
            pr = sorted(set(rng.randint(1, 4) for _ in range(rng.randint(0, 1) if rng.random() < 0.35 else 0)))
            res.append(["plain", rr, pr])
        elif k < 0.85:
            res.append(["ov", rng.randint(0, NVARS - 1), rng.randint(1, 9)])
        else:
            res.append(["na"])
    return res


def has_ov(ctxs):
    return any(c[0] == "ov" for c in ctxs)


def cases(tier, rng, focus=None):
    """quick: ~1500 cases, thorough: ~30000 (exhaustive core + sampled short + random long histories).
    focus="ov": only context sets with at least one scoped-value override (for C07), about half as many cases"""
    out = []
    core = [c for c in CORE_CONFIGS if focus != "ov" or has_ov(CONFIGS[c])]
    names = sorted(c for c in CONFIGS if focus != "ov" or has_ov(CONFIGS[c]))
    if tier == "quick":
        out += list(exhaustive(core[0], 3))                                     # all well-phased histories of length <= 3
        for cfg in core[1:]:
            pool = list(exhaustive(cfg, 3))
            out += rng.sample(pool, 60)
        nshort, nlong = (420, 420) if focus is None else (250, 250)
    else:
        for cfg in core:
            out += list(exhaustive(cfg, 4))                                     # ... of length <= 4, per core configuration
        nshort, nlong = (10000, 10000) if focus is None else (5000, 5000)
    for _ in range(nshort):
        cfg = rng.choice(names)
        ctxs = CONFIGS[cfg]
        al = alphabet(len(ctxs))
        n = rng.randint(4, 5)
        for _try in range(50):
            ops = [list(rng.choice(al)) for _ in range(n)]
            if well_phased(ops):
                break
        out.append(mk(ctxs, ops, "short-" + cfg, rng.randint(0, 1)))
    for _ in range(nlong):
        ctxs = random_ctxs(rng)
        while focus == "ov" and not has_ov(ctxs):
            ctxs = random_ctxs(rng)
        out.append(mk(ctxs, random_history(rng, ctxs, rng.randint(6, 25), rng.choice([0.97, 0.9, 0.75])), "long", rng.randint(0, 1)))
    out += hook_cases(tier, rng, focus)
    return out


# ---------------------------------------------------------------------------------------------------------------------
# histories with HOOK ACTIONS and REVISITS (second audit item 12; model: AsynqModel/Lib/ContextsHooks.lean, theorems C06h_*):
#   * a case with a "hooks" field: per context [[actions of resume()], [actions of pause()]], an action = ["enter", m] /
#     ["exit", m]: the hook of a real AsyncContext subclass calls objs[m].__enter__() / objs[m].__exit__(None, None, None)
#     from INSIDE resume() / pause() (a composite context applying member contexts); members are leaves (no actions);
#   * the operation ["revisit"] (while the task is suspended): the task was suspended on SEVERAL real batches at once, the
#     flush body of one of them returns, the real scheduler visits the still blocked task again (_resume_contexts,
#     _pause_contexts) and flushes the next batch.
# Scripts are free: resume() and pause() may both enter and leave anything (theorem C06h_no_crash: in this MANUAL-BLOCK model no
# scheduler operation lets an exception out; with real with-blocks two raising hooks do - mode ctxwith below, open C08 finding).  Until /repo commit 28d2b07 a resume() hook that unregistered a context of the task made
# AsyncTask._resume_contexts (then a walk over the LIVE dict) raise RuntimeError out of the scheduler; the histories that showed
# it (LIVE_DICT_DEMOS, theorem C06h_resume_walks_copy) are fixed histories of the plan now.
def comp(members):
    return [[["enter", m] for m in members], [["exit", m] for m in reversed(members)]]


NOH = [[], []]
HOOK_CONFIGS = {
    # (contexts, hooks)
    "comp2": ([["plain", [], []], ["plain", [], []], ["plain", [], []]], [comp([1, 2]), NOH, NOH]),
    "plain-comp1": ([["plain", [], []], ["plain", [], []], ["plain", [], []]], [NOH, comp([2]), NOH]),
    "comp1-plain": ([["plain", [], []], ["plain", [], []], ["plain", [], []]], [comp([1]), NOH, NOH]),
    "comp-ov": ([["plain", [], []], ["ov", 0, 5], ["ov", 0, 6]], [comp([1]), NOH, NOH]),
    "comp-ov2": ([["ov", 0, 4], ["plain", [], []], ["ov", 0, 5], ["ov", 1, 6]], [NOH, comp([2, 3]), NOH, NOH]),
    "comp-na": ([["plain", [], []], ["na"]], [comp([1]), NOH]),
    "comp-mraise": ([["plain", [], []], ["plain", [2], []], ["plain", [], [2]]], [comp([1, 2]), NOH, NOH]),
    "comp-craise": ([["plain", [2], [2]], ["plain", [], []]], [comp([1]), NOH]),
    "two-comps": ([["plain", [], []], ["plain", [], []], ["plain", [], []], ["plain", [], []]], [comp([2]), comp([3]), NOH, NOH]),
    "shared-member": ([["plain", [], []], ["plain", [], []], ["plain", [], []]], [comp([2]), comp([2]), NOH]),
    "pause-enters": ([["plain", [], []], ["plain", [], []]], [[[], [["enter", 1]]], NOH]),
    "pause-leaves-only": ([["plain", [], []], ["plain", [], []]], [[[], [["exit", 1]]], NOH]),
    "resume-enters-only": ([["plain", [], []], ["plain", [], []], ["ov", 1, 7]], [[[["enter", 1], ["enter", 2]], []], NOH, NOH]),
    # resume() scripts that LEAVE contexts (the region of the former live-dict defect)
    "resume-leaves": ([["plain", [], []], ["plain", [], []], ["plain", [], []]], [[[["exit", 1]], []], NOH, NOH]),
    "resume-leaves-reenters": ([["plain", [], []], ["plain", [], []], ["plain", [], []]], [[[["exit", 1], ["enter", 1]], []], NOH, NOH]),
    "resume-swaps": ([["plain", [], []], ["plain", [], []], ["plain", [], []]],
                     [[[["exit", 2], ["enter", 1]], [["exit", 1], ["enter", 2]]], NOH, NOH]),
    "resume-leaves-ov": ([["plain", [], []], ["ov", 0, 5], ["plain", [], []], ["ov", 0, 6]], [NOH, NOH, [[["exit", 1], ["exit", 3]], []], NOH]),
    "resume-leaves-raise": ([["plain", [], []], ["plain", [2], [2]], ["plain", [3], []]], [NOH, NOH, [[["exit", 1]], [["enter", 1]]]]),
    "two-leavers": ([["plain", [], []], ["plain", [], []], ["plain", [], []], ["plain", [], []]],
                    [[[["exit", 2]], []], [[["exit", 3]], [["exit", 2]]], NOH, NOH]),
    "no-hooks": ([["plain", [], []], ["plain", [], []]], [NOH, NOH]),
    "no-hooks-ov": ([["ov", 0, 1], ["plain", [2], []], ["ov", 0, 2]], [NOH, NOH, NOH]),
    "no-hooks-raise": ([["plain", [2, 3], []], ["plain", [], [2]]], [NOH, NOH]),
}
HOOK_FIXED = [
    # one suspension on two / three batches: R P flush R P flush R
    ("no-hooks", [["enter", 0], ["suspend"], ["revisit"], ["continue"], ["exit", 0]]),
    ("no-hooks", [["enter", 0], ["enter", 1], ["suspend"], ["revisit"], ["exit", 1], ["revisit"], ["continue"]]),
    ("no-hooks-raise", [["enter", 0], ["enter", 1], ["suspend"], ["revisit"], ["revisit"], ["continue"]]),
    ("no-hooks-ov", [["enter", 0], ["enter", 2], ["suspend"], ["revisit"], ["enter", 1], ["continue"], ["suspend"], ["revisit"]]),
    # the composite of the round-5 family: entered by the running body, suspended twice, left
    ("comp2", [["enter", 0], ["suspend"], ["continue"], ["suspend"], ["continue"], ["exit", 0]]),
    ("comp2", [["enter", 0], ["suspend"], ["revisit"], ["continue"], ["exit", 0]]),
    ("plain-comp1", [["enter", 0], ["enter", 1], ["suspend"], ["continue"], ["suspend"], ["continue"], ["exit", 1], ["exit", 0]]),
    ("comp-ov", [["enter", 0], ["enter", 2], ["suspend"], ["continue"], ["suspend"], ["continue"], ["exit", 2], ["exit", 0]]),
    ("comp-na", [["enter", 0], ["suspend"], ["continue"]]),
    ("comp-mraise", [["enter", 0], ["suspend"], ["continue"], ["suspend"], ["continue"]]),
    ("comp-craise", [["enter", 0], ["suspend"], ["continue"], ["suspend"]]),
    ("shared-member", [["enter", 0], ["enter", 1], ["suspend"], ["continue"], ["exit", 1], ["exit", 0]]),
    ("comp2", [["suspend"], ["enter", 0], ["continue"], ["suspend"], ["continue"], ["exit", 0]]),      # entered in the flush body
]
# the histories that showed the live-dict defect of _resume_contexts (repaired by /repo commit 28d2b07): 0's resume() leaves 1
LIVE_DICT_DEMOS = [
    ([["plain", [], []], ["plain", [], []], ["plain", [], []]], [[[["exit", 1]], []], NOH, NOH],
     [["enter", 1], ["enter", 0], ["enter", 1], ["enter", 2], ["suspend"], ["continue"], ["enter", 1], ["exit", 2]]),
    # the same change made by the hook of the LAST registered context (was silent before the repair as well)
    ([["plain", [], []], ["plain", [], []], ["plain", [], []]], [[[["exit", 1]], []], NOH, NOH],
     [["enter", 1], ["enter", 0], ["exit", 0], ["enter", 1], ["enter", 2], ["suspend"], ["enter", 0], ["exit", 0], ["continue"], ["exit", 2]]),
    ([["plain", [], []], ["plain", [], []], ["plain", [], []]], [[[["exit", 1]], []], NOH, NOH],
     [["enter", 1], ["enter", 0], ["enter", 1], ["enter", 2], ["suspend"], ["revisit"], ["continue"]]),
]
CRASH_DEMOS = LIVE_DICT_DEMOS          # (old name, tools/ctxhook_demo.py)


def mk_hooks(ctxs, hooks, ops, origin):
    return {"special": "ctxhist", "ctxs": ctxs, "hooks": hooks, "ops": ops, "origin": origin, "gx": 0}


def hooks_ok(ctxs, hooks):
    """members are leaves, only plain contexts have scripts"""
    tg = set(a[1] for h in hooks for a in h[0] + h[1])
    return (len(hooks) == len(ctxs) and all(m < len(ctxs) and hooks[m] == NOH for m in tg)
            and all(h == NOH or ctxs[i][0] == "plain" for i, h in enumerate(hooks)))


def random_hooks(rng, ctxs):
    n = len(ctxs)
    plains = [i for i in range(n) if ctxs[i][0] == "plain"]
    if not plains or n < 2:
        return [list(NOH) for _ in ctxs]
    owners = rng.sample(plains, min(len(plains), rng.choice([1, 1, 2])))
    owners = owners[:max(1, min(len(owners), n - 1))]
    leaves = [i for i in range(n) if i not in owners]
    hooks = [[[], []] for _ in ctxs]
    for o in owners:
        ms = rng.sample(leaves, rng.randint(1, min(3, len(leaves))))
        style = rng.random()
        if style < 0.45:
            hooks[o] = comp(ms)
        elif style < 0.7:
            # free scripts: resume() and pause() both enter and leave
            hooks[o] = [[[rng.choice(["enter", "exit", "exit"]), rng.choice(leaves)] for _ in range(rng.randint(1, 3))],
                        [[rng.choice(["enter", "exit"]), rng.choice(leaves)] for _ in range(rng.randint(0, 3))]]
        elif style < 0.85:
            hooks[o] = [[["enter", m] for m in ms], [[rng.choice(["enter", "exit"]), rng.choice(leaves)] for _ in range(rng.randint(0, 3))]]
        else:
            hooks[o] = [[], [[rng.choice(["enter", "exit", "exit"]), rng.choice(leaves)] for _ in range(rng.randint(1, 3))]]
    return hooks


def leave_prefix(rng, hooks):
    """the beginning of a history that brings the task INTO the region of the former live-dict defect: the contexts that a
    resume() script leaves are entered by the body, then the owner of the script (its __enter__ runs the script: it leaves them),
    then they are entered again - registered with the task AFTER the owner, so that the next continuation's resume loop leaves
    contexts it has not reached yet"""
    ops = []
    for o, h in enumerate(hooks):
        ts = sorted(set(a[1] for a in h[0] if a[0] == "exit"))
        if ts and rng.random() < 0.85:
            ops += [["enter", t] for t in ts] + [["enter", o]] + [["enter", t] for t in ts if rng.random() < 0.9]
    return ops


def random_hook_history(rng, ctxs, hooks, n, tidy, members_too=False, prefix=()):
    """like random_history, with revisits; `tidy` histories leave the members to their composites - unless `members_too`: then
    the body enters and leaves the members itself as well (so that hooks leave contexts the task has registered)"""
    tg = set(a[1] for h in hooks for a in h[0] + h[1])
    tops = [c for c in range(len(ctxs)) if c not in tg or members_too] or list(range(len(ctxs)))
    ops, open_, ph = [list(o) for o in prefix], [], "running"
    for o in prefix:
        if o[1] not in open_:
            open_.append(o[1])
    for _ in range(n):
        if rng.random() < tidy:
            ch = []
            closed = [c for c in tops if c not in open_]
            ch += [["enter", c] for c in closed] * 2
            if open_:
                ch += [["exit", open_[-1]]] * 2 + [["exit", rng.choice(open_)]]
            if ph == "running":
                ch += [["suspend"]] * 4
                if rng.random() < 0.06:
                    ch.append(["finish", rng.randint(0, 1)])
            elif ph == "suspended":
                ch += [["continue"]] * 4 + [["revisit"]] * 3
            op = rng.choice(ch) if ch else ["enter", 0]
        else:
            op = rng.choice(alphabet(len(ctxs)) + [["revisit"]])
        ops.append(list(op))
        if op[0] == "enter" and op[1] not in open_:
            open_.append(op[1])
        elif op[0] == "exit" and op[1] in open_:
            open_.remove(op[1])
        elif op[0] == "suspend" and ph == "running":
            ph = "suspended"
        elif op[0] == "continue" and ph == "suspended":
            ph = "running"
        elif op[0] == "finish" and ph == "running":
            ph = "done"
    return ops


def hook_cases(tier, rng, focus=None):
    names = sorted(c for c in HOOK_CONFIGS if focus != "ov" or has_ov(HOOK_CONFIGS[c][0]))
    out = [mk_hooks(HOOK_CONFIGS[c][0], HOOK_CONFIGS[c][1], ops, "hooks-fixed") for c, ops in HOOK_FIXED if c in names]
    if focus is None:
        out += [mk_hooks(c, h, ops, "hooks-live-dict-demo") for c, h, ops in LIVE_DICT_DEMOS]
    n = (260 if focus is None else 160) if tier == "quick" else (8000 if focus is None else 4000)
    leavers = [c for c in names if any(a[0] == "exit" for h in HOOK_CONFIGS[c][1] for a in h[0])]
    for _ in range(n):
        if leavers and rng.random() < 0.2:
            # aimed at the region of the former live-dict defect: a resume() script leaves contexts the task registered later
            ctxs, hooks = HOOK_CONFIGS[rng.choice(leavers)]
            out.append(mk_hooks(ctxs, hooks, random_hook_history(rng, ctxs, hooks, rng.randint(3, 12), rng.choice([1.0, 1.0, 0.9]),
                                                                 members_too=True, prefix=leave_prefix(rng, hooks)), "hooks-leave"))
            continue
        if rng.random() < 0.6:
            ctxs, hooks = HOOK_CONFIGS[rng.choice(names)]
        else:
            ctxs = random_ctxs(rng)
            while focus == "ov" and not has_ov(ctxs):
                ctxs = random_ctxs(rng)
            hooks = random_hooks(rng, ctxs)
        assert hooks_ok(ctxs, hooks), (ctxs, hooks)
        leaves = any(a[0] == "exit" for h in hooks for a in h[0])
        prefix = leave_prefix(rng, hooks) if leaves and rng.random() < 0.6 else ()
        out.append(mk_hooks(ctxs, hooks, random_hook_history(rng, ctxs, hooks, rng.randint(3, 18), rng.choice([1.0, 0.95, 0.85, 0.7]),
                                                             members_too=bool(prefix) or rng.random() < 0.45, prefix=prefix),
                            "hooks-random"))
    return out


# ---------------------------------------------------------------------------------------------------------------------
# mode `ctxwith` (second audit, item 2): the first `blocks` contexts are REAL with statements of the task's generator, so
# failing the task (`_accept_error` -> `_computed` -> generator.close()) and a return / an exception of the body run their
# __exit__s the way the interpreter does; model: AsynqModel/Lib/ContextsWith.lean, theorems: Theorems/C06w.lean
WITH_LEAN_MODULES = ["AsynqModel.Theorems.C06w"]
# HEADLINE: statements with content about the model.  BY_CONSTRUCTION (third audit of the core, item 2): true because of the way
# the model is written - `acceptErrorW` ends with `if w.closeSwallows then none else esc`, the ONLY source of an escape in the
# with-block model, so "with closeSwallows nothing escapes" reads that line back.  They are audited (#print axioms) with the rest
# but are no evidence about the library: that proposed-fixes/C08-close-raise.diff cures the real code on the generated histories
# is what tools/ctxwith_afterfix.py RUNS (family ctxwith against a patched clone, expectation = the closeSwallows variant).
WITH_HEADLINE = ["C06w_close_escape_counterexample", "C06w_ignored_generatorexit_counterexample", "C06w_no_open_block_no_escape",
                 "C06w_unwind_only_unregisters"]
WITH_BY_CONSTRUCTION = ["C06w_acceptErrorW_swallows", "C06w_repaired_never_escapes"]
BY_CONSTRUCTION = WITH_BY_CONSTRUCTION
WITH_THEOREMS = WITH_HEADLINE + WITH_BY_CONSTRUCTION      # in namespace AsynqModel.Contexts; harness/checks/c08.py audits all of them
WITH_RULE = ("family ctxwith: histories over 1-3 REAL nested with-blocks of the task's generator (plain contexts whose pause()/resume() "
             "raise at scripted call numbers, overrides, NonAsyncContext) plus manually operated extra contexts: enter / leave the "
             "innermost block, suspend, continue, finish ok/error inside the blocks; generator.close() and the unwinding of the body "
             "run the __exit__s; about a quarter of the cases with a body that IGNORES GeneratorExit at its suspension points and yields "
             "again (generator.close() then raises RuntimeError through the with-blocks: one raising hook lets an exception out); replayed in AsynqModel.Contexts.runW (Lib/ContextsWith.lean); judged: no exception leaves the "
             "scheduler at a suspension / continuation, scheduler clean (tasks, active task, batches), next computation works")
WITH_FIXED = [
    # second audit, work/closeraise.py: resume of the outer block raises at the continuation, pause of the inner one raises
    # while generator.close() leaves the blocks
    ([["plain", [2], []], ["plain", [], [2]]], 2, [["enter", 0], ["enter", 1], ["suspend"], ["continue"]]),
    ([["plain", [], [1]], ["plain", [], [2]]], 2, [["enter", 0], ["enter", 1], ["suspend"], ["continue"]]),
    ([["plain", [], [2]], ["plain", [2], []]], 2, [["enter", 0], ["enter", 1], ["suspend"], ["continue"]]),
    ([["plain", [2], [2]]], 1, [["enter", 0], ["suspend"], ["continue"]]),
    ([["plain", [2], []], ["ov", 0, 5], ["plain", [], [2]]], 3, [["enter", 0], ["enter", 1], ["enter", 2], ["suspend"], ["continue"]]),
    ([["plain", [], [1]], ["plain", [], [1]]], 2, [["enter", 0], ["enter", 1], ["finish", 1]]),
    ([["plain", [], [1]], ["plain", [], []]], 2, [["enter", 0], ["enter", 1], ["finish", 0]]),
    ([["plain", [], []], ["plain", [], [1]]], 2, [["enter", 0], ["enter", 1], ["exit", 1], ["suspend"], ["continue"], ["exit", 0]]),
    ([["plain", [1], []], ["plain", [], []]], 2, [["enter", 0], ["enter", 1], ["suspend"]]),
    ([["plain", [], [1]], ["plain", [1], []]], 2, [["enter", 0], ["enter", 1], ["suspend"]]),
    ([["na"], ["plain", [], [2]]], 2, [["enter", 0], ["enter", 1], ["suspend"], ["continue"]]),
]
# third audit of the core, item 2 (the sibling route): ONE raising hook and a body that ignores GeneratorExit (gxs=1)
WITH_FIXED_GXS = [
    ([["plain", [2], []]], 1, [["enter", 0], ["suspend"], ["continue"]]),                  # C06w_ignored_generatorexit_counterexample
    ([["plain", [2], []], ["plain", [], []]], 2, [["enter", 0], ["enter", 1], ["suspend"], ["continue"]]),
    ([["plain", [], []], ["plain", [2], []]], 2, [["enter", 0], ["enter", 1], ["suspend"], ["continue"]]),
    ([["plain", [2], []], ["plain", [], [2]]], 2, [["enter", 0], ["enter", 1], ["suspend"], ["continue"]]),   # + a raising pause()
    ([["plain", [], [1]]], 1, [["enter", 0], ["suspend"]]),                                # a raising pause() at the suspension
    ([["na"]], 1, [["enter", 0], ["suspend"]]),
    ([["plain", [], []], ["na"]], 1, [["enter", 0], ["enter", 1], ["suspend"]]),           # NonAsyncContext operated by hand
    ([["plain", [], []], ["ov", 0, 5]], 2, [["enter", 0], ["enter", 1], ["suspend"], ["continue"], ["finish", 1]]),   # nothing fails
    ([["plain", [3], []]], 1, [["enter", 0], ["suspend"], ["continue"], ["suspend"], ["continue"]]),
]


def mk_with(ctxs, nb, ops, origin, gxs=0):
    """gxs=1: the body IGNORES GeneratorExit at its suspension points (`try: yield item / except GeneratorExit: yield`)"""
    return {"special": "ctxwith", "ctxs": ctxs, "blocks": nb, "ops": ops, "origin": origin, "gxs": gxs}


def random_with(rng):
    nb = rng.choice([1, 2, 2, 2, 3])
    nx = rng.choice([0, 0, 1])
    ctxs = []
    hot = rng.random() < 0.6          # scripts aimed at the second resume / second pause of a block
    for i in range(nb + nx):
        k = rng.random()
        if k < 0.7 or (i < nb and hot):
            if hot:
                rr = [2] if rng.random() < 0.45 else []
                pr = [2] if rng.random() < 0.45 else ([1] if rng.random() < 0.1 else [])
            else:
                rr = sorted(set(rng.randint(1, 3) for _ in range(rng.choice([0, 0, 1, 1, 2]))))
                pr = sorted(set(rng.randint(1, 3) for _ in range(rng.choice([0, 0, 1, 1, 2]))))
            ctxs.append(["plain", rr, pr])
        elif k < 0.93:
            ctxs.append(["ov", rng.randint(0, NVARS - 1), rng.randint(1, 9)])
        else:
            ctxs.append(["na"])
    ops, depth, ph = [], 0, "running"
    for _ in range(rng.randint(3, 12)):
        ch = []
        if ph == "running":
            if depth < nb:
                ch += [["enter", depth]] * 4
            if depth > 0:
                ch += [["exit", depth - 1]]
            ch += [["suspend"]] * (3 if depth else 1)
            if rng.random() < 0.1:
                ch += [["finish", rng.randint(0, 1)]]
        elif ph == "suspended":
            ch += [["continue"]] * 4
        if nx and rng.random() < 0.3:
            ch += [["enter", nb], ["exit", nb]]
        if rng.random() < 0.05:
            ch += [list(o) for o in alphabet(nb + nx)]          # anything, also what will merely be skipped
        if not ch:
            break
        op = list(rng.choice(ch))
        ops.append(op)
        if ph == "running" and op == ["enter", depth] and depth < nb:
            depth += 1
        elif ph == "running" and depth and op == ["exit", depth - 1]:
            depth -= 1
        elif op[0] == "suspend" and ph == "running":
            ph = "suspended"
        elif op[0] == "continue" and ph == "suspended":
            ph = "running"
        elif op[0] == "finish" and ph == "running":
            ph = "done"
    return mk_with(ctxs, nb, ops, "random", 1 if rng.random() < 0.25 else 0)


def with_cases(tier, rng):
    out = [mk_with(c, nb, ops, "fixed") for c, nb, ops in WITH_FIXED]
    out += [mk_with(c, nb, ops, "fixed-gxs", 1) for c, nb, ops in WITH_FIXED_GXS]
    out += [random_with(rng) for _ in range(300 if tier == "quick" else 8000)]
    return out


def with_signature(case, v):
    """one root cause whatever the history: an __exit__ that raises while generator.close() leaves the blocks of a task that a
    raising resume() has just failed"""
    if v.get("corr") != "ok" or v.get("specm") != v.get("spec"):
        # a recorded finding may only explain a run in which the Lean model shows the very same behaviour
        return v["spec"] + "/model-disagrees"
    if v["spec"] == "fail:scheduler-retains-pending-batch":
        return STALE_BATCH_SIGNATURE
    return v["spec"]


# the OPEN C08 finding (known_findings.json): a task failed while suspended by a context error leaves the batch of the item it
# was awaiting in TaskScheduler._batches
STALE_BATCH_SIGNATURE = "fail:scheduler-retains-pending-batch/program-with-NonAsyncContext"


# ---------------------------------------------------------------------------------------------------------------------
def sx(x):
    if isinstance(x, (list, tuple)):
        return "(" + " ".join(sx(y) for y in x) + ")"
    return str(x)


def ctx_sx(c):
    if c[0] == "plain":
        return ["plain", list(c[1]), list(c[2])]
    if c[0] == "ov":
        return ["ov", c[1], c[2]]
    return ["na"]


def op_sx(op):
    if op[0] == "finish":
        return ["finish", 1 if op[1] else 0]
    if op[0] == "continue":
        return ["continue"]
    if op[0] == "revisit":
        return ["revisit"]
    return list(op)


def run(case):
    """drive the REAL library through the history; returns {"lines", "features", "nontrivial"}"""
    import asynq
    from asynq import batching, contexts, scoped_value

    ctxdefs = case["ctxs"]
    ops = [list(o) for o in case["ops"]]
    nb = case.get("blocks", 0) if case.get("special") == "ctxwith" else 0
    nvars = max([NVARS] + [c[1] + 1 for c in ctxdefs if c[0] == "ov"])
    hooks = case.get("hooks") if not nb else None       # per context [[actions of resume()], [actions of pause()]]
    gxs = 1 if (nb and case.get("gxs")) else 0          # mode ctxwith: the body ignores GeneratorExit at its suspension points
    afterfix = 1 if (nb and case.get("afterfix")) else 0  # tools/ctxwith_afterfix.py: expectation = the model WITH the proposed repair
    build = os.environ.get("ASYNQ_VERIF_BUILD", "py")
    typed = 1 if type(contexts.AsyncContext.__dict__.get("_active_task")).__name__ == "getset_descriptor" else 0

    log = []            # pause()/resume() calls on plain contexts since the last observation
    obs = []            # one entry per executed operation
    svs = [scoped_value.AsyncScopedValue(100 + i) for i in range(nvars)]
    boom_r = [RuntimeError("resume of context %d raises" % i) for i in range(len(ctxdefs))]
    boom_p = [RuntimeError("pause of context %d raises" % i) for i in range(len(ctxdefs))]
    task_err = ValueError("the task body raises")

    class Plain(contexts.AsyncContext):
        def __init__(self, i, rr, pr):
            self.i, self.rr, self.pr, self.nr, self.np = i, rr, pr, 0, 0

        def resume(self):
            self.nr += 1
            log.append(["R", self.i, 1 if self.nr in self.rr else 0])
            if self.nr in self.rr:
                raise boom_r[self.i]
            self.act(0)

        def pause(self):
            self.np += 1
            log.append(["P", self.i, 1 if self.np in self.pr else 0])
            if self.np in self.pr:
                raise boom_p[self.i]
            self.act(1)

        def act(self, which):
            """a composite context: the hook itself enters / leaves member contexts (what they raise leaves the hook)"""
            if hooks is None:
                return
            for a in hooks[self.i][which]:
                if a[1] < len(objs):
                    if a[0] == "enter":
                        objs[a[1]].__enter__()
                    else:
                        objs[a[1]].__exit__(None, None, None)

    class NA(contexts.NonAsyncContext):
        pass

    objs = []
    for i, c in enumerate(ctxdefs):
        if c[0] == "plain":
            objs.append(Plain(i, set(c[1]), set(c[2])))
        elif c[0] == "ov":
            objs.append(svs[c[1]].override(c[2]))
        else:
            objs.append(NA())

    def token(e):
        if e is None:
            return "none"
        for i in range(len(ctxdefs)):
            if e is boom_r[i]:
                return ["hookR", i]
            if e is boom_p[i]:
                return ["hookP", i]
        if e is task_err:
            return "taskError"
        if isinstance(e, AssertionError):
            return "assertion"
        if isinstance(e, AttributeError):
            return "attrError"
        if isinstance(e, KeyError):
            return "keyError"
        if isinstance(e, RuntimeError) and str(e) == "generator ignored GeneratorExit":
            return "other-generator-ignored-GeneratorExit"
        return "other-" + type(e).__name__

    st = {"phase": "running", "pos": 0, "pending": None, "task": None, "depth": 0}

    def hook_failed():
        t = st["task"]
        return t is not None and t.is_computed() and t.error() is not None and t.error() is not task_err

    st["hook_failed"] = hook_failed

    def status():
        t = st["task"]
        if t is None or not t.is_computed():
            return "none"
        e = t.error()
        return "ok" if e is None else ["err", token(e)]

    def value_of(sv):
        v = sv.get()
        return 0 if v is None else v

    def snapshot(op, exc):
        obs.append(["obs", op_sx(op), ["calls"] + [list(x) for x in log], ["exc", exc], ["vals"] + [value_of(s) for s in svs],
                    ["status", status()]])
        del log[:]

    def close_pending():
        if st["pending"] is not None:
            op, st["pending"] = st["pending"], None
            snapshot(op, "none")

    def simple():
        """execute enter/exit operations (and record the ones that make no sense in this phase as skipped) up to the next
        operation that changes the phase; returns it (not yet consumed), or None at the end of the history"""
        while st["pos"] < len(ops):
            op = ops[st["pos"]]
            k = op[0]
            if nb and k in ("enter", "exit") and op[1] < nb and op[1] < len(objs):
                # a with statement of the task's body (mode ctxwith): only while the task runs and only in the fixed
                # nesting order; executed by the body itself (seq), everything else is recorded as skipped
                if st["phase"] == "running" and ((k == "enter" and op[1] == st["depth"]) or (k == "exit" and op[1] == st["depth"] - 1)):
                    return op
                snapshot(op, "skip")
            elif k in ("enter", "exit") and op[1] >= len(objs):
                snapshot(op, "skip")
            elif k in ("enter", "exit"):
                exc = None
                try:
                    if k == "enter":
                        objs[op[1]].__enter__()
                    elif case.get("gx") and st["hook_failed"]():
                        gexc = GeneratorExit()
                        objs[op[1]].__exit__(GeneratorExit, gexc, None)
                    else:
                        objs[op[1]].__exit__(None, None, None)
                except BaseException as e:
                    _let_timeouts_through(e)
                    exc = e
                snapshot(op, token(exc))
            elif (k == "suspend" and st["phase"] == "running") or (k == "continue" and st["phase"] == "suspended") or \
                    (k == "finish" and st["phase"] == "running") or (k == "revisit" and st["phase"] == "suspended"):
                return op
            else:
                snapshot(op, "skip")
            st["pos"] += 1
        return None

    class B(batching.BatchBase):
        def _try_switch_active_batch(self):
            if cur[0] is self:
                cur[0] = B()

        def _flush(self):
            if st.get("over"):                 # a batch left behind by a task that was failed while suspended, flushed by the
                for it in self.items:          # computation that follows the history: not part of the history
                    it.set_value(1)
                return
            close_pending()                    # the suspend operation is complete: the scheduler has paused the task
            op = simple()
            if op is None:
                op = ["continue"]              # implicit continue at the end of the history
            else:
                st["pos"] += 1
            st["pending"] = op
            for it in self.items:
                it.set_value(1)

    class I(batching.BatchItemBase):
        def __init__(self):
            batching.BatchItemBase.__init__(self, cur[0])

    cur = [None]
    cur[0] = B()

    @asynq.asynq()
    def body():
        while True:
            op = simple()
            if op is None:
                op = ["finish", 1]             # implicit normal end of the body
            else:
                st["pos"] += 1
            st["pending"] = op
            if op[0] == "finish":
                st["phase"] = "done"
                if op[1]:
                    return 7
                raise task_err
            st["phase"] = "suspended"
            # one real batch per flush body of this suspension: every `revisit` before the next `continue` ends one
            nrev = 0
            for o in ops[st["pos"]:]:
                if o[0] == "continue":
                    break
                if o[0] == "revisit":
                    nrev += 1
            try:
                if nrev == 0:
                    yield I()
                else:
                    items = []
                    for _i in range(nrev + 1):
                        items.append(I())
                        cur[0] = B()           # the next item belongs to a batch of its own
                    yield tuple(items)
            except GeneratorExit:
                return                         # the task was failed while suspended / when it was continued
            close_pending()                    # the continue operation is complete: the task runs again
            st["phase"] = "running"

    def seq(depth):
        """mode ctxwith: the part of the body at nesting depth `depth`, with REAL with statements (one generator frame per
        block, joined by `yield from`): returns "exit" when control leaves the enclosing block normally, "return" when the
        body returns from inside the blocks; exceptions (task error, a raising __enter__/__exit__, the GeneratorExit of
        generator.close()) travel through the with statements as the interpreter makes them"""
        while True:
            st["depth"] = depth
            op = simple()
            if op is None:
                op = ["finish", 1]
            else:
                st["pos"] += 1
            st["pending"] = op
            if op[0] == "enter":
                with objs[op[1]]:
                    close_pending()            # the block is entered
                    r = yield from seq(depth + 1)
                    if r == "return":
                        return r
                close_pending()                # the block is left (normally)
            elif op[0] == "exit":
                return "exit"
            elif op[0] == "finish":
                st["phase"] = "done"
                if op[1]:
                    return "return"
                raise task_err
            else:
                st["phase"] = "suspended"
                if gxs:
                    try:
                        yield I()
                    except GeneratorExit:
                        # a body that IGNORES the GeneratorExit of generator.close() and yields again: close() of this
                        # sub-generator raises RuntimeError('generator ignored GeneratorExit') into the frames that
                        # delegate to it, i.e. through the open with statements
                        yield None
                else:
                    yield I()                  # (GeneratorExit is NOT caught: generator.close() runs the __exit__s)
                close_pending()
                st["phase"] = "running"

    @asynq.asynq()
    def body_with():
        yield from seq(0)
        return 7

    @asynq.asynq()
    def other():
        return (yield I()) + 1

    asynq.scheduler.reset()
    sched = asynq.scheduler.get_scheduler()
    escaped = None
    st["task"] = (body_with if nb else body).asynq()
    try:
        st["task"].value()
    except BaseException as e:
        _let_timeouts_through(e)
        escaped = e
    st["phase"] = "done"
    t = st["task"]
    if (nb or hooks is not None) and st["pending"] is not None:
        # the operation during which value() returned: what left the scheduler loop although it is not the task's outcome
        op, st["pending"] = st["pending"], None
        foreign = escaped is not None and not (t.is_computed() and t.error() is escaped)
        snapshot(op, token(escaped) if (foreign and op[0] in ("suspend", "continue", "revisit")) else "none")
    close_pending()
    simple()
    st["over"] = True
    final_status = status()
    if escaped is None:
        esc = "none"
    elif t.is_computed() and t.error() is escaped:
        esc = "task-error"
    else:
        esc = token(escaped)
    clean = 1 if (len(sched._tasks) == 0 and sched.active_task is None) else 0
    nbatches = len(sched._batches)
    nlive = sum(1 for b in sched._batches if b.items and not b.is_flushed())
    try:
        nxt = 1 if other() == 2 else 0
    except BaseException:
        nxt = 0
    # leave nothing behind for the next case of this worker process
    for o in objs:
        try:
            o.__exit__(None, None, None)
        except BaseException:
            pass
    asynq.scheduler.reset()

    lines = ["(case ctxhist %d %s %s %s)" % (case["id"], sx(["typed", typed]), sx(["ctxs"] + [ctx_sx(c) for c in ctxdefs]),
                                            sx(["vars", nvars]))]
    if hooks is not None:
        lines = ["(case ctxhist %d %s %s %s %s)" % (case["id"], sx(["typed", typed]), sx(["ctxs"] + [ctx_sx(c) for c in ctxdefs]),
                                                    sx(["vars", nvars]), sx(["hooks"] + [[list(h[0]), list(h[1])] for h in hooks]))]
    if nb:
        lines = ["(case ctxwith %d %s %s %s %s %s %s)" % (case["id"], sx(["typed", typed]), sx(["ctxs"] + [ctx_sx(c) for c in ctxdefs]),
                                                          sx(["vars", nvars]), sx(["blocks", nb]), sx(["gxs", gxs]),
                                                          sx(["afterfix", afterfix]))]
    lines += [sx(o) for o in obs]
    if nb:
        lines.append(sx(["final", ["status", final_status], ["escaped", esc], ["clean", clean], ["batches", nbatches, nlive], ["next", nxt]]))
    else:
        lines.append(sx(["final", ["status", final_status], ["escaped", esc], ["clean", clean], ["next", nxt]]))
    lines.append("(end)")

    kinds = sorted(set(c[0] for c in ctxdefs))
    nsusp = sum(1 for o in obs if o[1][0] == "suspend" and o[3][1] != "skip")
    if nb:
        feats0 = ["ctxwith", "ctxwith-blocks=%d" % nb]
        if esc not in ("none", "task-error"):
            feats0.append("ctxwith-has=exception-leaving-the-scheduler")
        if gxs:
            feats0.append("ctxwith-body-ignores-GeneratorExit")
            if esc == "other-generator-ignored-GeneratorExit":
                feats0.append("ctxwith-has=RuntimeError-generator-ignored-GeneratorExit-leaving-the-scheduler")
    else:
        feats0 = []
    feats = feats0 + ["ctxhist", "ctxhist-ops<=%d" % next(b for b in (3, 5, 10, 25, 10 ** 9) if len(obs) <= b),
             "ctxhist-kinds=" + "+".join(kinds), "ctxhist-suspensions<=%d" % next(b for b in (0, 1, 3, 10 ** 9) if nsusp <= b),
             "ctxhist-build=" + build]
    if any(c[0] == "plain" and (c[1] or c[2]) for c in ctxdefs):
        feats.append("ctxhist-has=raising-hook")
    if any(o[3][1] not in ("none", "skip") for o in obs):
        feats.append("ctxhist-has=escaping-exception")
    if any(o[3][1] == "skip" for o in obs):
        feats.append("ctxhist-has=skipped-op")
    if case.get("gx"):
        feats.append("ctxhist-exit-with-GeneratorExit")
    if hooks is not None:
        feats.append("ctxhist-hooks")
        if any(h != NOH for h in hooks):
            feats.append("ctxhist-has=hook-actions")
        if any(o[1][0] == "revisit" and o[3][1] != "skip" for o in obs):
            feats.append("ctxhist-has=revisit")
        if any(a[0] == "exit" for h in hooks for a in h[0]):
            feats.append("ctxhist-has=resume-script-that-leaves")
        def left_inside(calls):
            ps = [i for i, c in enumerate(calls) if c[0] == "P"]
            return bool(ps) and any(c[0] == "R" for c in calls[ps[0] + 1:])
        if any(o[1][0] in ("continue", "revisit") and left_inside(o[2][1:]) for o in obs):
            # a pause() in the middle of the library's resume loop: a resume() hook left a context, and the loop went on
            feats.append("ctxhist-has=context-left-inside-resume-loop")
    if isinstance(final_status, list):
        feats.append("ctxhist-task-failed=" + (final_status[1] if isinstance(final_status[1], str) else final_status[1][0]))
    interesting = any(o[1][0] in ("suspend", "continue", "revisit") and (len(o[2]) > 1 or o[4][1:] != [100 + i for i in range(nvars)]) for o in obs)
    nontrivial = None
    if interesting:
        nontrivial = "ctxhist-" + hashlib.sha1(json.dumps([ctxdefs, ops] + ([hooks] if hooks is not None else []), sort_keys=True).encode()).hexdigest()[:16]
    return {"lines": lines, "features": feats, "nontrivial": nontrivial}


def shrink(case):
    if case.get("special") == "ctxwith":
        ops = case["ops"]
        for i in range(len(ops)):
            yield dict(case, ops=ops[:i] + ops[i + 1:])
        for i, c in enumerate(case["ctxs"]):
            if c[0] == "plain" and (c[1] or c[2]):
                for rr, pr in ((c[1][1:], c[2]), (c[1], c[2][1:])):
                    if (rr, pr) != (c[1], c[2]):
                        yield dict(case, ctxs=case["ctxs"][:i] + [["plain", rr, pr]] + case["ctxs"][i + 1:])
        if case.get("gxs"):
            yield dict(case, gxs=0)
        return
    ops = case["ops"]
    for i in range(len(ops)):
        yield dict(case, ops=ops[:i] + ops[i + 1:])
    ctxs = case["ctxs"]
    if case.get("hooks") is not None:
        hooks = case["hooks"]
        for i, h in enumerate(hooks):
            for w in (0, 1):
                for j in range(len(h[w])):
                    h2 = [list(h[0]), list(h[1])]
                    del h2[w][j]
                    yield dict(case, hooks=hooks[:i] + [h2] + hooks[i + 1:])
        return
    used = sorted(set(o[1] for o in ops if o[0] in ("enter", "exit")))
    if len(used) < len(ctxs) and used:
        ren = {c: i for i, c in enumerate(used)}
        yield dict(case, ctxs=[ctxs[c] for c in used], ops=[[o[0], ren[o[1]]] if o[0] in ("enter", "exit") else o for o in ops])
    for i, c in enumerate(ctxs):
        if c[0] == "plain" and (c[1] or c[2]):
            yield dict(case, ctxs=ctxs[:i] + [["plain", [], []]] + ctxs[i + 1:])
    if case.get("gx"):
        yield dict(case, gx=0)


def neighbours(case, rng):
    if case.get("special") == "ctxwith":
        for _ in range(32):
            yield random_with(rng)
        return
    ctxs = case["ctxs"]
    if case.get("hooks") is not None:
        for _ in range(32):
            yield mk_hooks(ctxs, case["hooks"], random_hook_history(rng, ctxs, case["hooks"], rng.randint(3, 14), 0.9,
                                                                    members_too=rng.random() < 0.5), "neighbour")
        return
    al = alphabet(len(ctxs))
    ops = case["ops"]
    for _ in range(24):
        o2 = [list(o) for o in ops]
        r = rng.random()
        if r < 0.35 and o2:
            o2[rng.randrange(len(o2))] = list(rng.choice(al))
        elif r < 0.7:
            o2.insert(rng.randint(0, len(o2)), list(rng.choice(al)))
        elif o2:
            del o2[rng.randrange(len(o2))]
        yield mk(ctxs, o2, "neighbour", case.get("gx", 0))
    for _ in range(8):
        yield mk(ctxs, random_history(rng, ctxs, rng.randint(3, 12), 0.9), "neighbour", rng.randint(0, 1))
