"""ctxhist - histories of context operations on ONE real task (used by the C06 and C07 checks; not a check of its own).

A case is a list of context definitions and a HISTORY of operations
    enter c | exit c | suspend | continue | finish ok|error
executed, in this order, against the real library:
  * one real @asynq() task whose body interprets the history: `enter`/`exit` are manual __enter__/__exit__ calls on real
    AsyncContext subclasses (plain, with optionally raising pause()/resume()), real asynq.scoped_value overrides and
    NonAsyncContext subclasses (so blocks may overlap in any way), `suspend` = the task yields a real batch item, so the
    real scheduler pauses the task (`_pause_contexts`), `finish` = return / raise;
  * the operations between `suspend` and `continue` run in the flush body of that batch (the task is suspended, no task is
    active), `continue` = the flush body returns and the real scheduler continues the task (`_resume_contexts`);
  * operations after the task is computed (finished, or failed by a raising hook) run at top level.
An operation that makes no sense in the current phase (suspend while suspended, ...) is recorded as skipped.  When the
history ends while the task is suspended / running, `continue` / `finish ok` is executed (and recorded) implicitly.
Observed after every operation: the pause()/resume() calls on plain contexts since the previous operation (with ids), the
exception that escaped the operation (token), the values of the scoped variables, whether the task is computed (and how).
Replayed by the Lean model AsynqModel.Contexts (driver mode `ctxhist`); theorems in AsynqModel/Theorems/C06c.lean."""
import hashlib
import itertools
import json
import os

# ---------------------------------------------------------------------------------------------------------------------
# context definitions:  ["plain", [resume call numbers that raise], [pause call numbers that raise]]
#                       ["ov", var, value]      asynq.scoped_value.AsyncScopedValue.override(value) of variable var
#                       ["na"]                  NonAsyncContext subclass
CONFIGS = {
    "plain2": [["plain", [], []], ["plain", [], []]],
    "plain3": [["plain", [], []], ["plain", [], []], ["plain", [], []]],
    "ov-same": [["ov", 0, 1], ["ov", 0, 2]],
    "ov-diff": [["ov", 0, 1], ["ov", 1, 2]],
    "ov-plain": [["ov", 0, 1], ["plain", [], []], ["ov", 0, 2]],
    "ov3": [["ov", 0, 1], ["ov", 1, 2], ["ov", 0, 3]],
    "na-plain": [["na"], ["plain", [], []]],
    "na-ov": [["na"], ["ov", 0, 1]],
    "praise1": [["plain", [], [1]], ["plain", [], []]],
    "praise2": [["plain", [], []], ["plain", [], [1, 2]]],
    "praise-both": [["plain", [], [1]], ["plain", [], [1]]],
    "rraise2": [["plain", [2], []], ["plain", [], []]],
    "rraise2b": [["plain", [], []], ["plain", [2], []]],
    "rraise-both": [["plain", [2], []], ["plain", [2], []]],
    "rraise1": [["plain", [1], []], ["plain", [], []]],
    "mixed-raise": [["plain", [2], [2]], ["ov", 0, 1], ["plain", [], [1]]],
    "na-praise": [["plain", [], [1]], ["na"]],
    "ov-outer": [["ov", 0, 100], ["ov", 0, 1]],          # an override with the value the variable has anyway
    "ov-dup": [["ov", 0, 1], ["ov", 0, 1], ["ov", 1, 101]],
}
LEAN_MODULES = ["AsynqModel.Theorems.C06c"]
THEOREMS = ["C06c_spec_partial", "C06c_spec_holds_repaired", "C06c_enter_leak_counterexample", "C06c_enter_leak_reorders_counterexample",
            "C06c_suspend_pauses_all_in_reverse_entry_order", "C06c_pause_error_fails_task",
            "C06c_nonasync_suspension_fails_task", "C06c_continue_resumes_all_in_entry_order", "C06c_exit_pauses_iff_resumed",
            "C06c_exit_keeps_the_others", "C06c_reachable", "C06c_values_follow_innermost_override",
            "C06c_paused_task_has_outer_values", "C06c_all_closed_restored", "C06c_registered_are_the_open_blocks",
            "C06c_alternate", "C06c_model_alternates",
            "C06c_exit_not_entered", "C06c_enter_twice_keeps_place", "C06c_values_need_lifo"]   # in namespace AsynqModel.Contexts
RULE = ("histories of context operations (enter / exit via manual __enter__/__exit__ in ANY order, suspend = yield of a real batch "
        "item, continue, finish ok/error; operations during the suspension run in the flush body, after the end at top level) on ONE "
        "real task over 1-4 contexts (plain AsyncContext with pause()/resume() raising at scripted call numbers, "
        "AsyncScopedValue.override, NonAsyncContext): all well-phased histories up to length 3 (quick) / 4 (thorough) over the "
        "core context sets + sampled length 4-5 + random histories of 6-25 operations, replayed in the Lean model "
        "AsynqModel.Contexts; non-trivial = a suspension/continuation that calls a hook or changes a scoped value; distinct by "
        "hash of (contexts, history)")
TRUSTED = ["hand-written Lean model AsynqModel.Contexts (contexts.py, scoped_value.py, context bookkeeping of async_task.py) tied "
           "to the code by the differential run of harness/checks/ctxhist.py only",
           "harness/checks/ctxhist.py: interpreter of a history on the real library (task body / flush body / top level)"]
ASSUMPTIONS = ["ctxhist: one task; hooks fail with Exceptions at scripted call numbers; scoped-value overrides never raise"]
CORE_CONFIGS = ["plain2", "ov-same", "ov-diff", "na-plain", "praise1", "rraise2"]
NVARS = 2


def alphabet(nctx):
    ops = []
    for c in range(nctx):
        ops.append(["enter", c])
        ops.append(["exit", c])
    return ops + [["suspend"], ["continue"], ["finish", 1], ["finish", 0]]


def mk(ctxs, ops, origin, gx=0):
    """gx=1: once the task has been FAILED by a hook (its generator was closed), blocks are left the way the
    with-statements of a closing generator leave them: __exit__(GeneratorExit, exc, None) instead of __exit__(None, None, None)"""
    return {"special": "ctxhist", "ctxs": ctxs, "ops": ops, "origin": origin, "gx": gx}


def well_phased(ops):
    """no operation that would merely be skipped (phase discipline; the outcome of suspensions is ignored)"""
    ph = "running"
    for op in ops:
        if op[0] == "suspend":
            if ph != "running":
                return False
            ph = "suspended"
        elif op[0] == "continue":
            if ph != "suspended":
                return False
            ph = "running"
        elif op[0] == "finish":
            if ph != "running":
                return False
            ph = "done"
    return True


def exhaustive(cfg, maxlen):
    ctxs = CONFIGS[cfg]
    al = alphabet(len(ctxs))
    for n in range(1, maxlen + 1):
        for ops in itertools.product(al, repeat=n):
            if well_phased(ops):
                yield mk(ctxs, [list(o) for o in ops], "exh-%s-%d" % (cfg, n))


def random_history(rng, ctxs, n, tidy):
    """a mostly sensible history: `tidy` = probability of choosing an operation that respects what is open"""
    ops = []
    open_ = []
    ph = "running"
    nctx = len(ctxs)
    for _ in range(n):
        r = rng.random()
        if r < tidy:
            choices = []
            closed = [c for c in range(nctx) if c not in open_]
            if closed:
                choices += [["enter", c] for c in closed] * 2
            if open_:
                choices += [["exit", open_[-1]]] * 2 + [["exit", rng.choice(open_)]]
            if ph == "running":
                choices += [["suspend"]] * 3
                if rng.random() < 0.08:
                    choices.append(["finish", rng.randint(0, 1)])
            elif ph == "suspended":
                choices += [["continue"]] * 4
            op = rng.choice(choices) if choices else ["enter", 0]
        else:
            op = rng.choice(alphabet(nctx))
        ops.append(op)
        if op[0] == "enter" and op[1] not in open_:
            open_.append(op[1])
        elif op[0] == "exit" and op[1] in open_:
            open_.remove(op[1])
        elif op[0] == "suspend" and ph == "running":
            ph = "suspended"
        elif op[0] == "continue" and ph == "suspended":
            ph = "running"
        elif op[0] == "finish" and ph == "running":
            ph = "done"
    return ops


def random_ctxs(rng):
    if rng.random() < 0.6:
        return CONFIGS[rng.choice(sorted(CONFIGS))]
    n = rng.randint(2, 4)
    res = []
    for _ in range(n):
        k = rng.random()
        if k < 0.4:
            rr = sorted(set(rng.randint(1, 4) for _ in range(rng.randint(0, 1) if rng.random() < 0.35 else 0)))
            pr = sorted(set(rng.randint(1, 4) for _ in range(rng.randint(0, 1) if rng.random() < 0.35 else 0)))
            res.append(["plain", rr, pr])
        elif k < 0.85:
            res.append(["ov", rng.randint(0, NVARS - 1), rng.randint(1, 9)])
        else:
            res.append(["na"])
    return res


def has_ov(ctxs):
    return any(c[0] == "ov" for c in ctxs)


def cases(tier, rng, focus=None):
    """quick: ~1500 cases, thorough: ~30000 (exhaustive core + sampled short + random long histories).
    focus="ov": only context sets with at least one scoped-value override (for C07), about half as many cases"""
    out = []
    core = [c for c in CORE_CONFIGS if focus != "ov" or has_ov(CONFIGS[c])]
    names = sorted(c for c in CONFIGS if focus != "ov" or has_ov(CONFIGS[c]))
    if tier == "quick":
        out += list(exhaustive(core[0], 3))                                     # all well-phased histories of length <= 3
        for cfg in core[1:]:
            pool = list(exhaustive(cfg, 3))
            out += rng.sample(pool, 60)
        nshort, nlong = (420, 420) if focus is None else (250, 250)
    else:
        for cfg in core:
            out += list(exhaustive(cfg, 4))                                     # ... of length <= 4, per core configuration
        nshort, nlong = (10000, 10000) if focus is None else (5000, 5000)
    for _ in range(nshort):
        cfg = rng.choice(names)
        ctxs = CONFIGS[cfg]
        al = alphabet(len(ctxs))
        n = rng.randint(4, 5)
        for _try in range(50):
            ops = [list(rng.choice(al)) for _ in range(n)]
            if well_phased(ops):
                break
        out.append(mk(ctxs, ops, "short-" + cfg, rng.randint(0, 1)))
    for _ in range(nlong):
        ctxs = random_ctxs(rng)
        while focus == "ov" and not has_ov(ctxs):
            ctxs = random_ctxs(rng)
        out.append(mk(ctxs, random_history(rng, ctxs, rng.randint(6, 25), rng.choice([0.97, 0.9, 0.75])), "long", rng.randint(0, 1)))
    return out


# ---------------------------------------------------------------------------------------------------------------------
def sx(x):
    if isinstance(x, (list, tuple)):
        return "(" + " ".join(sx(y) for y in x) + ")"
    return str(x)


def ctx_sx(c):
    if c[0] == "plain":
        return ["plain", list(c[1]), list(c[2])]
    if c[0] == "ov":
        return ["ov", c[1], c[2]]
    return ["na"]


def op_sx(op):
    if op[0] == "finish":
        return ["finish", 1 if op[1] else 0]
    if op[0] == "continue":
        return ["continue"]
    return list(op)


def run(case):
    """drive the REAL library through the history; returns {"lines", "features", "nontrivial"}"""
    import asynq
    from asynq import batching, contexts, scoped_value

    ctxdefs = case["ctxs"]
    ops = [list(o) for o in case["ops"]]
    nvars = max([NVARS] + [c[1] + 1 for c in ctxdefs if c[0] == "ov"])
    build = os.environ.get("ASYNQ_VERIF_BUILD", "py")
    typed = 1 if type(contexts.AsyncContext.__dict__.get("_active_task")).__name__ == "getset_descriptor" else 0

    log = []            # pause()/resume() calls on plain contexts since the last observation
    obs = []            # one entry per executed operation
    svs = [scoped_value.AsyncScopedValue(100 + i) for i in range(nvars)]
    boom_r = [RuntimeError("resume of context %d raises" % i) for i in range(len(ctxdefs))]
    boom_p = [RuntimeError("pause of context %d raises" % i) for i in range(len(ctxdefs))]
    task_err = ValueError("the task body raises")

    class Plain(contexts.AsyncContext):
        def __init__(self, i, rr, pr):
            self.i, self.rr, self.pr, self.nr, self.np = i, rr, pr, 0, 0

        def resume(self):
            self.nr += 1
            log.append(["R", self.i, 1 if self.nr in self.rr else 0])
            if self.nr in self.rr:
                raise boom_r[self.i]

        def pause(self):
            self.np += 1
            log.append(["P", self.i, 1 if self.np in self.pr else 0])
            if self.np in self.pr:
                raise boom_p[self.i]

    class NA(contexts.NonAsyncContext):
        pass

    objs = []
    for i, c in enumerate(ctxdefs):
        if c[0] == "plain":
            objs.append(Plain(i, set(c[1]), set(c[2])))
        elif c[0] == "ov":
            objs.append(svs[c[1]].override(c[2]))
        else:
            objs.append(NA())

    def token(e):
        if e is None:
            return "none"
        for i in range(len(ctxdefs)):
            if e is boom_r[i]:
                return ["hookR", i]
            if e is boom_p[i]:
                return ["hookP", i]
        if e is task_err:
            return "taskError"
        if isinstance(e, AssertionError):
            return "assertion"
        if isinstance(e, AttributeError):
            return "attrError"
        if isinstance(e, KeyError):
            return "keyError"
        return "other-" + type(e).__name__

    st = {"phase": "running", "pos": 0, "pending": None, "task": None}

    def hook_failed():
        t = st["task"]
        return t is not None and t.is_computed() and t.error() is not None and t.error() is not task_err

    st["hook_failed"] = hook_failed

    def status():
        t = st["task"]
        if t is None or not t.is_computed():
            return "none"
        e = t.error()
        return "ok" if e is None else ["err", token(e)]

    def value_of(sv):
        v = sv.get()
        return 0 if v is None else v

    def snapshot(op, exc):
        obs.append(["obs", op_sx(op), ["calls"] + [list(x) for x in log], ["exc", exc], ["vals"] + [value_of(s) for s in svs],
                    ["status", status()]])
        del log[:]

    def close_pending():
        if st["pending"] is not None:
            op, st["pending"] = st["pending"], None
            snapshot(op, "none")

    def simple():
        """execute enter/exit operations (and record the ones that make no sense in this phase as skipped) up to the next
        operation that changes the phase; returns it (not yet consumed), or None at the end of the history"""
        while st["pos"] < len(ops):
            op = ops[st["pos"]]
            k = op[0]
            if k in ("enter", "exit"):
                exc = None
                try:
                    if k == "enter":
                        objs[op[1]].__enter__()
                    elif case.get("gx") and st["hook_failed"]():
                        gexc = GeneratorExit()
                        objs[op[1]].__exit__(GeneratorExit, gexc, None)
                    else:
                        objs[op[1]].__exit__(None, None, None)
                except BaseException as e:
                    exc = e
                snapshot(op, token(exc))
            elif (k == "suspend" and st["phase"] == "running") or (k == "continue" and st["phase"] == "suspended") or \
                    (k == "finish" and st["phase"] == "running"):
                return op
            else:
                snapshot(op, "skip")
            st["pos"] += 1
        return None

    class B(batching.BatchBase):
        def _try_switch_active_batch(self):
            if cur[0] is self:
                cur[0] = B()

        def _flush(self):
            close_pending()                    # the suspend operation is complete: the scheduler has paused the task
            op = simple()
            if op is None:
                op = ["continue"]              # implicit continue at the end of the history
            else:
                st["pos"] += 1
            st["pending"] = op
            for it in self.items:
                it.set_value(1)

    class I(batching.BatchItemBase):
        def __init__(self):
            batching.BatchItemBase.__init__(self, cur[0])

    cur = [None]
    cur[0] = B()

    @asynq.asynq()
    def body():
        while True:
            op = simple()
            if op is None:
                op = ["finish", 1]             # implicit normal end of the body
            else:
                st["pos"] += 1
            st["pending"] = op
            if op[0] == "finish":
                st["phase"] = "done"
                if op[1]:
                    return 7
                raise task_err
            st["phase"] = "suspended"
            try:
                yield I()
            except GeneratorExit:
                return                         # the task was failed while suspended / when it was continued
            close_pending()                    # the continue operation is complete: the task runs again
            st["phase"] = "running"

    @asynq.asynq()
    def other():
        return (yield I()) + 1

    asynq.scheduler.reset()
    sched = asynq.scheduler.get_scheduler()
    escaped = None
    st["task"] = body.asynq()
    try:
        st["task"].value()
    except BaseException as e:
        escaped = e
    st["phase"] = "done"
    close_pending()
    simple()
    final_status = status()
    t = st["task"]
    if escaped is None:
        esc = "none"
    elif t.is_computed() and t.error() is escaped:
        esc = "task-error"
    else:
        esc = token(escaped)
    clean = 1 if (len(sched._tasks) == 0 and sched.active_task is None) else 0
    try:
        nxt = 1 if other() == 2 else 0
    except BaseException:
        nxt = 0
    # leave nothing behind for the next case of this worker process
    for o in objs:
        try:
            o.__exit__(None, None, None)
        except BaseException:
            pass
    asynq.scheduler.reset()

    lines = ["(case ctxhist %d %s %s %s)" % (case["id"], sx(["typed", typed]), sx(["ctxs"] + [ctx_sx(c) for c in ctxdefs]),
                                            sx(["vars", nvars]))]
    lines += [sx(o) for o in obs]
    lines.append(sx(["final", ["status", final_status], ["escaped", esc], ["clean", clean], ["next", nxt]]))
    lines.append("(end)")

    kinds = sorted(set(c[0] for c in ctxdefs))
    nsusp = sum(1 for o in obs if o[1][0] == "suspend" and o[3][1] != "skip")
    feats = ["ctxhist", "ctxhist-ops<=%d" % next(b for b in (3, 5, 10, 25, 10 ** 9) if len(obs) <= b),
             "ctxhist-kinds=" + "+".join(kinds), "ctxhist-suspensions<=%d" % next(b for b in (0, 1, 3, 10 ** 9) if nsusp <= b),
             "ctxhist-build=" + build]
    if any(c[0] == "plain" and (c[1] or c[2]) for c in ctxdefs):
        feats.append("ctxhist-has=raising-hook")
    if any(o[3][1] not in ("none", "skip") for o in obs):
        feats.append("ctxhist-has=escaping-exception")
    if any(o[3][1] == "skip" for o in obs):
        feats.append("ctxhist-has=skipped-op")
    if case.get("gx"):
        feats.append("ctxhist-exit-with-GeneratorExit")
    if isinstance(final_status, list):
        feats.append("ctxhist-task-failed=" + (final_status[1] if isinstance(final_status[1], str) else final_status[1][0]))
    interesting = any(o[1][0] in ("suspend", "continue") and (len(o[2]) > 1 or o[4][1:] != [100 + i for i in range(nvars)]) for o in obs)
    nontrivial = None
    if interesting:
        nontrivial = "ctxhist-" + hashlib.sha1(json.dumps([ctxdefs, ops], sort_keys=True).encode()).hexdigest()[:16]
    return {"lines": lines, "features": feats, "nontrivial": nontrivial}


def shrink(case):
    ops = case["ops"]
    for i in range(len(ops)):
        yield dict(case, ops=ops[:i] + ops[i + 1:])
    ctxs = case["ctxs"]
    used = sorted(set(o[1] for o in ops if o[0] in ("enter", "exit")))
    if len(used) < len(ctxs) and used:
        ren = {c: i for i, c in enumerate(used)}
        yield dict(case, ctxs=[ctxs[c] for c in used], ops=[[o[0], ren[o[1]]] if o[0] in ("enter", "exit") else o for o in ops])
    for i, c in enumerate(ctxs):
        if c[0] == "plain" and (c[1] or c[2]):
            yield dict(case, ctxs=ctxs[:i] + [["plain", [], []]] + ctxs[i + 1:])
    if case.get("gx"):
        yield dict(case, gx=0)


def neighbours(case, rng):
    ctxs = case["ctxs"]
    al = alphabet(len(ctxs))
    ops = case["ops"]
    for _ in range(24):
        o2 = [list(o) for o in ops]
        r = rng.random()
        if r < 0.35 and o2:
            o2[rng.randrange(len(o2))] = list(rng.choice(al))
        elif r < 0.7:
            o2.insert(rng.randint(0, len(o2)), list(rng.choice(al)))
        elif o2:
            del o2[rng.randrange(len(o2))]
        yield mk(ctxs, o2, "neighbour", case.get("gx", 0))
    for _ in range(8):
        yield mk(ctxs, random_history(rng, ctxs, rng.randint(3, 12), 0.9), "neighbour", rng.randint(0, 1))
