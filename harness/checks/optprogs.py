"""C20, family `optprog`: hand-written PROGRAMS over rarely used public API, each run without options and under a set of
debug / profiling options (scripted clock), in both builds; the two observation lists must be identical (driver mode
`optprog`).  The grammar-generated programs of the core language only use @asynq functions, harness batches and contexts;
the option-guarded branches of the library (string conversion of live objects for DUMP_*, collect_perf_stats over the
dependencies, dump_perf_stats of batches, KEEP_DEPENDENCIES) also see whatever else a program may await or call:
a BATCH object, DebugBatchItems, futures of every class, tasks of helper decorators, mocks, asyncio mode ...

Every program is a function prog_<name>(E) that drives the REAL library through public API and records observations
with E.log / E.outcome: values, exception classes, flush contents, context events - never reprs, addresses or times."""
import json

# ---------------------------------------------------------------------------------------------------------------------
# environment: recording, harness batches / contexts, canonical values
# ---------------------------------------------------------------------------------------------------------------------



def _let_timeouts_through(e):
    """`except BaseException` around code of the implementation must not swallow the worker's per-case watchdog
    (worker.CaseTimeout): a hang is reported as a hang (and the worker restarted), not as an outcome `raised-CaseTimeout`"""
    if type(e).__name__ == "CaseTimeout":
        raise e


def _atom(x):
    s = str(x)
    out = "".join(ch if (ch.isalnum() or ch in "-_.:+") else "_" for ch in s)
    return out[:60] or "_"


class Env(object):
    def __init__(self):
        import asynq
        from asynq import batching, contexts
        self.asynq = asynq
        self.events = []
        self.cur = {}
        E = self

        class HB(batching.BatchBase):
            def __init__(self, kind, seq):
                batching.BatchBase.__init__(self)
                self.kind = kind
                self.seq = seq
                self.raises = None

            # ties between batches of equal priority are broken by set iteration order: make it the same in both runs
            def __hash__(self):
                return (sum((i + 1) * ord(ch) for i, ch in enumerate(self.kind)) * 7919 + self.seq * 104729) % 1000003

            def __eq__(self, other):
                return self is other

            def _try_switch_active_batch(self):
                if E.cur.get(self.kind) is self:
                    E.cur[self.kind] = HB(self.kind, self.seq + 1)

            def _flush(self):
                E.log("flush", self.kind, self.seq, [it.payload for it in self.items])
                for it in self.items:
                    if it.mode == "ok":
                        it.set_value(it.payload * 10 if isinstance(it.payload, int) else it.payload)
                    elif it.mode == "err":
                        it.set_error(KeyError("item %s" % (it.payload,)))
                if self.raises is not None:
                    raise self.raises

            def _cancel(self):
                E.log("cancelled", self.kind, self.seq)

        class HI(batching.BatchItemBase):
            def __init__(self, kind, payload, mode="ok"):
                b = E.cur.get(kind)
                if b is None:
                    b = E.cur[kind] = HB(kind, 0)
                batching.BatchItemBase.__init__(self, b)
                self.payload = payload
                self.mode = mode

        class Ctx(contexts.AsyncContext):
            def __init__(self, name):
                self.name = name

            def resume(self):
                E.log("ctx", self.name, "R")

            def pause(self):
                E.log("ctx", self.name, "P")

        self.HB, self.HI, self.Ctx = HB, HI, Ctx

    def item(self, kind, payload, mode="ok"):
        return self.HI(kind, payload, mode)

    def batch(self, kind):
        b = self.cur.get(kind)
        if b is None:
            b = self.cur[kind] = self.HB(kind, 0)
        return b

    def canon(self, v, depth=0):
        if depth > 20:
            return "deep"
        if v is None:
            return "none"
        if isinstance(v, bool):
            return "true" if v else "false"
        if isinstance(v, (int, str)):
            return _atom(v)
        if isinstance(v, float):
            return _atom(round(v, 3))
        if isinstance(v, tuple):
            return ["tup"] + [self.canon(x, depth + 1) for x in v]
        if isinstance(v, list):
            return ["lst"] + [self.canon(x, depth + 1) for x in v]
        if isinstance(v, dict):
            return ["dict"] + [[self.canon(k, depth + 1), self.canon(x, depth + 1)] for k, x in v.items()]
        if isinstance(v, BaseException):
            return ["exc", type(v).__name__]
        return ["obj", type(v).__name__]

    def log(self, *ev):
        if len(self.events) > 20000:
            raise RuntimeError("too many observations")
        self.events.append([self.canon(x) if not isinstance(x, str) else _atom(x) for x in ev])

    def outcome(self, label, thunk):
        try:
            v = thunk()
        except BaseException as e:
            if type(e).__name__ == "CaseTimeout":
                raise
            self.log("out", label, "err", type(e).__name__)
            return None
        self.log("out", label, "ok", v)
        return v

    def install_hooks(self):
        sched = self.asynq.scheduler.get_scheduler()
        # (asynq's own DebugBatch numbers its batches per thread for the life of the process: only harness batches have a seq)
        sched.on_before_batch_flush.subscribe(
            lambda b: self.log("before", getattr(b, "kind", getattr(b, "name", type(b).__name__)), getattr(b, "seq", "-"), len(b.items)))
        sched.on_after_batch_flush.subscribe(
            lambda b: self.log("after", getattr(b, "kind", getattr(b, "name", type(b).__name__)), getattr(b, "seq", "-")))


class Boom(Exception):
    pass


# ---------------------------------------------------------------------------------------------------------------------
# the programs
# ---------------------------------------------------------------------------------------------------------------------

def prog_yield_batch(E):
    """a task awaits the BATCH object itself (`yield item.batch`), beside tasks awaiting items of the same batch"""
    a = E.asynq

    @a.asynq()
    def write_through(key):
        it = E.item("store", key)
        yield it.batch
        return it.value()

    @a.asynq()
    def reader(key):
        return (yield E.item("store", key))

    @a.asynq()
    def both(key):
        it = E.item("store", key)
        got = yield (it.batch, it, [reader.asynq(key + 1)])
        return got[1:]

    @a.asynq()
    def root():
        x = yield reader.asynq(1), write_through.asynq(2), reader.asynq(3)
        y = yield [write_through.asynq(4), both.asynq(5)]
        z = yield {"w": write_through.asynq(7), "r": reader.asynq(8)}
        return x, y, z

    E.outcome("root", root)
    E.outcome("again", lambda: write_through(9))


def prog_flush_in_task(E):
    """batch.flush() / item.value() / batch.value() called by a task's own code while siblings wait on that batch"""
    a = E.asynq

    @a.asynq()
    def waiter(k):
        return (yield E.item("k", k))

    @a.asynq()
    def forcer(k, how):
        it = E.item("k", k)
        if how == "flush":
            it.batch.flush()
        elif how == "value":
            return ("value", it.value())
        elif how == "batch-value":
            it.batch.value()
        elif how == "error":
            E.log("batch-error", it.batch.error())
        v = yield it
        return (how, v)

    @a.asynq()
    def root(how):
        return (yield [waiter.asynq(1), forcer.asynq(2, how), waiter.asynq(3)])

    for how in ("flush", "value", "batch-value", "error"):
        E.outcome(how, lambda: root(how))

    @a.asynq()
    def twice():
        it = E.item("k", 5)
        it.batch.flush()
        try:
            it.batch.flush()
        except a.BatchingError as e:
            return ("second-flush", type(e).__name__, it.value())
        return "no-error"

    E.outcome("twice", twice)


def prog_items_fail(E):
    """items set to an error, left unset, and a flush body that raises (BaseException too), caught at different levels"""
    a = E.asynq

    class Abort(BaseException):
        pass

    @a.asynq()
    def leaf(k, mode):
        try:
            return ("ok", (yield E.item("f", k, mode)))
        except KeyError:
            return ("keyerror", k)

    @a.asynq()
    def root(modes, raises=None):
        if raises is not None:
            E.batch("f").raises = raises
        try:
            return (yield [leaf.asynq(i, m) for i, m in enumerate(modes)])
        except AssertionError:
            return "unset-item"

    E.outcome("mixed", lambda: root(["ok", "err", "ok"]))
    E.outcome("unset", lambda: root(["ok", "unset"]))
    E.outcome("flush-raises", lambda: root(["ok", "ok"], Boom("flush")))
    E.outcome("flush-raises-unset", lambda: root(["unset", "ok"], Boom("flush")))
    E.outcome("flush-aborts", lambda: root(["unset", "unset"], Abort("flush")))


def prog_eventhook(E):
    """asynq.tools.AsyncEventHook: trigger / safe_trigger with async and plain handlers, a failing one, next to siblings"""
    a = E.asynq
    from asynq.tools import AsyncEventHook

    def mk(name, chain, fail=False, plain=False):
        if plain:
            def h(tag):
                E.log("handler", name, tag)
                if fail:
                    raise Boom(name)
            return h

        @a.asynq()
        def h(tag):
            E.log("handler", name, tag)
            for lvl in range(chain):
                yield E.item("ev", "%s%d" % (name, lvl))
            if fail:
                raise Boom(name)
        return h

    hook = AsyncEventHook([mk("a", 1), mk("p", 0, plain=True), mk("b", 2), mk("c", 1, fail=True)])
    hook.subscribe(mk("d", 1))

    @a.asynq()
    def sib(n):
        for lvl in range(n):
            yield E.item("ev", "s%d" % lvl)
        return n

    @a.asynq()
    def root(safe):
        fn = hook.safe_trigger if safe else hook.trigger
        try:
            yield fn.asynq("t"), sib.asynq(2)
        except Boom as e:
            return "boom"
        return "fine"

    E.outcome("safe", lambda: root(True))
    E.outcome("plain", lambda: root(False))
    E.outcome("sync", lambda: hook.safe_trigger("s"))


def prog_call_with_context(E):
    """asynq.tools.call_with_context with scoped-value overrides and a logging context, proxies, nested"""
    a = E.asynq
    from asynq.tools import call_with_context
    sv = a.AsyncScopedValue("dflt")

    @a.asynq()
    def fetch(key):
        before = sv.get()
        v = yield E.item("c", key)
        return (key, before, sv.get(), v)

    @a.async_proxy()
    def proxy(key):
        return fetch.asynq((key, sv.get()))

    @a.asynq()
    def root():
        return (yield [fetch.asynq("a"), call_with_context.asynq(sv.override("x"), fetch, "b"),
                       call_with_context.asynq(E.Ctx("L"), call_with_context, sv.override("y"), proxy, "c"),
                       call_with_context.asynq(sv.override("z"), a.async_call, lambda k: (k, sv.get()), "d")])

    E.outcome("root", root)
    E.outcome("sync", lambda: call_with_context(sv.override("q"), proxy, "e"))
    E.log("after", sv.get())


def prog_debug_sync(E):
    """asynq's own DebugBatchItem / debug.sync() under several names; DUMP_SYNC has code in their flush.  (asynq's debug
    batches hash by address, so the program keeps the pending batches at DIFFERENT sizes: no priority ties)"""
    a = E.asynq
    from asynq.batching import DebugBatchItem

    @a.asynq()
    def step(name, n, sync):
        got = []
        for i in range(n):
            got.append((yield DebugBatchItem(name, (name, i))))
            if sync:
                yield a.debug.sync()
        return got

    @a.asynq()
    def root():
        return (yield [step.asynq("optprog-a", 2, True) for _ in range(3)], [step.asynq("optprog-b", 1, False) for _ in range(2)], a.debug.sync("t"))

    E.outcome("root", root)
    E.outcome("item-value", lambda: DebugBatchItem("optprog-c", 5).value())


def prog_generators(E):
    """asynq.generator: async_generator, Value, list_of_generator, take_first, manual iteration, END_OF_GENERATOR"""
    a = E.asynq

    @a.asynq()
    def load(k):
        return (yield E.item("g", k))

    @a.async_generator()
    def gen(n, tail):
        for i in range(n):
            v = yield load.asynq(i)
            yield a.Value(v + 1)
        if tail:
            yield load.asynq(99)

    @a.asynq()
    def manual():
        got = []
        for task in gen(2, True):
            v = yield task
            got.append("END" if v is a.END_OF_GENERATOR else v)
        return got

    @a.asynq()
    def root():
        return (yield a.list_of_generator.asynq(gen(3, False)), a.take_first.asynq(gen(5, True), 2), manual.asynq(),
                a.list_of_generator.asynq(gen(0, True)))

    E.outcome("root", root)
    E.outcome("sync", lambda: a.take_first(gen(2, False), 5))


def prog_deduplicate(E):
    """asynq.tools.deduplicate: several siblings share one in-flight task; dirty(); a recursive duplicate"""
    a = E.asynq
    from asynq.tools import deduplicate

    @deduplicate()
    @a.asynq()
    def get(key, depth=0):
        E.log("body", key, depth)
        v = yield E.item("d", key)
        if depth:
            w = yield get.asynq(key, depth - 1)
            return (v, w)
        return v

    @a.asynq()
    def user(key):
        return (yield get.asynq(key))

    @a.asynq()
    def root():
        x = yield [user.asynq(1), user.asynq(1), get.asynq(2), user.asynq(2), get.asynq(1, depth=1)]
        get.dirty(1)
        y = yield get.asynq(1), get.asynq(1)
        return x, y

    E.outcome("root", root)
    E.outcome("sync", lambda: get(3))


def prog_caches(E):
    """alru_cache, acached_per_instance, alazy_constant: hits, misses, evictions, dirty"""
    a = E.asynq
    from asynq.tools import alru_cache, acached_per_instance, alazy_constant

    @alru_cache(maxsize=2)
    @a.asynq()
    def sq(x):
        E.log("miss", x)
        v = yield E.item("c", x)
        return v + x

    class Obj(object):
        def __init__(self, n):
            self.n = n

        @acached_per_instance()
        @a.asynq()
        def get(self, k):
            E.log("obj-miss", self.n, k)
            return (yield E.item("o", self.n * 100 + k))

    @alazy_constant()
    @a.asynq()
    def const():
        E.log("const-body")
        return (yield E.item("c", 77))

    o1, o2 = Obj(1), Obj(2)

    @a.asynq()
    def root():
        r1 = yield [sq.asynq(1), sq.asynq(2), sq.asynq(1)]
        r2 = yield [sq.asynq(3), sq.asynq(1), o1.get.asynq(5), o2.get.asynq(5), const.asynq()]
        r3 = yield [o1.get.asynq(5), const.asynq(), sq.asynq(2)]
        const.dirty()
        r4 = yield const.asynq()
        return r1, r2, r3, r4

    E.outcome("root", root)
    E.outcome("sync", lambda: (sq(3), o2.get(5), const()))


def prog_proxies(E):
    """async_proxy (plain and pure), async_call on every kind of function, make_async_decorator, sync_fn pairs"""
    a = E.asynq

    @a.asynq()
    def base(k):
        return (yield E.item("p", k))

    @a.async_proxy()
    def prox(k):
        E.log("proxy-call", k)
        return base.asynq(k + 1)

    @a.async_proxy()
    def prox_const(k):
        return a.ConstFuture(k)

    @a.async_proxy(pure=True)
    def prox_pure(k):
        return base.asynq(k + 2)

    @a.asynq(pure=True)
    def pure(k):
        return (yield base.asynq(k + 3))

    def plain(k):
        return k + 4

    def wrapper(k):
        return base.asynq(k * 2)

    wrapped = a.make_async_decorator(base, wrapper, "double")

    @a.asynq(sync_fn=lambda k: ("sync", k))
    def pair(k):
        return ("async", (yield base.asynq(k)))

    @a.asynq()
    def root():
        x = yield [prox.asynq(1), prox_const.asynq(2), prox_pure(3), pure(4), wrapped.asynq(5), pair.asynq(6)]
        y = yield [a.async_call.asynq(f, 10) for f in (base, prox, prox_pure, pure, plain, wrapped, pair)]
        return x, y

    E.outcome("root", root)
    E.outcome("sync", lambda: [prox(1), wrapped(2), pair(3), a.async_call(plain, 4), a.async_call(base, 5)])
    E.log("introspection", [a.is_async_fn(f) for f in (base, prox, prox_pure, pure, plain, wrapped, pair)],
          [a.is_pure_async_fn(f) for f in (base, prox_pure, pure, plain)], [a.has_async_fn(f) for f in (base, plain, wrapped)])


def prog_scoped_values(E):
    """AsyncScopedValue.override / async_override nested in concurrent tasks, reads before and after flushes, set()"""
    a = E.asynq
    sv = a.AsyncScopedValue(0)

    class Cfg(object):
        mode = "m0"

    cfg = Cfg()

    @a.asynq()
    def reader(tag, depth):
        r0 = (sv.get(), cfg.mode)
        yield E.item("s", tag)
        if depth:
            with sv.override(sv.get() + 10):
                r1 = yield reader.asynq(tag + "'", depth - 1)
            return (r0, r1, (sv(), cfg.mode))
        return (r0, (sv.get(), cfg.mode))

    @a.asynq()
    def root():
        with sv.override(1):
            with a.async_override(cfg, "mode", "m1"):
                x = yield [reader.asynq("a", 1), reader.asynq("b", 0)]
            with sv.override(2), E.Ctx("c"):
                y = yield reader.asynq("c", 2), reader.asynq("d", 0)
        return x, y, sv.get(), cfg.mode

    E.outcome("root", root)
    sv.set(5)
    E.outcome("after-set", lambda: reader("e", 1))
    E.log("final", sv.get(), cfg.mode)


def prog_mock_patch(E):
    """asynq.mock.patch / patch.object entered inside a computation, replacing async functions for part of it"""
    a = E.asynq

    class Service(object):
        @a.asynq()
        def fetch(self, k):
            return ("real", (yield E.item("m", k)))

        @a.asynq()
        def twice(self, k):
            x = yield self.fetch.asynq(k)
            y = yield self.fetch.asynq(k + 1)
            return x, y

    svc = Service()

    @a.asynq()
    def fake(self_or_k, k=None):
        return ("fake", (yield E.item("m", -1)))

    @a.asynq()
    def root():
        x = yield svc.twice.asynq(1)
        with a.mock.patch.object(Service, "fetch", fake):
            y = yield svc.twice.asynq(3), svc.fetch.asynq(9)
            z = svc.fetch(5)
        w = yield svc.fetch.asynq(7)
        return x, y, z, w

    E.outcome("root", root)
    with a.mock.patch.object(svc, "fetch") as m:
        m.return_value = 42
        E.outcome("mocked-sync", lambda: (svc.fetch(1), svc.fetch.asynq(2).value(), svc.twice(3)))
    E.outcome("restored", lambda: svc.fetch(2))


def prog_result(E):
    """asynq.result() (the legacy spelling of return) at every kind of place: nested, inside with / try-finally"""
    a = E.asynq

    @a.asynq()
    def inner(k):
        v = yield E.item("r", k)
        a.result((k, v))
        E.log("not-reached")

    @a.asynq()
    def in_ctx(k):
        with E.Ctx("r%d" % k):
            try:
                v = yield inner.asynq(k)
                a.result(v)
            finally:
                E.log("finally", k)

    @a.asynq()
    def no_yield():
        a.result("early")
        yield

    @a.asynq()
    def root():
        x = yield [inner.asynq(1), in_ctx.asynq(2), no_yield.asynq()]
        a.result(x)

    E.outcome("root", root)
    E.outcome("bad", lambda: a.result(a.ConstFuture(1)))


def prog_asyncio(E):
    """fn.asyncio() under asyncio.run: gathered children, ConstFuture, errors caught, asyncio_fn=, contexts in asyncio mode"""
    a = E.asynq
    import asyncio

    async def native(k):
        await asyncio.sleep(0)
        return ("native", k)

    @a.asynq(asyncio_fn=native)
    def with_afn(k):
        return ("asynq", k)

    @a.asynq()
    def child(k, fail=False):
        v = yield a.ConstFuture(k)
        yield None
        if fail:
            raise Boom(k)
        return v + 1

    @a.asynq()
    def root():
        x = yield [child.asynq(1), child.asynq(2)], {"k": child.asynq(3)}
        try:
            yield child.asynq(4, fail=True), child.asynq(5)
        except Boom:
            y = "caught"
        with E.Ctx("aio"):
            z = yield with_afn.asynq(6)
        return x, y, z, a.is_asyncio_mode()

    E.outcome("asyncio", lambda: asyncio.run(root.asyncio()))
    E.outcome("asynq", root)
    E.outcome("mode-after", a.is_asyncio_mode)


def prog_errors(E):
    """failures of every origin reaching the root uncaught (DUMP_EXCEPTIONS / DUMP_PRE_ERROR_STATE have code there):
    AsyncTaskCancelledError, KeyboardInterrupt, ErrorFuture and a failing lazy Future inside structures"""
    a = E.asynq

    @a.asynq()
    def raiser(cls):
        yield E.item("e", cls.__name__)
        raise cls("x")

    def bad_provider():
        raise Boom("lazy")

    @a.asynq()
    def middle(what):
        if what == "lazy":
            return (yield [a.ConstFuture(1), a.Future(bad_provider)])
        if what == "errfut":
            return (yield {"k": a.ErrorFuture(Boom("ef")), "j": E.item("e", "j")})
        if what == "junk":
            return (yield [E.item("e", "q"), 17])
        return (yield raiser.asynq(what))

    @a.asynq()
    def catching(what):
        try:
            yield middle.asynq(what), E.item("e", "sibling")
        except BaseException as e:
            _let_timeouts_through(e)
            return ("caught", type(e).__name__)

    for what in (Boom, a.AsyncTaskCancelledError, KeyboardInterrupt, "lazy", "errfut", "junk"):
        name = what if isinstance(what, str) else what.__name__
        E.outcome("uncaught-" + name, lambda: middle(what))
        E.outcome("caught-" + name, lambda: catching(what))


def prog_nonasync_context(E):
    """NonAsyncContext: a task suspended inside one fails with AssertionError; one that is not suspended does not"""
    a = E.asynq

    class NA(a.NonAsyncContext):
        pass

    @a.asynq()
    def inside(suspend):
        with NA():
            if suspend:
                yield E.item("n", 1)
            else:
                yield a.ConstFuture(1)
        return "left"

    @a.asynq()
    def root(suspend):
        try:
            return (yield inside.asynq(suspend), E.item("n", 2))
        except AssertionError:
            return "assertion"

    E.outcome("no-suspension", lambda: root(False))
    E.outcome("suspension", lambda: root(True))
    E.outcome("sync", lambda: inside(True))


def prog_cancel(E):
    """a batch cancelled (with and without an error) by a sibling while tasks wait on its items"""
    a = E.asynq

    @a.asynq()
    def waiter(k):
        try:
            return (yield E.item("x", k))
        except a.BatchCancelledError:
            return "cancelled"

    @a.asynq()
    def canceller(err):
        b = E.batch("x")
        b.cancel(err)
        b.cancel()
        return (b.is_cancelled(), b.is_flushed(), (yield E.item("y", 1)))

    @a.asynq()
    def root(err):
        try:
            return (yield [waiter.asynq(1), canceller.asynq(err), waiter.asynq(2)])
        except Boom:
            return "boom"

    E.outcome("plain", lambda: root(None))
    E.outcome("with-error", lambda: root(Boom("c")))


def prog_sync_reentry(E):
    """tasks calling asynq code synchronously (fn(), .value()) inside contexts, nested two levels, with failures"""
    a = E.asynq

    @a.asynq()
    def leaf(k, fail=False):
        v = yield E.item("s", k)
        if fail:
            raise Boom(k)
        return v

    @a.asynq()
    def mid(k):
        with E.Ctx("m%d" % k):
            x = leaf(k)
            t = leaf.asynq(k + 1)
            y = t.value()
            try:
                leaf(k + 2, fail=True)
            except Boom:
                z = "boom"
            w = yield leaf.asynq(k + 3)
        return x, y, z, w, a.get_active_task() is not None

    @a.asynq()
    def root():
        with E.Ctx("root"):
            return (yield mid.asynq(10), leaf.asynq(1)), mid(20)

    E.outcome("root", root)


def prog_aretry(E):
    """asynq.tools.aretry around a function failing a few times"""
    a = E.asynq
    from asynq.tools import aretry
    tries = {}

    @aretry(Boom, max_tries=3, sleep=0)
    @a.asynq()
    def flaky(k, fails):
        tries[k] = tries.get(k, 0) + 1
        v = yield E.item("t", (k, tries[k]))
        if tries[k] <= fails:
            raise Boom(k)
        return v

    @a.asynq()
    def root():
        try:
            return (yield [flaky.asynq("a", 0), flaky.asynq("b", 2)], flaky.asynq("c", 1))
        except Boom:
            return "gave-up"

    E.outcome("root", root)
    E.outcome("exhausted", lambda: flaky("d", 5))


def prog_collections(E):
    """asynq.tools collection helpers (amap, afilter, afilterfalse, asorted, amax, amin, asift) over batched functions"""
    a = E.asynq
    from asynq import tools

    @a.asynq()
    def val(x):
        return (yield E.item("v", x)) % 7

    @a.asynq()
    def odd(x):
        return bool((yield E.item("v", x)) // 10 % 2)

    @a.asynq()
    def root():
        xs = [5, 3, 8, 1]
        return (yield tools.amap.asynq(val, xs), tools.afilter.asynq(odd, xs), tools.afilterfalse.asynq(odd, xs),
                tools.asorted.asynq(xs, key=val), tools.amax.asynq(xs, key=val), tools.amin.asynq(*xs, key=val), tools.asift.asynq(odd, xs))

    E.outcome("root", root)
    E.outcome("sync", lambda: tools.asorted([2, 9, 4], key=val, reverse=True))


def prog_timer(E):
    """asynq.tools.AsyncTimer around suspensions (its readings are times: only their type is observed)"""
    a = E.asynq
    from asynq.tools import AsyncTimer

    @a.asynq()
    def timed(k):
        with AsyncTimer() as t:
            v = yield E.item("t", k)
            w = yield E.item("t", k + 1)
        return v, w, isinstance(t.total_time, int), t.total_time >= 0

    @a.asynq()
    def root():
        return (yield [timed.asynq(1), timed.asynq(5)])

    E.outcome("root", root)


def prog_methods(E):
    """asynq functions as instance / class / static methods, bound and through the class, with keyword arguments"""
    a = E.asynq

    class K(object):
        base = 100

        def __init__(self, n):
            self.n = n

        @a.asynq()
        def inst(self, k, scale=1):
            return (yield E.item("k", k)) * scale + self.n

        @classmethod
        @a.asynq()
        def cls_m(cls, k):
            return (yield E.item("k", k)) + cls.base

        @staticmethod
        @a.asynq()
        def stat(k):
            return (yield E.item("k", k))

    o = K(7)

    @a.asynq()
    def root():
        return (yield [o.inst.asynq(1), o.inst.asynq(2, scale=3), K.inst.asynq(o, 3), K.cls_m.asynq(4), o.cls_m.asynq(5), K.stat.asynq(6), o.stat.asynq(7)])

    E.outcome("root", root)
    E.outcome("sync", lambda: (o.inst(1, scale=2), K.cls_m(2), K.stat(3)))


def prog_unprintable_values(E):
    """values whose repr() raises (ValueError, not only RecursionError) as task arguments, as task RESULTS and as the values of
    DebugBatchItems that other tasks depend on: the profiling / dump code describes tasks AND their dependencies"""
    a = E.asynq
    from asynq.batching import DebugBatchItem

    class Bad(object):
        def __repr__(self):
            raise ValueError("no repr")

        __str__ = __repr__

    @a.asynq()
    def giver():
        return Bad()

    @a.asynq()
    def taker(x):
        # (one batch name: two debug batches of equal priority would be flushed in set order, which differs between runs)
        got = yield [DebugBatchItem("unprintable", result=Bad()), DebugBatchItem("unprintable", result=2), giver.asynq()]
        return type(got[0]).__name__, got[1], type(got[2]).__name__, type(x).__name__

    @a.asynq()
    def root():
        return (yield [taker.asynq(Bad()), taker.asynq(1)])

    E.outcome("root", root)

    # a user batch whose own __str__ raises (the profiling code names the batch it has flushed)
    from asynq import batching
    cur = [None]

    class SilentBatch(batching.BatchBase):
        def _try_switch_active_batch(self):
            if cur[0] is self:
                cur[0] = SilentBatch()

        def _flush(self):
            for it in self.items:
                it.set_value(len(self.items))

        def __str__(self):
            raise ValueError("no str")

        __repr__ = __str__

    class SilentItem(batching.BatchItemBase):
        def __init__(self):
            batching.BatchItemBase.__init__(self, cur[0])

    cur[0] = SilentBatch()

    @a.asynq()
    def uses_silent():
        return (yield [SilentItem(), SilentItem()])

    E.outcome("silent-batch", uses_silent)


def prog_awkward_arguments(E):
    """task arguments and batch objects whose str()/repr() is long, raises, or recurses (DUMP_* flags convert live objects)"""
    a = E.asynq

    class BadRepr(object):
        def __init__(self, how):
            self.how = how

        def __repr__(self):
            if self.how == "recursion":
                raise RecursionError("repr")
            if self.how == "long":
                return "x" * 100000
            return "<ok>"

        __str__ = __repr__

    cyc = []
    cyc.append(cyc)

    @a.asynq()
    def f(x, y=None):
        v = yield E.item("w", 1)
        return v, type(x).__name__

    @a.asynq()
    def root():
        return (yield [f.asynq(BadRepr("recursion")), f.asynq(BadRepr("long"), y=BadRepr("ok")), f.asynq(cyc), f.asynq("s" * 5000), f.asynq({"k": (1, [2])})])

    E.outcome("root", root)


def prog_futures(E):
    """every class of future in nested structures: Future(provider), ConstFuture, none_future, ErrorFuture caught,
    on_computed subscriptions, the same future yielded twice and by two tasks"""
    a = E.asynq
    calls = []

    def provider():
        calls.append(1)
        return len(calls)

    lazy = a.Future(provider)
    lazy.on_computed.subscribe(lambda f: E.log("computed", "lazy", f.value()))

    @a.asynq()
    def user(k):
        x = yield lazy, a.none_future, [a.ConstFuture(k), None], {"a": E.item("f", k)}
        y = yield lazy
        return x, y

    @a.asynq()
    def root():
        t = user.asynq(1)
        t.on_computed.subscribe(lambda f: E.log("computed", "task", f.error() is None))
        r = yield t, user.asynq(2), t
        try:
            yield [a.ErrorFuture(Boom("e")), E.item("f", 9)]
        except Boom:
            return r, "caught", len(calls)

    E.outcome("root", root)


def prog_hook_calls_asynq(E):
    """a public on_before_batch_flush handler that itself runs a synchronous asynq computation of another batch kind"""
    a = E.asynq
    depth = [0]

    @a.asynq()
    def aux(k):
        return (yield E.item("aux", k))

    def handler(batch):
        if getattr(batch, "kind", None) == "main" and depth[0] < 2:
            depth[0] += 1
            E.log("hook-result", aux(depth[0]))

    a.scheduler.get_scheduler().on_before_batch_flush.subscribe(handler)

    @a.asynq()
    def leaf(k):
        x = yield E.item("main", k)
        y = yield E.item("main", k + 10)
        return x, y

    @a.asynq()
    def root():
        return (yield [leaf.asynq(1), leaf.asynq(2)])

    E.outcome("root", root)


def prog_threads(E):
    """a computation on a second thread while the first one is suspended in plain code of a task (options are global)"""
    a = E.asynq
    import threading
    res = {}

    @a.asynq()
    def work(tag, n):
        got = []
        for i in range(n):
            got.append((yield E.item(tag, i)))
        return got

    def other():
        try:
            res["other"] = work("th2", 2)
        except BaseException as e:
            _let_timeouts_through(e)
            res["other"] = "raised-" + type(e).__name__

    @a.asynq()
    def pausing():
        x = yield E.item("th1", 100)
        t = threading.Thread(target=other)
        t.start()
        t.join(10)
        y = yield E.item("th1", 101)
        return x, y

    @a.asynq()
    def root():
        return (yield pausing.asynq(), work.asynq("th1", 3))

    # (the other thread's flushes are logged by its batches; they happen while this thread stands still)
    E.outcome("root", root)
    E.log("other", res.get("other"))


def prog_big(E):
    """a chain of 60 tasks and a fan-out of 120 (the profiling accumulators and task counters grow; kept moderate because
    DUMP_SCHEDULER_STATE with a dump interval of 0 prints the whole task stack at every scheduler step)"""
    a = E.asynq

    @a.asynq()
    def chain(n):
        if n == 0:
            return (yield E.item("b", 0))
        return 1 + (yield chain.asynq(n - 1))

    @a.asynq()
    def leaf(i):
        return (yield E.item("b", i % 5))

    @a.asynq()
    def root():
        x, ys = yield chain.asynq(60), [leaf.asynq(i) for i in range(120)]
        return x, sum(ys)

    E.outcome("root", root)


def prog_diagnostics_api(E):
    """the public diagnostic calls used INSIDE a computation: format_asynq_stack, debug.dump(task / scheduler),
    task.traceback(), str() of tasks / batches / items, profiler.flush() - their text is diagnostic output, their being
    callable without raising is behaviour"""
    a = E.asynq

    @a.asynq()
    def inner(k):
        it = E.item("z", k)
        t = a.get_active_task()
        E.log("stack-depth", len(a.debug.format_asynq_stack()))
        E.log("strs", isinstance(str(t), str), isinstance(str(it), str), isinstance(str(it.batch), str), isinstance(repr(t), str))
        a.debug.dump(a.scheduler.get_scheduler())
        t.dump()
        E.log("traceback-lines", len(t.traceback()))
        v = yield it
        E.log("stack-depth-after", len(a.debug.format_asynq_stack()))
        return v

    @a.asynq()
    def root():
        r = yield [inner.asynq(1), inner.asynq(2)]
        a.profiler.flush()
        return r

    E.outcome("root", root)
    E.log("outside", a.debug.format_asynq_stack())


PROGRAMS = {n[len("prog_"):]: f for n, f in sorted(globals().items()) if n.startswith("prog_") and callable(f)}
from checks import optprogs6; PROGRAMS.update(optprogs6.PROGRAMS)   # round 5: values that are futures / generators (own option sets: c20.optprog6_cases)


# ---------------------------------------------------------------------------------------------------------------------
# running a program under options
# ---------------------------------------------------------------------------------------------------------------------

def run_once(name, opts):
    """observations of one program under the given options (dict as produced by c20.gen_opts; {} = defaults)"""
    import asynq
    import asynq.scheduler
    opts = dict(opts)
    clock = opts.pop("_clock", None)
    dbg = asynq.debug.options
    saved = {}
    real_utime = getattr(asynq.scheduler, "utime", None)
    asynq.scheduler.reset()
    asynq.profiler.reset()
    E = Env()
    try:
        if clock is not None:
            state = {"now": 1000000, "i": 0}

            def fake_utime():
                state["now"] += clock[state["i"] % len(clock)]
                state["i"] += 1
                return state["now"]
            asynq.scheduler.utime = fake_utime
        for k, v in opts.items():
            saved[k] = getattr(dbg, k)
            setattr(dbg, k, v)
        E.install_hooks()
        try:
            PROGRAMS[name](E)
        except BaseException as e:
            if type(e).__name__ == "CaseTimeout":
                raise
            E.log("program-raised", type(e).__name__)
        sched = asynq.scheduler.get_scheduler()
        E.log("sched", len(sched._tasks), "none" if sched.active_task is None else "task", len(sched._batches),
              sum(1 for b in sched._batches if b.items and not b.is_flushed()))
    finally:
        for k, v in saved.items():
            setattr(dbg, k, v)
        if real_utime is not None:
            asynq.scheduler.utime = real_utime
        try:
            asynq.profiler.reset()
        except Exception:
            pass
        asynq.scheduler.reset()
    return E.events


def run_optprog(case):
    from corerun import sx
    name = case["prog"]
    ev0 = run_once(name, {})
    ev1 = run_once(name, case["opts"])
    lines = ["(case optprog %d %s)" % (case["id"], name)] + [sx(e) for e in ev0] + ["(sep)"] + [sx(e) for e in ev1] + ["(end)"]
    feats = ["family=optprog", "optprog=" + name] + sorted("opt=" + k for k in case["opts"] if not k.startswith("_"))
    return {"lines": lines, "features": feats,
            "nontrivial": "optprog-" + name + "-" + json.dumps(sorted((k, v) for k, v in case["opts"].items() if not k.startswith("_")))}
