"""C20  Debug, dump and profiling options never change behaviour.

Every program is run twice on the real library - with the default options and with a random subset of the boolean debug
options (every DUMP_* flag, COLLECT_PERF_STATS, KEEP_DEPENDENCIES, ENABLE_COMPLEX_ASSERTIONS off) under a scripted
clock that reports microseconds to hours per step - in the pure-Python AND the Cython-compiled build (the .pxd C types
of the profiling accumulators only exist there).  SPEC: the two traces are identical.  CORR: the trace under options
equals the trace of the Lean machine run with the corresponding configuration (only KEEP_DEPENDENCIES and
MAX_TASK_STACK_SIZE exist in the machine; the DUMP_*/profiling options are no-ops there by construction)."""
import random

import coregen
from checks import corecommon as cc
from corerun import sx

PID = "C20"
LEVEL = cc.LEVEL
BUILDS = {"quick": ["py", "cy"], "thorough": ["py", "cy"]}
CASE_TIMEOUT = cc.CASE_TIMEOUT
LEAN_MODULES = ["AsynqModel.Theorems.C20"]
THEOREMS = ["AsynqModel.Core." + n for n in ['C20_keepdeps_inert', 'C20_keepdeps_inert_conv', 'C20_keepdeps_complete', 'C20_maxstack_inert', 'C20_maxstack_trace', 'C20_cfg_reads', 'C20_guard_counterexample']]
MIX = [("full", 4), ("sync", 2), ("yield_err", 2), ("yield_ctx", 1), ("nonasync", 1)]
RULE = ("family optprog: 28 hand-written programs over rarely used public API (checks/optprogs.py: awaiting a BATCH object, "
        "batch.flush() / item.value() inside tasks, AsyncEventHook, call_with_context, DebugBatchItem / debug.sync(), async "
        "generators, deduplicate, the caches, proxies and async_call, scoped values, asynq.mock.patch, result(), .asyncio() under "
        "asyncio.run, exotic failures, NonAsyncContext, batch.cancel(), synchronous re-entry, aretry, the collection helpers, "
        "AsyncTimer, method kinds, arguments with awkward repr(), every class of future, flush hooks calling asynq, a second "
        "thread, a 60-deep and 120-wide program, the diagnostic API) each under the profiling pair, everything flipped, all dumps, "
        "single options and random subsets; plus 5 programs whose VALUES are futures / generator objects / batch items "
        "(checks/optprogs6.py; returned, in containers, as arguments) with ENABLE_COMPLEX_ASSERTIONS off and on (c20.optprog6_cases); then "
        "grammar-generated task programs (profiles %s) each run under the default options and under a random subset of "
        "the boolean debug options with a scripted clock (1 us .. 2 h per reading), both builds; non-trivial = at least 2 "
        "tasks and 1 scheduler flush; distinct by hash of (configuration, programs, options)" % ", ".join(p for p, _ in MIX))
RULE += ("; plus family deepdump (checks/optprogs8.py: suspended chains of 30..3000 tasks under the default recursion limit, fans of "
         "chains, fans of 600..2000 leaves under DUMP_SCHEDULER_STATE alone / with KEEP_DEPENDENCIES / COLLECT_PERF_STATS / every "
         "per-step DUMP_* flag, the clock of the time-based state dump scripted and advanced by the program's slow steps "
         "(1 us .. 1 h), small shapes with a dump at every scheduler iteration under random subsets), judged by direct "
         "expectation (Drv/Families8.lean)")
TRUSTED = cc.TRUSTED_CORE + ["the scripted clock replaces asynq.scheduler.utime (module attribute)",
                             "family deepdump: the scripted clock replaces asynq.scheduler.time (module attribute read by try_time_based_dump)"]
ASSUMPTIONS = cc.ASSUMPTIONS_CORE + ["diagnostic output (stdout/stderr) is not part of behaviour"]

BOOL_OPTS = ["DUMP_PRE_ERROR_STATE", "DUMP_EXCEPTIONS", "DUMP_SCHEDULE_TASK", "DUMP_CONTINUE_TASK", "DUMP_SCHEDULE_BATCH",
             "DUMP_FLUSH_BATCH", "DUMP_DEPENDENCIES", "DUMP_COMPUTED", "DUMP_NEW_TASKS", "DUMP_YIELD_RESULTS",
             "DUMP_QUEUED_RESULTS", "DUMP_CONTEXTS", "DUMP_SYNC", "DUMP_STACK", "DUMP_SCHEDULER_STATE", "DUMP_SYNC_CALLS",
             "COLLECT_PERF_STATS", "KEEP_DEPENDENCIES", "ENABLE_COMPLEX_ASSERTIONS"]
STEPS = [1, 7, 1000, 250000, 10 ** 6, 6 * 10 ** 7, 36 * 10 ** 8, 2 ** 31 - 3, 2 ** 31 + 5, 72 * 10 ** 8]


def gen_opts(rng):
    opts = {}
    mode = rng.random()
    for o in BOOL_OPTS:
        default = o in ("DUMP_PRE_ERROR_STATE", "ENABLE_COMPLEX_ASSERTIONS")
        if mode < 0.15:
            v = not default          # everything flipped
        elif mode < 0.45:
            v = (not default) if rng.random() < 0.5 else default
        else:
            v = (not default) if rng.random() < 0.15 else default
        if v != default:
            opts[o] = v
    if mode >= 0.45 and rng.random() < 0.5:
        opts["COLLECT_PERF_STATS"] = True
    if not opts:
        opts[rng.choice(BOOL_OPTS[:-1])] = True
    if opts.get("DUMP_SCHEDULER_STATE") and rng.random() < 0.6:
        opts["SCHEDULER_STATE_DUMP_INTERVAL"] = 0     # the time-based state dump really happens (every iteration)
    big = rng.random() < 0.4
    opts["_clock"] = [rng.choice(STEPS if big else STEPS[:6]) for _ in range(rng.randint(1, 7))]
    return opts


def optprog_cases(tier, rng):
    """family `optprog` (checks/optprogs.py): every hand-written program over rarely used public API under: the profiling
    pair COLLECT_PERF_STATS + KEEP_DEPENDENCIES and each of the two alone, everything flipped, every DUMP_* flag at once,
    each boolean option alone (quick: a rotating third of them) and random subsets from gen_opts"""
    from checks import optprogs
    dumps = [o for o in BOOL_OPTS if o.startswith("DUMP_")]
    cases = []
    for name in sorted(n for n in optprogs.PROGRAMS if n not in optprogs.optprogs6.PROGRAMS):   # (those: optprog6_cases)
        def clock():
            return [rng.choice(STEPS[:6] if rng.random() < 0.7 else STEPS) for _ in range(rng.randint(1, 4))]
        sets = [{"COLLECT_PERF_STATS": True, "KEEP_DEPENDENCIES": True}, {"COLLECT_PERF_STATS": True}, {"KEEP_DEPENDENCIES": True},
                {o: (o not in ("DUMP_PRE_ERROR_STATE", "ENABLE_COMPLEX_ASSERTIONS")) for o in BOOL_OPTS},
                dict({o: True for o in dumps}, SCHEDULER_STATE_DUMP_INTERVAL=0),
                dict({o: True for o in dumps}, COLLECT_PERF_STATS=True, KEEP_DEPENDENCIES=True, SCHEDULER_STATE_DUMP_INTERVAL=0)]
        singles = [{o: (o not in ("DUMP_PRE_ERROR_STATE", "ENABLE_COMPLEX_ASSERTIONS"))} for o in BOOL_OPTS
                   if o not in ("COLLECT_PERF_STATS", "KEEP_DEPENDENCIES")]
        if tier == "quick":
            rng.shuffle(singles)
            singles = singles[:6]
        sets += singles
        for o in sets:
            o["_clock"] = clock()
        sets += [gen_opts(rng) for _ in range(4 if tier == "quick" else 40)]
        cases += [{"special": "optprog", "prog": name, "opts": o} for o in sets]
    return cases


def optprog6_cases(tier, rng):
    """round 5 (checks/optprogs6.py: futures / generator objects / batch items as VALUES of async functions): every program
    with ENABLE_COMPLEX_ASSERTIONS switched OFF alone (the library's default is ON, so the base run has it on), off together
    with the profiling pair / all dumps, ON (default) with the profiling pair, all dumps, everything else flipped, each other
    boolean option alone (quick: a rotating 5) and random subsets"""
    from checks import optprogs6
    dumps = [o for o in BOOL_OPTS if o.startswith("DUMP_")]
    cases = []
    for name in sorted(optprogs6.PROGRAMS):
        sets = [{"ENABLE_COMPLEX_ASSERTIONS": False},
                {"ENABLE_COMPLEX_ASSERTIONS": False, "COLLECT_PERF_STATS": True, "KEEP_DEPENDENCIES": True},
                dict({o: True for o in dumps}, ENABLE_COMPLEX_ASSERTIONS=False, SCHEDULER_STATE_DUMP_INTERVAL=0),
                {"COLLECT_PERF_STATS": True, "KEEP_DEPENDENCIES": True}, {"COLLECT_PERF_STATS": True}, {"KEEP_DEPENDENCIES": True},
                dict({o: True for o in dumps}, COLLECT_PERF_STATS=True, KEEP_DEPENDENCIES=True, SCHEDULER_STATE_DUMP_INTERVAL=0),
                {o: (o != "DUMP_PRE_ERROR_STATE") for o in BOOL_OPTS if o != "ENABLE_COMPLEX_ASSERTIONS"},
                {o: (o not in ("DUMP_PRE_ERROR_STATE", "ENABLE_COMPLEX_ASSERTIONS")) for o in BOOL_OPTS}]
        singles = [{o: o != "DUMP_PRE_ERROR_STATE"} for o in BOOL_OPTS if o not in ("COLLECT_PERF_STATS", "KEEP_DEPENDENCIES", "ENABLE_COMPLEX_ASSERTIONS")]
        if tier == "quick":
            rng.shuffle(singles)
            singles = singles[:5]
        sets += singles
        for o in sets:
            o["_clock"] = [rng.choice(STEPS[:6] if rng.random() < 0.7 else STEPS) for _ in range(rng.randint(1, 4))]
        sets += [gen_opts(rng) for _ in range(4 if tier == "quick" else 40)]
        cases += [{"special": "optprog", "prog": name, "opts": o} for o in sets]
    return cases


def deepdump_cases(tier, rng):
    """round 6 (checks/optprogs8.py, judged by Drv/Families8.lean mode deepdump): deep suspended chains (30 .. 3000 tasks, run
    under the interpreter's default recursion limit) and wide fans under option sets containing DUMP_SCHEDULER_STATE, the
    clock read by the time-based state dump scripted (asynq.scheduler.time replaced) and advanced by the program's slow steps"""
    from checks import optprogs8
    return optprogs8.deepdump_cases(tier, rng, BOOL_OPTS, gen_opts)


def guard_cases(tier, rng):
    """second audit, item 1: programs that hit the MAX_TASK_STACK_SIZE guard (limit lowered in BOTH runs of the pair), each
    under two option sets: one random subset WITHOUT KEEP_DEPENDENCIES (every other option must stay inert after a guard reset
    too) and the same subset WITH it (after a reset KEEP_DEPENDENCIES changes the pause/resume events a caller that caught the
    RuntimeError gets - machine-checked for the model as C20_guard_counterexample; reported with the signature
    .../KEEP_DEPENDENCIES/after-MAX_TASK_STACK_SIZE-reset)"""
    res = []
    for i in range(40 if tier == "quick" else 1000):
        if i % 2:
            c = cc.guard_nested_family(rng)
        else:
            c = coregen.gen_case(rng, rng.choice(["full", "full", "sync", "yield_ctx"]), ntops=rng.choice([1, 1, 2]))
            c["cfg"].pop("keepDeps", None)
            c["cfg"]["maxStack"] = rng.choice([1, 2, 3, 4, 6, 9])
        opts = gen_opts(rng)
        opts.pop("KEEP_DEPENDENCIES", None)
        if len(opts) == 1:      # only the clock is left
            opts["COLLECT_PERF_STATS"] = True
        res.append(dict(c, opts=opts))
        res.append(dict(c, opts=dict(opts, KEEP_DEPENDENCIES=True)))
    return res


def plan(tier, seed):
    rng = random.Random(seed * 1000003 + 20)
    n = 1200 if tier == "quick" else 20000
    cases = cc.corpus(PID)
    profs = [p for p, w in MIX for _ in range(w)]
    for _ in range(n):
        c = coregen.gen_case(rng, rng.choice(profs), ntops=rng.choice([1, 1, 2]))
        c["cfg"].pop("keepDeps", None)     # here KEEP_DEPENDENCIES is one of the options under test
        c["opts"] = gen_opts(rng)
        cases.append(c)
    for _ in range(n // 8):
        c = coregen.gen_case(rng, rng.choice(["full", "yield_ctx", "yield"]), ntops=1)
        c["cfg"].pop("keepDeps", None)
        c["opts"] = gen_opts(rng)
        if rng.random() < 0.7:
            c["opts"]["COLLECT_PERF_STATS"] = True
        c["hook"] = "peek"
        cases.append(c)
    return cc.corpus(PID) + optprog_cases(tier, random.Random(seed * 1000003 + 21)) + optprog6_cases(tier, random.Random(seed * 1000003 + 23)) + \
        guard_cases(tier, random.Random(seed * 1000003 + 22)) + deepdump_cases(tier, random.Random(seed * 1000003 + 24)) + cases[len(cc.corpus(PID)):]


def run_case(case):
    if case.get("special") == "deepdump":
        from checks import optprogs8
        return optprogs8.run_deepdump(case)
    if case.get("special") == "optprog":
        from checks import optprogs
        return optprogs.run_optprog(case)
    from corerun import run_program
    import hashlib
    import json
    base = dict(case)
    base["opts"] = {}
    ms = case.get("cfg", {}).get("maxStack")
    if ms is not None:
        # the guard family: the limit is part of the configuration of BOTH runs, not one of the options under test
        base["opts"] = {"MAX_TASK_STACK_SIZE": ms}
        case = dict(case, opts=dict(case["opts"], MAX_TASK_STACK_SIZE=ms))
    tr0 = run_program(base)
    try:
        tr1 = run_program(case)
    except Exception as e:  # an option made the computation fail outside the interpreter's reach
        tr1 = [["bad", "exception-under-options", type(e).__name__]]
    cfg = dict(case.get("cfg", {}))
    if case["opts"].get("KEEP_DEPENDENCIES"):
        cfg["keepDeps"] = True
    lines = ["(case core20 %d C20 %s %s)" % (case["id"], sx(cc.cfg_sx(cfg)), sx(["tops"] + [[c, b] for c, b in case["tops"]]))]
    if case.get("hook"):
        lines = ["(case optpair %d)" % case["id"]]
    lines += [sx(e) for e in tr0] + ["(sep)"] + [sx(e) for e in tr1] + ["(end)"]
    ntasks = sum(1 for e in tr0 if e[0] == "new" and e[2] == "task")
    nflush = sum(1 for e in tr0 if e[0] == "flushB")
    feats = ["profile=" + case.get("profile", "?")] + sorted("opt=" + k for k in case["opts"] if not k.startswith("_"))
    feats += ["hook=" + case["hook"]] if case.get("hook") else []
    feats.append("clock-max<=%s" % next(b for b in ("1e3", "1e6", "1e9", "2^31", "inf")
                                         if max(case["opts"]["_clock"]) <= {"1e3": 10**3, "1e6": 10**6, "1e9": 10**9, "2^31": 2**31 - 1, "inf": 10**30}[b]))
    nt = None
    if ntasks >= 2 and nflush >= 1:
        nt = hashlib.sha1(json.dumps([case.get("cfg"), case["tops"], case["opts"]], sort_keys=True).encode()).hexdigest()[:16]
    return {"lines": lines, "features": feats, "nontrivial": nt}


def shrink(case):
    opts = case["opts"]
    for k in list(opts):
        if k != "_clock":
            yield dict(case, opts={a: b for a, b in opts.items() if a != k})
    if len(opts["_clock"]) > 1:
        yield dict(case, opts=dict(opts, _clock=opts["_clock"][:1]))
        yield dict(case, opts=dict(opts, _clock=[max(opts["_clock"])]))
    if case.get("special") == "optprog":
        return
    for c in cc.shrink_case(case):
        yield c


def neighbours(case, rng):
    for _ in range(16):
        yield dict(case, opts=gen_opts(rng))
    if case.get("special") == "optprog":
        return
    for c in cc.neighbours_case(case, rng, [p for p, _ in MIX]):
        c["opts"] = case["opts"]
        yield c


def signature(case, v):
    opts = sorted(k for k in case["opts"] if not k.startswith("_") and k != "MAX_TASK_STACK_SIZE")
    sig = v["spec"]
    if not case.get("special") and cc.guard_fired(case, v):
        # the runs differ from the guard's reset on: with KEEP_DEPENDENCIES among the options that is the recorded behaviour
        # (whatever else is switched on), without it a signature of its own
        if "KEEP_DEPENDENCIES" in opts:
            opts = ["KEEP_DEPENDENCIES"]
        return sig + ("/hook-" + case["hook"] if case.get("hook") else "") + "".join("/" + o for o in opts[:1] if len(opts) == 1) + \
            cc.guard_suffix(case, v)
    if case.get("hook"):
        sig += "/hook-" + case["hook"]
    if case.get("special") == "optprog":
        sig += "/program-" + case["prog"]
    if case.get("special") == "deepdump":
        return sig + ("/" + opts[0] if len(opts) == 1 else "")
    if len(opts) == 1:
        sig += "/" + opts[0]
    return sig
