"""C15  fn.asyncio() under an event loop matches the asynq result.

Batch-free, tree-shaped programs (tasks, ConstFutures, ErrorFutures, lazy Futures, None, non-futures, nested tuple/list/dict of
any width and depth, instances of SUBCLASSES of tuple/list/dict, async_proxy functions returning a future / None / a container,
raise of Exceptions and of BaseException-only errors, try/except Exception and try/except BaseException at every yield, return
and asynq.result() of every kind of object - exception instances, falsy / unhashable / awaitable / future-like objects,
subclasses of the built-in containers -, plain synchronous calls) are interpreted on the REAL library in five ways:
  call    fn(args)                               value   fn.asynq(args).value()
  aio     `await fn.asyncio(args)` inside an observer coroutine (same contextvars context) under asyncio.run
  aiorun  asyncio.run(fn.asyncio(args))          aiotask ensure_future(fn.asyncio(args)) beside a flag-watching coroutine
through plain functions, methods (bound and through the class), classmethods and staticmethods (through the class and through
an instance), pure functions, async_proxy functions, asynq.async_call, @deduplicate() functions and non-generator functions,
with positional and keyword arguments, with and without an explicit asyncio_fn, declared with or without sync_fn= (the callee
of a plain synchronous call then is that sync_fn - which must not run while the flag is on); with fresh decorated functions
for every run or one set shared by the five runs in a random order; first or second use; and under seven INTERACTIONS that the
model does not distinguish (usage flags): one constant object yielded again and again (`reuse`), one decorator object applied
to many functions (`onedeco`), every run on a fresh thread (`thread`), bound wrappers used through copy.copy() (`copyb`),
garbage collections between runs and at every resumption (`gc`), WHAT is decorated is not a function - a functools.partial, a
callable object without __name__, a partial of a partial - (`wrapc`: the refusal of a plain synchronous call must be the
RuntimeError whatever the callee is), an explicit asyncio_fn= that is not an `async def` - a plain function returning the
coroutine / a generic awaitable with __await__ only / an asyncio Task, a partial of the coroutine function, objects with an async
__call__ or a __call__ returning a generic awaitable - (`afnobj`: what such an asyncio_fn returns reaches the yield of the
enclosing function, bare or inside list / tuple / dict, and has to be awaited like a coroutine).
Third audit (A3, B8): the SEVENTH form of an asyncio_fn - a generator-based coroutine (`@types.coroutine`) - is part of the program
language (ys tag `gco`, Lean `Ys.gco`), and so is the product cell pure x method (call [pure, 0, label, 2]; Lean
`Asyncio.observeR true`).  Both were findings (resolve_awaitables rejected the generator object at the yield; `obj.m.asyncio` did
not exist) and are REPAIRED in /repo (6607af4, fec982c): the model follows the repaired code, both dimensions stay in the plan as
ordinary cases that must pass, and the observer still rejects the old behaviour (clause equiv / deliveries: a regression is a
VIOLATION, no signature explains it).
The Lean model (AsynqModel.Lib.Asyncio) runs the same program (correspondence, per-task form of the logs) and the Lean
observer `Asyncio.specClauseP` judges the implementation's observations:
  observation-only clauses (`Asyncio.spec`): flag off before / after / on inside, siblings complete, synchronous calls refused
    with the RuntimeError and no sync_fn entered, same outcome as fn(args) and the same start / deliveries at every yield / end
    of EVERY task as under fn(args) (when the asyncio run attempted no synchronous call), the run ends with the end of its root
    task carrying the outcome;
  program-aware clauses (`Asyncio.specObsP`): nothing of a refused callee runs (every event belongs to a task of `Prog.live`),
    the explicit asyncio_fns entered and - for a run that attempted a synchronous call, which legitimately differs from fn(args)
    from the refusal on - every event of every task are those of the model's run (exact).
The observer reads of a log only what the correspondence check compares (per-task sub-logs, first event; never the order of
events of different tasks): equal views give equal verdicts (C15_spec_respects_correspondence).  It is proved of the model for
every program that satisfies `Prog.safe` (no handler catches BaseException, or no BaseException-only error is raised) and
`Prog.plainY` (no container-subclass yield, no async_proxy function returning a non-future):
C15_spec_holds_partial, C15_specP_holds_partial, C15_case_spec_holds_partial (any root, a pure=True method included); for the
rest the code as it is violates the property: C15_base_handler_counterexample, C15_container_subclass_counterexample,
C15_proxy_value_counterexample (positive instances after repairs: C15_other_future_resolved,
C15_generator_coroutine_asyncio_fn_repaired, C15_pure_method_root_repaired)."""
import hashlib
import json
import random

PID = "C15"
LEVEL = "proof"
LEAN_MODULES = ["AsynqModel.Theorems.C15", "AsynqModel.Theorems.C15b"]
# statements with content (induction over all programs); hypotheses in DESIGN.md section 5 C15 / MANIFEST
HEADLINE_THEOREMS = [
    "AsynqModel.Asyncio.C15_equiv_partial",
    "AsynqModel.Asyncio.C15_equiv_run_partial",
    "AsynqModel.Asyncio.C15_deliveries_agree_partial",
    "AsynqModel.Asyncio.C15_deliveries_agree_per_task_partial",
    "AsynqModel.Asyncio.C15_run_ends_with_outcome",
    "AsynqModel.Asyncio.C15_asyncio_run_good",
    "AsynqModel.Asyncio.C15_sync_fn_never_runs_under_asyncio",
    "AsynqModel.Asyncio.C15_sync_refused_with_RuntimeError",
    "AsynqModel.Asyncio.C15_refused_callee_never_runs",
    "AsynqModel.Asyncio.C15_asynq_run_good",
    "AsynqModel.Asyncio.C15_shape",
    "AsynqModel.Asyncio.C15_spec_respects_correspondence",
    "AsynqModel.Asyncio.C15_spec_holds_partial",
    # Theorems/C15b.lean: an accepted list of observations (any origin) has all conventions present and EVERY observation
    # in it passed specObs against the first one (no clause of specObs is named "ok": specObs_ne_ok)
    "AsynqModel.Asyncio.C15_spec_every_obs",
    "AsynqModel.Asyncio.C15_specP_holds_partial",
    "AsynqModel.Asyncio.C15_case_spec_holds_partial",
]
# where the code as it is violates the property, and the necessity of every hypothesis (machine-checked witnesses)
COUNTEREXAMPLE_THEOREMS = [
    "AsynqModel.Asyncio.C15_base_error_leaves_asyncio",
    "AsynqModel.Asyncio.C15_base_error_delivered_by_asynq",
    "AsynqModel.Asyncio.C15_base_handler_counterexample",
    "AsynqModel.Asyncio.C15_container_subclass_counterexample",
    "AsynqModel.Asyncio.C15_proxy_value_counterexample",
    "AsynqModel.Asyncio.C15_generator_coroutine_asyncio_fn_repaired",
    "AsynqModel.Asyncio.C15_pure_method_root_repaired",
    "AsynqModel.Asyncio.C15_other_future_resolved",
    "AsynqModel.Asyncio.C15_dedup_sync_refused",
    "AsynqModel.Asyncio.C15_noSync_necessary",
    "AsynqModel.Asyncio.C15_flag_off_necessary",
]
HEADLINE = HEADLINE_THEOREMS + COUNTEREXAMPLE_THEOREMS
# hold BY CONSTRUCTION of the model (one unfolding of a definition / a list lemma about a definition): they document how the
# model renders the code; their content is the correspondence check, not their proofs.  Not headline claims.
BY_CONSTRUCTION_THEOREMS = [
    "AsynqModel.Asyncio.C15_mode_confined",
    "AsynqModel.Asyncio.C15_sync_refused",
    "AsynqModel.Asyncio.C15_sync_refused_top",
    "AsynqModel.Asyncio.C15_result_is_return",
    "AsynqModel.Asyncio.C15_gather_first_failure",
    "AsynqModel.Asyncio.C15_sync_allowed_by_asynq",
    "AsynqModel.Asyncio.C15_sync_fn_unused_by_asynq_and_asyncio",
    "AsynqModel.Asyncio.C15_no_result_escapes",
    "AsynqModel.Asyncio.C15_mode_confined_nested",
    "AsynqModel.Asyncio.C15_mode_untouched_by_asynq",
    "AsynqModel.Asyncio.C15_first_failure_wins",
    "AsynqModel.Asyncio.C15_gather_all_ok",
    "AsynqModel.Asyncio.C15_failure_is_an_element",
    "AsynqModel.Asyncio.C15_live_excludes_callee",
]
BY_CONSTRUCTION = BY_CONSTRUCTION_THEOREMS
THEOREMS = HEADLINE + BY_CONSTRUCTION
BUILDS = {"quick": ["py"], "thorough": ["py", "cy"]}
RULE = ("corpus (24 minimised programs), a fixed family (every call kind x explicit asyncio_fn x 14 body shapes; every child "
        "kind under a bare and a gathered yield; dict/list/tuple whose FIRST failure in structure order is the slowest with a "
        "slower success beside it; empty structures; synchronous calls of every kind; BaseException-only errors raised by every "
        "kind of child, first / second in structure order beside an ordinary failure, passing through an intermediate task; "
        "instances of subclasses of tuple / list / dict yielded bare, nested, empty, beside failing tasks; async_proxy functions "
        "returning None / list / tuple / dict, bare and inside a list; ErrorFutures and lazy Futures bare, in containers, beside "
        "failing tasks, with and without handler; every DECLARATION of a function - function / method / "
        "classmethod / staticmethod / non-generator / @deduplicate(), with or without sync_fn=, with or without asyncio_fn=, "
        "reached through the instance or the class, positional or keyword arguments - as the callee of a plain synchronous call "
        "(at the root and inside a gathered child), as a child under a bare and a gathered yield and as the root; one constant "
        "object - 7 shapes - yielded twice by a body, by a child, inside other structures, by every one of the five runs sharing "
        "it, by the second use; every declaration over a functools.partial / a callable object / a partial of a partial as the "
        "callee of a plain synchronous call, as child and as root - usage flag wrapc -; every declaration with asyncio_fn= written "
        "in 6 forms that are not `async def` as a child under a bare yield, inside list / tuple / dict, one level down, failing "
        "beside a sibling with a handler that goes on, through asynq.async_call - usage flag afnobj; `family_audit3` (ordinary cases since the repairs /repo 6607af4 / fec982c): every "
        "declaration that takes asyncio_fn= with the SEVENTH form - a generator-based coroutine, ys tag gco - as a child under a "
        "bare yield, inside list / tuple / dict beside succeeding and failing siblings, one level down, beside the same "
        "declaration with an `async def` asyncio_fn; the product cell pure x method as the root - 6 bodies, through the "
        "instance and through the class - and as a child of a function / a method / a pure function, bare and gathered), a "
        "value family (13 unusual kinds of returned object x 7 places a value travels through x call kinds), SIZE families with "
        "the size as a parameter (wide: one yield of 5..513 (thorough ..2049) entries with failures at chosen positions, list / "
        "tuple / dict, nested or not; deep: containers nested 4..100 (..200) levels; long: one generator resumed 5..1001 (..2500) "
        "times; chain: 6..100 (..200) tasks each awaiting the next; table: ONE constant list / tuple / dict of 5..513 (..1025) "
        "ConstFutures and Nones yielded 2-4 times by the root and a child and by all five runs) and grammar-generated batch-free programs: 1-15 tasks, depth "
        "<= 5, yields of None / non-future / ConstFuture / proxy ConstFuture / child task / nested tuple-list-dict (0-4, "
        "sometimes 5-40 elements, 3 levels), in 1 program of 8 also container-subclass instances or proxy functions returning "
        "None / a container, in 1 program of 25 ErrorFutures / lazy Futures among the leaves, in 1 of 2 call sites declared with sync_fn= / as classmethod / staticmethod (callees of "
        "synchronous calls more often) and @deduplicate() children, in 2 of 5 yields of constants only that are repeated by the "
        "next yield, raise / raiseB / re-raise / return / result() of plain or unusual objects, handler "
        "(except Exception or except BaseException) or no handler at every yield, plain synchronous calls (the malformed stream: "
        "non-futures and synchronous calls under asyncio); plus n/25 programs in which the asyncio_fn of 15% / 40% of the children that can take one is a generator-based "
        "coroutine (gco) and n/50 programs with pure=True METHODS (half of the pure children; the root in 1 program of 2); "
        "each program is run in five ways (call, value, aio, aiorun, aiotask) "
        "with fresh or shared decorated functions, first or second use, and the usage flags reuse (1/2) / onedeco (3/10) / "
        "thread (12%) / copyb (15%) / gc (6%), and - outside the open findings - wrapc (35% of the programs with a synchronous call, 8% "
        "of the others) / afnobj (35% of the programs with an explicit asyncio_fn on a call site other than the root; the form by "
        "the label of the call site or one form everywhere). non-trivial = at least 2 tasks and (a failure delivered "
        "at a yield or a nested structure); distinct by case hash")
TRUSTED = [
    "hand-written Lean model AsynqModel.Lib.Asyncio tied to the code by this differential run only; its reference evaluator "
    "bodyR ('what fn(args) gives') is tied to the real fn(args) / fn.asynq(args).value() by the conventions call and value of "
    "this run, not to Core.Seq by a theorem",
    "Python harness checks/c15.py (interpreter of the program language on the real decorators, identity tokens, "
    "per-task projection of the event logs; for programs that raise BaseException-only errors the coroutine of a task is "
    "awaited through a harness wrapper that logs the end of a task whose abandoned generator cannot; tasks inside a "
    "container-subclass instance or inside what an async_proxy function returned count for 'all yielded together have "
    "completed' only if the engine started them; the usage flags reuse / onedeco / thread / copyb / gc change how the "
    "harness uses the public API, never what the model is given; so do wrapc / afnobj: no theorem speaks about WHAT is "
    "decorated or HOW an asyncio_fn is written - the model has one refusal for every callee and one `await` for every asyncio_fn, "
    "and the two flags are judged by the correspondence with it and by the observer alone; a root whose `.asyncio` attribute "
    "does not exist - the pure=True method before /repo fec982c - is observed as a run that ends with that AttributeError and "
    "logs nothing: `acall` hands the error to the caller inside a coroutine)",
    "asyncio event loop, contextvars (ensure_future copies the context), CPython generator/with semantics",
]
ASSUMPTIONS = [
    "await x = run x to completion; the order in which sibling coroutines interleave is the event loop's business "
    "(logs are compared per task, never across tasks)",
    "programs are batch-free trees: every yielded future is created in the yield, inside the running computation (no shared "
    "tasks - a task object yielded twice is 'cannot reuse already awaited coroutine' under asyncio -, no batch items; no "
    "AsyncTask made BEFORE fn.asyncio() was entered and passed in as an argument: under asyncio `.asynq()` gives coroutines, "
    "so such an object can only come from outside the computation the property compares, and resolving it would mean "
    "running the asynq scheduler inside the event loop - excluded, resolve_awaitables raises TypeError for it)",
    "hypotheses of the equivalence theorems (each with a machine-checked counterexample): Prog.safe (every handler is `except "
    "Exception`, or no BaseException-only error is raised; sufficient, not a characterisation), Prog.plainY (no yielded "
    "instance of a subclass of tuple / list / dict, no async_proxy function returning a non-future - an ErrorFuture / a lazy "
    "Future made in a yield is inside since /repo f8c8dff, a child whose explicit asyncio_fn is a generator-based coroutine since "
    "6607af4; a whole case needs no hypothesis on its root: a pure=True METHOD has .asyncio since fec982c), and for statements "
    "about outcomes Prog.noSync or 'the asyncio "
    "run logged no synchronous call' (refused by design); programs outside them ARE generated and reported (findings)",
    "Prog.validCalls (= valid_call below + no `pure` callee of a plain synchronous call; NOT a hypothesis of any theorem: the "
    "four statements about refused synchronous calls carried it unused and have dropped it - third audit C - they hold of the "
    "model for every term and are statements about the code for programs inside validCalls): the Lean type `Call` has terms the library gives another meaning to and the harness never "
    "sends - `pure(args)` is not a synchronous call (it returns the task; under asyncio an un-awaited coroutine, nothing is "
    "refused), @async_proxy(sync_fn=f) is not an @asynq() function (AsyncAndSyncPairProxyDecorator.__call__ runs f whatever "
    "the flag), asyncio_fn= does not exist for pure / @deduplicate() declarations.  The predicate delimits where the model is "
    "tied to the code",
    "BaseException-only errors are instances of a user-defined subclass of BaseException (KeyboardInterrupt, SystemExit and "
    "asyncio.CancelledError, which the event loop itself interprets, are not raised; they do occur as returned VALUES)",
    "an explicit asyncio_fn is a faithful asyncio version of the function (here: it logs and awaits the undecorated "
    "function's .asyncio())",
    "asynq.result(x) of a future-like x asserts on both engines alike and is not generated; allow_sync_call=True is outside the "
    "statement ('raises RuntimeError instead of blocking the loop' is about the default) and not generated - what the code does "
    "with the flag set (checked by hand on /repo 28d2b07): `__call__` while the asyncio flag is on logs a warning with the text "
    "of the refusal and returns None WITHOUT running the function or its sync_fn (AsyncDecorator.__call__ / "
    "AsyncAndSyncPairDecorator.__call__); on a sync_fn= pair reached as a method the flag is lost "
    "(AsyncAndSyncPairDecorator.__get__ rebuilds the decorator without it), so that call raises the RuntimeError all the same",
    "MALFORMED child calls are not generated (third audit A3, second case): every call site of the language passes arguments "
    "the callee can bind.  A call Python cannot bind (`child.asynq(1, 2)` of a one-parameter GENERATOR function) raises its "
    "TypeError when the call expression is evaluated under fn(args) (`_call_pure` calls `self.fn(*args)`: a generator function "
    "binds at the call) but only when the coroutine is awaited under .asyncio() (`async def wrapped(*_args, **_kwargs)` accepts "
    "anything; `fn(*_args)` runs inside it): `t = child.asynq(1, 2)` outside a try block and `yield t` inside it is 'raised' "
    "under fn(args) and 'caught' under .asyncio() (seen by hand on /repo 28d2b07); with call and yield in one expression - the "
    "only form of this language, `yield child.asynq(..)` - both engines agree.  Reason for the exclusion: such a call creates "
    "no task, so the program is not a 'tree of tasks' of the quantifier, and separating creation from the yield would need "
    "first-class task variables that the program language and the model do not have (non-generator functions, explicit "
    "asyncio_fns and async_proxy functions bind at the same point in both engines)",
    "the seventh form of an asyncio_fn (generator-based coroutine, tag gco) is generated for CHILDREN only: the root keeps an "
    "`async def` asyncio_fn (awaiting `f.asyncio(1)` directly accepts the generator; asyncio.run / ensure_future of the harness "
    "refuse it: 'a coroutine was expected'); gco and pure-method call sites go through asynq.async_call like every other "
    "(labels % 5 == 3) since the repairs /repo 6607af4 / fec982c",
    "usage flags wrapc / afnobj: the ROOT call keeps an `async def` asyncio_fn (asyncio.run / ensure_future of the harness want a "
    "coroutine); bound methods and objects with a generator __call__ are not decorated (qcore's DecoratorBase unwraps a bound "
    "method like a classmethod object; `inspect` does not take such an object for a generator function); the flags are inert in "
    "programs inside the open findings about BaseException handlers and yielded objects - container subclasses, proxy values - "
    "(a yielded object that one engine never awaits would leave an eagerly made Task unfinished); NOT generated: a decorated callable object without __name__ whose __repr__ raises (the refusal message formats "
    "the callee: the exception of __repr__ then replaces the RuntimeError - seen by hand on the unchanged tree, see INTEGRATION.md)",
    "the ROOT function of a case is declared without sync_fn (with one, fn(args) IS sync_fn(args) by definition - comparing "
    "fn.asyncio(args) with it is not what the property states); every other call site may be; a sync_fn= is a faithful "
    "synchronous version of the function (here: it logs and makes the plain synchronous call of the function declared "
    "without sync_fn)",
    "the program-aware clauses `asyncio-fn` and `sync-run-deliveries` of the observer compare with the model's run (exact): "
    "they hold of the model by reflexivity; for a run that attempted a synchronous call, 'shape / first failure / try-except' "
    "are therefore judged through the model (correspondence), the model's run being described by "
    "C15_deliveries_agree_partial (prefix of fn(args) up to the first refusal) and C15_asyncio_run_good",
]
CASE_TIMEOUT = 30
CONVS = ["call", "value", "aio", "aiorun", "aiotask"]
KINDS = ["gen", "meth", "pure", "proxy", "plain", "dedup"]     # dedup: @deduplicate() over @asynq() (asynq/tools.py)
AFN_KINDS = ("gen", "meth", "proxy", "plain")


# ---------------------------------------------------------------------------------------------------
# program language (JSON):
#   prog := ["ret", tag] | ["res", tag] | ["raise", e] | ["raiseB", e] | ["reraise"] | ["yld", ys, k, h] | ["yldB", ys, k, h]
#           | ["sync", call, child, k, h]
#           (raiseB: an error whose class derives from BaseException only; yldB: the handler is `except BaseException`)
#   ys   := "none" | "junk" | ["const", v] | ["pconst", v] | ["task", call, prog] | ["tup", ys...] | ["lst", ys...]
#           | ["dict", [key, ys]...]
#           | ["tupS", ys...] | ["lstS", ys...] | ["dictS", [key, ys]...]   the same containers as instances of a SUBCLASS
#           | ["pval", ys]   proxy.asynq() of an @async_proxy() function that returns the object ys (None or a container)
#           | ["efut", e]    ErrorFuture(user error e)      | ["lfut", v]   Future(lambda: v)  (a lazy future)
#                            (futures that are not ConstFutures; Lean: Ys.ofut)
#           | ["gco", ["task", call, prog]]   the child task of a call site declared with an explicit asyncio_fn= (afn = 1) that is
#                            written in the SEVENTH form: a generator-based coroutine (`@types.coroutine def g(..): r = yield
#                            from ...; return r`) - Lean: Ys.gco; an ordinary child since /repo 6607af4 (former finding
#                            generator-based-asyncio_fn-rejected-at-yield)
#   call := [kind, afn(0/1), label] | [kind, afn(0/1), label, var]
#           var = sfn + 2 * bind: HOW the function of the call site is declared
#             sfn  = 1: with `sync_fn=f` (kinds gen / meth / plain; never the root call): f logs `sfn` and makes the plain
#                       synchronous call of the function declared without sync_fn            (Lean: Call.sfn, Ev.sfn)
#             bind = 1: kind meth as a classmethod, 2: as a staticmethod (access paths that the model does not distinguish)
#             bind = 1 with kind pure: the pure=True function is a METHOD of a class (the product cell pure x method).  As a
#                       child / through fn(args) it is what `pure` is; as the ROOT, `obj.m.asyncio` exists since /repo fec982c
#                       (former finding pure-method-has-no-asyncio; Lean: Asyncio.observeR true = observe; Drv rootPM)
# ---------------------------------------------------------------------------------------------------
SFN_KINDS = ("gen", "meth", "plain")
WRAPC_KINDS = ("gen", "plain", "dedup", "proxy")   # usage flag wrapc: kinds whose decorated callable may be a partial / an object
AFN_FORMS = 6                                      # usage flag afnobj: ways of writing an asyncio_fn that is not `async def`
AFN_FORM_GENCORO = 7                               # the seventh form, a generator-based coroutine (`@types.coroutine`): NOT a usage
                                                   # flag but a ys tag ("gco") - the library rejected it at a yield until /repo
                                                   # 6607af4, so the model was told; kept so that a regression names the tag
BIND_NAMES = ("", "classmethod", "staticmethod")


def call_var(c):
    return c[3] if len(c) > 3 else 0


def mk_call(kind, afn, label, var=0):
    return [kind, afn, label, var] if var else [kind, afn, label]


def valid_call(c):
    kind, afn = c[0], c[1]
    sfn, bind = call_var(c) % 2, call_var(c) // 2
    if kind == "pure" and bind == 1 and not sfn and not afn:
        return True                 # a pure=True METHOD
    if bind > 2 or (sfn and kind not in SFN_KINDS) or (bind and kind != "meth"):
        return False
    return not (afn and kind not in AFN_KINDS)


def variants(kinds=("gen", "meth", "plain", "dedup")):
    """every declaration of a function of these kinds: (kind, afn, var)"""
    res = []
    for kind in kinds:
        for bind in ((0, 1, 2) if kind == "meth" else (0,)):
            for afn in (0, 1):
                for sfn in (0, 1):
                    if valid_call([kind, afn, 0, sfn + 2 * bind]):
                        res.append((kind, afn, sfn + 2 * bind))
    return res


def const_only(y):
    """a structure of None / non-futures / ConstFutures and containers of those: nothing in it is consumed by being awaited, so
    the same OBJECT may be yielded any number of times"""
    return all((x in ("none", "junk")) if not isinstance(x, list) else (x[0] == "const" or x[0] in CONTAINER_TAGS)
               for x in walk_ys(y))


YLD = ("yld", "yldB")
SEQ_TAGS = ("tup", "lst", "tupS", "lstS")
MAP_TAGS = ("dict", "dictS")
SUB_TAGS = ("tupS", "lstS", "dictS")          # instances of strict subclasses of tuple / list / dict
OFUT_TAGS = ("efut", "lfut")                  # futures that are not ConstFutures: ErrorFuture, lazy Future
# tags of yielded structures inside an OPEN finding (harness/checks/corecommon.py filters SUB_TAGS and "pval" by name; the
# OFUT_TAGS are produced by `family_other_futures` and `gen_case(ofut=True)` only, which corecommon does not call)
OPEN_FINDING_TAGS = SUB_TAGS + ("pval",) + OFUT_TAGS
# (third audit A3 / B8) "gco" and a root [pure, 0, label, 2] are produced by `family_audit3` and `gen_case(gco=True / pm=True)`
# only, which checks/corecommon.py does not call
PURE_METHOD_VAR = 2


def is_pure_method(c):
    return c[0] == "pure" and call_var(c) == PURE_METHOD_VAR
CONTAINER_TAGS = SEQ_TAGS + MAP_TAGS


def has_yield(p):
    """does the body itself (not its children) contain a yield?"""
    op = p[0]
    if op in YLD:
        return True
    if op == "sync":
        return has_yield(p[3]) or has_yield(p[4])
    return False


def walk_progs(p):
    """all sub-programs, children included (iterative: programs of the size families are thousands of levels deep)"""
    stack = [p]
    while stack:
        p = stack.pop()
        yield p
        if p[0] in YLD:
            stack.append(p[3])
            stack.append(p[2])
            stack.extend(reversed(list(walk_ys_progs(p[1]))))
        elif p[0] == "sync":
            stack.append(p[4])
            stack.append(p[3])
            stack.append(p[2])


def walk_ys(y):
    stack = [y]
    while stack:
        y = stack.pop()
        yield y
        if isinstance(y, list):
            if y[0] in SEQ_TAGS:
                stack.extend(reversed(y[1:]))
            elif y[0] in MAP_TAGS:
                stack.extend(x for _, x in reversed(y[1:]))
            elif y[0] in ("pval", "gco"):
                stack.append(y[1])


def walk_ys_progs(y):
    for x in walk_ys(y):
        if isinstance(x, list) and x[0] == "task":
            yield x[2]


def has_res(p):
    return any(q[0] == "res" for q in walk_progs(p))


def has_sync(p):
    return any(q[0] == "sync" for q in walk_progs(p))


def has_dedup_sync(p):
    return any(q[0] == "sync" and q[1][0] == "dedup" for q in walk_progs(p))


def has_base_handler_and_raise(p):
    ops = {q[0] for q in walk_progs(p)}
    return "yldB" in ops and "raiseB" in ops


def ys_tags(p):
    """tags of all yielded structures of a program (children included)"""
    tags = set()
    for q in walk_progs(p):
        if q[0] in YLD:
            for x in walk_ys(q[1]):
                tags.add(x[0] if isinstance(x, list) else x)
    return tags


def count_tasks(p):
    n = 0
    for q in walk_progs(p):
        if q[0] in YLD:
            n += sum(1 for x in walk_ys(q[1]) if isinstance(x, list) and x[0] == "task")
        elif q[0] == "sync":
            n += 1
    return n


class Gen(object):
    def __init__(self, rng, budget, p_exotic=0.0, p_wide=0.0):
        self.rng = rng
        self.budget = budget      # tasks still allowed
        self.next_label = 1
        self.p_exotic = p_exotic  # probability that a returned value is of an unusual kind (VALUE_KINDS)
        self.p_wide = p_wide      # probability that a structure has 5-40 entries
        self.p_base = 0.0         # probability that a raised error is BaseException-only
        self.p_bh = 0.0           # probability that a handler is `except BaseException`
        self.p_sub = 0.0          # probability that a yielded container is an instance of a subclass
        self.p_pval = 0.0         # probability that a leaf is an async_proxy call returning None / a container
        self.p_ofut = 0.0         # probability that a leaf is an ErrorFuture / a lazy Future
        self.p_var = 0.0          # probability that a call site uses an unusual declaration (sync_fn= pair, classmethod, ...)
        self.p_again = 0.0        # probability that a yield is of constants only and is repeated by the next yield
        self.p_gco = 0.0          # probability that the asyncio_fn of a child is a generator-based coroutine (tag "gco")
        self.dsync = False        # may the callee of a plain synchronous call be a @deduplicate() function (a known divergence)

    def tag(self):
        rng = self.rng
        if self.p_exotic and rng.random() < self.p_exotic:
            return 10 * rng.randrange(1, len(VALUE_KINDS)) + rng.randint(0, 9)
        return rng.randint(0, 9)

    def label(self):
        n = self.next_label
        self.next_label += 1
        return n

    def call_for(self, body, sync=False):
        rng = self.rng
        if not has_yield(body) and rng.random() < 0.45:
            kind = "plain"
        else:
            kind = rng.choices(["gen", "meth", "pure", "proxy", "dedup"],
                               weights=[40, 20, 0 if sync else 12, 22, (8 if self.dsync else 0) if sync else 5])[0]
            if not has_yield(body) and kind != "plain" and rng.random() < 0.3:
                kind = "plain"
        afn = 1 if (kind in AFN_KINDS and rng.random() < 0.3) else 0
        var = 0
        if self.p_var and rng.random() < (max(self.p_var, 0.6) if sync else self.p_var):
            bind = rng.choice([0, 1, 2]) if kind == "meth" else 0
            sfn = 1 if (kind in SFN_KINDS and rng.random() < 0.6) else 0
            var = sfn + 2 * bind
        return mk_call(kind, afn, self.label(), var)

    def terminal(self, in_handler, p_res):
        rng = self.rng
        r = rng.random()
        if r < p_res:
            t = self.tag()
            # asynq.result(x) asserts that x is not a future (on both engines alike): not part of the language
            return ["res", t % 10 if VALUE_KINDS[t // 10] == "constfuture" else t]
        r = rng.random()
        if in_handler and r < 0.3:
            return ["reraise"]
        if r < 0.25 or (not in_handler and r < 0.32):
            if self.p_base and rng.random() < self.p_base:
                return ["raiseB", rng.randint(1, 5)]
            return ["raise", rng.randint(1, 5)]
        if r < 0.36:
            return ["reraise"]
        return ["ret", self.tag()]

    def prog(self, depth, steps, in_handler=False, p_res=0.04, p_sync=0.05):
        rng = self.rng
        if steps <= 0 or rng.random() < 0.18:
            return self.terminal(in_handler, p_res)
        if self.budget > 0 and depth < 5 and rng.random() < p_sync:
            self.budget -= 1
            child = self.prog(depth + 1, rng.randint(0, 2), False, p_res, p_sync)
            c = self.call_for(child, sync=True)
            k = self.prog(depth, steps - 1, in_handler, p_res, p_sync)
            h = self.handler(depth, steps - 1, p_res, p_sync)
            return ["sync", c, child, k, h]
        again = bool(self.p_again) and rng.random() < self.p_again
        if again:
            # constants only (no task budget), to be yielded twice
            saved, self.budget = self.budget, 0
            y = self.ys(depth, 0, p_res, p_sync)
            self.budget = saved
        else:
            y = self.ys(depth, 0, p_res, p_sync)
        k = self.prog(depth, steps - 1, in_handler, p_res, p_sync)
        h = self.handler(depth, steps - 1, p_res, p_sync)
        if again and const_only(y):
            k = ["yld", y, k, ["reraise"] if rng.random() < 0.5 else h]
        return ["yldB" if (self.p_bh and h != ["reraise"] and rng.random() < self.p_bh) else "yld", y, k, h]

    def handler(self, depth, steps, p_res, p_sync):
        rng = self.rng
        r = rng.random()
        if r < 0.4:
            return ["reraise"]            # no handler
        if r < 0.6:
            return self.terminal(True, p_res)
        return self.prog(depth, min(steps, 2), True, p_res, p_sync)

    def ys(self, depth, nest, p_res, p_sync):
        rng = self.rng
        r = rng.random()
        if nest < 3 and r < (0.55 if nest == 0 else 0.22):
            n = rng.choices([0, 1, 2, 3, 4], weights=[1, 3, 5, 4, 2])[0]
            if self.p_wide and rng.random() < self.p_wide:
                n = rng.randint(5, 40)
            els = [self.ys(depth, nest + 1, p_res, p_sync) for _ in range(n)]
            shape = rng.choice(["tup", "lst", "dict"])
            if self.p_sub and rng.random() < self.p_sub:
                shape += "S"
            if shape in MAP_TAGS:
                keys = rng.sample(range(max(20, 2 * n)), n)
                return [shape] + [[k, e] for k, e in zip(keys, els)]
            return [shape] + els
        if self.p_pval and nest < 3 and rng.random() < self.p_pval:
            if rng.random() < 0.4:
                return ["pval", "none"]
            els = [self.ys(depth, nest + 1, p_res, p_sync) for _ in range(rng.randint(0, 3))]
            shape = rng.choice(["tup", "lst", "dict"])
            if shape == "dict":
                return ["pval", ["dict"] + [[k, e] for k, e in zip(rng.sample(range(20), len(els)), els)]]
            return ["pval", [shape] + els]
        if self.p_ofut and rng.random() < self.p_ofut:
            return ["efut", rng.randint(1, 5)] if rng.random() < 0.6 else ["lfut", rng.randint(0, 50)]
        r = rng.random()
        if r < 0.07:
            return "none"
        if r < 0.10:
            return "junk"
        if r < 0.22:
            return ["const", rng.randint(0, 50)]
        if r < 0.28:
            return ["pconst", rng.randint(0, 50)]
        if self.budget <= 0 or depth >= 5:
            return ["const", rng.randint(0, 50)]
        self.budget -= 1
        steps = rng.choices([0, 1, 2, 3], weights=[5, 4, 2, 1])[0]
        body = self.prog(depth + 1, steps, False, p_res, p_sync)
        c = self.call_for(body)
        if self.p_gco and c[0] in AFN_KINDS and rng.random() < self.p_gco:
            c[1] = 1
            return ["gco", ["task", c, body]]
        return ["task", c, body]


# generate programs in which a handler that catches BaseException meets a BaseException-only error of an awaited child:
# fn(args) runs the handler, fn.asyncio(args) never delivers the error to the body (theorem C15_base_handler_counterexample)
GEN_BASE_DEFECT = True
# generate plain synchronous calls of @deduplicate() functions (refused with the RuntimeError like any other since /repo
# 6bd88f6: theorem C15_dedup_sync_refused)
GEN_DEDUP_SYNC = True


def gen_case(rng, budget=None, ofut=False, gco=False, pm=False):
    """`ofut`: ErrorFutures / lazy Futures among the leaves (finding non-const-future-yield-rejected-by-asyncio); only `plan`
    asks for them (checks/corecommon.py draws its asyncio-mode family from gen_case(rng) and filters open findings by tag).
    `gco`: children whose explicit asyncio_fn is a generator-based coroutine (former finding generator-based-asyncio_fn-rejected-
    at-yield, repaired); `pm`: pure=True METHODS - children, and (1 case of 2) the root (former finding pure-method-has-no-asyncio,
    repaired); `plan` only"""
    budget = budget if budget is not None else rng.choice([1, 2, 3, 4, 6, 8, 10, 14])
    g = Gen(rng, budget, p_exotic=rng.choice([0.0, 0.0, 0.1, 0.3, 0.6]), p_wide=rng.choice([0.0, 0.0, 0.0, 0.05, 0.3]))
    # BaseException-only errors with `except Exception` handlers (both engines let them through to the caller), handlers that
    # catch BaseException without such errors, and - rarely - both together (where the engines differ: GEN_BASE_DEFECT)
    g.p_base, g.p_bh = rng.choice([(0, 0)] * 10 + [(0.3, 0)] * 3 + [(0, 0.4)] * 2 + ([(0.3, 0.4)] if GEN_BASE_DEFECT else []))
    # yielded instances of subclasses of tuple / list / dict, async_proxy functions returning None or a container - never
    # together and never with the BaseException combination above (one divergence per program: see `signature`)
    odd = rng.choice([None] * 14 + ["sub", "pval"])
    if odd and not (g.p_base and g.p_bh):
        if odd == "sub":
            g.p_sub = rng.choice([0.2, 0.5])
        else:
            g.p_pval = rng.choice([0.15, 0.4])
    p_res = rng.choice([0.0, 0.0, 0.0, 0.05, 0.15])
    p_sync = rng.choice([0.0, 0.0, 0.05, 0.15])
    g.dsync = GEN_DEDUP_SYNC and odd is None and not (g.p_base and g.p_bh) and rng.random() < 0.5
    # declarations (sync_fn= pairs, classmethod / staticmethod, @deduplicate()) and repeated yields of one constant object
    g.p_var = rng.choice([0.0, 0.0, 0.15, 0.5])
    g.p_again = rng.choice([0.0, 0.0, 0.0, 0.1, 0.3])
    if ofut:
        # one divergence per program (see `signature`)
        g.p_base = g.p_bh = g.p_sub = g.p_pval = 0.0
        g.p_ofut = rng.choice([0.1, 0.3])
    if gco or pm:
        # ordinary programs (outside the open findings), so that a regression of the two repairs shows under its own clause
        g.p_base = g.p_bh = g.p_sub = g.p_pval = 0.0
        if gco:
            g.p_gco = rng.choice([0.15, 0.4])
    body = g.prog(0, rng.randint(1, 4), False, p_res, p_sync)
    rng2 = random.Random(rng.random())
    if has_yield(body):
        kind = rng2.choice(["gen", "gen", "gen", "meth", "meth", "pure", "pure", "proxy", "proxy", "dedup"])
    else:
        kind = rng2.choice(["plain", "plain", "gen", "meth", "proxy"])
    afn = 1 if (kind in AFN_KINDS and rng2.random() < 0.3) else 0
    var = 0
    if g.p_var and rng2.random() < g.p_var:
        # the root is never declared with sync_fn (fn(args) would BE sync_fn(args))
        var = 2 * rng2.choice([1, 2]) if kind == "meth" else 0
    if pm:
        # the product cell pure x method: pure children become methods (1 of 2), and so does the root (1 case of 2)
        for q in walk_progs(body):
            if q[0] in YLD:
                for x in walk_ys(q[1]):
                    if isinstance(x, list) and x[0] == "task" and x[1][0] == "pure" and not call_var(x[1]) and rng2.random() < 0.5:
                        x[1][:] = mk_call("pure", 0, x[1][2], PURE_METHOD_VAR)
        if rng2.random() < 0.5:
            kind, afn, var = "pure", 0, PURE_METHOD_VAR
    return usage({"top": [mk_call(kind, afn, 0, var), body]}, rng2)


def delay(g, n, term):
    """a body that needs n event-loop round trips (one gathered child each) before ending in `term`"""
    p = term
    for _ in range(n):
        p = ["yld", ["lst", ["task", ["gen", 0, g.label()], ["ret", 0]]], p, ["reraise"]]
    return p


def family():
    cases = []
    bodies = [
        ["ret", 1],
        ["raise", 2],
        ["res", 3],
        ["reraise"],
        ["yld", ["const", 7], ["ret", 1], ["reraise"]],
        ["yld", "none", ["ret", 1], ["reraise"]],
        ["yld", "junk", ["ret", 1], ["ret", 2]],
        ["yld", ["tup"], ["yld", ["lst"], ["yld", ["dict"], ["ret", 1], ["reraise"]], ["reraise"]], ["reraise"]],
        ["yld", ["pconst", 4], ["ret", 1], ["reraise"]],
        ["yld", ["task", ["gen", 0, 1], ["ret", 5]], ["ret", 1], ["reraise"]],
        ["yld", ["task", ["gen", 0, 1], ["raise", 3]], ["ret", 1], ["reraise"]],
        ["yld", ["task", ["gen", 0, 1], ["raise", 3]], ["ret", 1], ["yld", ["task", ["plain", 0, 2], ["ret", 6]], ["ret", 2], ["reraise"]]],
        ["yld", ["lst", ["task", ["gen", 0, 1], ["res", 3]], ["const", 1]], ["ret", 1], ["ret", 2]],
        ["yld", ["dict", [3, ["tup", ["task", ["meth", 0, 1], ["ret", 5]], "none"]], [1, ["lst", ["const", 2], ["pconst", 3]]]],
         ["ret", 1], ["reraise"]],
    ]
    for kind in KINDS:
        for afn in (0, 1):
            if afn and kind not in AFN_KINDS:
                continue
            for b in bodies:
                if kind == "plain" and has_yield(b):
                    continue
                cases.append({"top": [[kind, afn, 0], b]})
    # child kinds x afn under a gathered yield and under a bare yield
    for kind in KINDS:
        for afn in (0, 1):
            if afn and kind not in AFN_KINDS:
                continue
            for child in (["ret", 4], ["raise", 2], ["res", 6]) + (() if kind == "plain" else (["yld", ["const", 1], ["ret", 2], ["reraise"]],)):
                cases.append({"top": [["gen", 0, 0], ["yld", ["task", [kind, afn, 1], child], ["ret", 1], ["ret", 2]]]})
                cases.append({"top": [["gen", 0, 0], ["yld", ["lst", ["task", [kind, afn, 1], child], ["const", 3]], ["ret", 1], ["ret", 2]]]})
    # the first failure in structure order is the slowest; a slow success follows
    for shape in ("dict", "lst", "tup"):
        for d1 in (1, 3):
            g = Gen(random.Random(0), 0)
            g.next_label = 10
            a = ["task", ["gen", 0, 1], delay(g, d1, ["raise", 1])]
            b = ["task", ["gen", 0, 2], ["raise", 2]]
            c = ["task", ["meth", 0, 3], delay(g, d1 + 1, ["ret", 3])]
            els = [a, b, c]
            y = ["dict"] + [[k, e] for k, e in zip((5, 2, 9), els)] if shape == "dict" else [shape] + els
            for h in (["reraise"], ["ret", 2], ["yld", ["task", ["gen", 0, 4], ["ret", 7]], ["ret", 3], ["reraise"]]):
                cases.append({"top": [["gen", 0, 0], ["yld", y, ["ret", 1], h]]})
            # nested: the failing pair sits one level down
            cases.append({"top": [["gen", 0, 0], ["yld", ["tup", ["const", 1], y], ["ret", 1], ["ret", 2]]]})
    # synchronous calls
    for kind in ("gen", "meth", "proxy", "plain"):
        cases.append({"top": [["gen", 0, 0], ["sync", [kind, 0, 1], ["ret", 4], ["ret", 1], ["ret", 2]]]})
        cases.append({"top": [["gen", 0, 0], ["yld", ["task", ["gen", 0, 2], ["sync", [kind, 0, 1], ["raise", 4], ["ret", 1], ["reraise"]]],
                                              ["ret", 1], ["ret", 2]]]})
    cases.append({"top": [["plain", 0, 0], ["sync", ["gen", 0, 1], ["ret", 4], ["ret", 1], ["ret", 2]]]})
    # every DECLARATION of a function (function / method / classmethod / staticmethod, with or without sync_fn=, with or
    # without asyncio_fn=, under @deduplicate()), reached through the instance or through the class (label % 4), with positional
    # or keyword arguments (label % 2): as the callee of a plain synchronous call - refused while the flag is on, and nothing of
    # the callee, its sync_fn included, runs; .asynq() of the same declaration keeps working afterwards -, as a child under a
    # bare and a gathered yield, and (without sync_fn) as the root
    for kind, afn, var in variants():
        for access in ((0, 2) if kind == "meth" else (0,)):
            c1 = mk_call(kind, afn, 4 + access, var)
            c2 = mk_call(kind, afn, 9 + access, var)
            yb = ["ret", 5] if kind == "plain" else ["yld", "none", ["ret", 5], ["reraise"]]
            cases.append({"top": [["gen", 0, 0], ["sync", c1, ["ret", 4], ["yld", ["task", c2, ["ret", 5]], ["ret", 1], ["reraise"]],
                                                  ["yld", ["task", c2, yb], ["ret", 2], ["reraise"]]]]})
            cases.append({"top": [["gen", 0, 0], ["yld", ["lst", ["task", ["meth", 0, 1], ["sync", c1, ["raise", 4], ["ret", 1], ["reraise"]]],
                                                          ["const", 3]], ["ret", 1], ["ret", 2]]]})
            cases.append({"top": [["gen", 0, 0], ["yld", ["task", c1, ["raise", 2]], ["ret", 1], ["ret", 2]]]})
            cases.append({"top": [["meth", 0, 0], ["yld", ["tup", ["task", c1, yb], ["task", c2, ["res", 6]]], ["ret", 1], ["ret", 2]]]})
            if var % 2 == 0:
                cases.append({"top": [mk_call(kind, afn, access, var),
                                      ["ret", 3] if kind == "plain" else ["yld", ["lst", ["task", c1, ["ret", 5]]], ["ret", 1], ["ret", 2]]]})
    # the same constant OBJECT (a table of ConstFutures / None) yielded twice by one body, by a child as well, and - one set of
    # functions and objects shared by the five runs - by every run: neither engine may touch what was yielded
    t7 = ["task", ["gen", 0, 1], ["ret", 7]]
    for y in (["dict", [1, ["const", 10]], [2, "none"]], ["lst", ["const", 1], ["tup", ["const", 2], "none"]], ["tup", ["const", 3]],
              ["dict", [5, ["lst", ["const", 7]]], [6, ["dict", [1, ["const", 8]]]]], ["const", 9], ["lst"], ["dict", [3, "junk"]]):
        twice = ["yld", y, ["yld", y, ["ret", 1], ["ret", 2]], ["ret", 3]]
        cases.append({"top": [["gen", 0, 0], twice], "reuse": 1})
        cases.append({"top": [["meth", 1, 0], ["yld", ["tup", t7, y], ["yld", y, ["yld", ["lst", y, y], ["ret", 1], ["ret", 2]], ["ret", 3]], ["ret", 4]]],
                      "reuse": 1})
        cases.append({"top": [["gen", 0, 0], ["yld", ["task", ["gen", 0, 2], twice], twice, ["ret", 5]]], "reuse": 1})
        for order in ([2, 0, 1, 3, 4], [4, 3, 1, 0, 2], [0, 1, 2, 3, 4]):
            cases.append({"top": [["gen", 0, 0], ["yld", y, ["ret", 1], ["ret", 2]]], "reuse": 1, "share": 1, "order": order})
        cases.append({"top": [["gen", 0, 0], ["yld", y, ["ret", 1], ["ret", 2]]], "reuse": 1, "warm": 1})
    # BaseException-only errors; every handler is `except Exception`: both engines let the error through to the caller
    for kind in KINDS:
        for afn in (0, 1):
            if afn and kind not in AFN_KINDS:
                continue
            cases.append({"top": [[kind, afn, 0], ["raiseB", 1]]})
            child = ["task", [kind, afn, 1], ["raiseB", 2]]
            cases.append({"top": [["gen", 0, 0], ["yld", child, ["ret", 1], ["ret", 2]]]})
            cases.append({"top": [["gen", 0, 0], ["yld", ["lst", ["const", 3], child], ["ret", 1], ["ret", 2]]]})
    for shape in ("dict", "lst", "tup"):
        g = Gen(random.Random(0), 0)
        g.next_label = 10
        slow_b = ["task", ["gen", 0, 1], delay(g, 2, ["raiseB", 1])]
        quick_e = ["task", ["meth", 0, 2], ["raise", 2]]
        slow_ok = ["task", ["gen", 0, 3], delay(g, 3, ["ret", 3])]
        # a task that the base error passes through, beside an ordinary failure that comes first in structure order
        through = ["task", ["gen", 0, 4], ["yld", ["task", ["proxy", 0, 5], ["yld", "none", ["raiseB", 3], ["reraise"]]],
                                           ["ret", 1], ["ret", 2]]]
        for els in ([slow_b, quick_e, slow_ok], [quick_e, slow_b, slow_ok], [slow_ok, slow_b], [quick_e, through], [through, quick_e]):
            y = ["dict"] + [[k, e] for k, e in zip((5, 2, 9), els)] if shape == "dict" else [shape] + els
            for h in (["reraise"], ["ret", 2]):
                cases.append({"top": [["gen", 0, 0], ["yld", y, ["ret", 1], h]]})
            cases.append({"top": [["gen", 0, 0], ["yld", ["tup", ["const", 1], y], ["ret", 1], ["ret", 2]]]})
    cases.append({"top": [["gen", 0, 0], ["sync", ["gen", 0, 1], ["raiseB", 4], ["ret", 1], ["ret", 2]]]})
    # a handler that catches BaseException, but only ordinary errors around
    cases.append({"top": [["gen", 0, 0], ["yldB", ["lst", ["task", ["gen", 0, 1], ["raise", 2]]], ["ret", 1], ["ret", 2]]]})
    cases.append({"top": [["gen", 0, 0], ["yldB", ["task", ["gen", 0, 1], ["ret", 2]], ["ret", 1], ["ret", 2]]]})
    # instances of SUBCLASSES of tuple / list / dict yielded (a namedtuple, an OrderedDict): asynq raises TypeError at the yield
    # and runs nothing of it, resolve_awaitables resolves it like the base class (C15_container_subclass_counterexample)
    t5 = ["task", ["gen", 0, 1], ["ret", 5]]
    f2 = ["task", ["meth", 0, 2], ["raise", 2]]
    for y in (["tupS", ["const", 1], ["const", 2]], ["lstS", t5, "none"], ["dictS", [3, ["const", 1]], [1, t5]], ["tupS"],
              ["lstS"], ["dictS"], ["tup", ["const", 1], ["tupS", t5]], ["lst", f2, ["lstS", ["const", 1]]],
              ["lst", ["lstS", ["const", 1]], f2], ["dictS", [1, ["lst", t5, f2]]], ["tupS", ["tupS", ["const", 3]]]):
        for h in (["reraise"], ["ret", 2]):
            cases.append({"top": [["gen", 0, 0], ["yld", y, ["ret", 1], h]]})
    cases.append({"top": [["meth", 1, 0], ["yld", ["tupS", t5], ["ret", 1], ["yld", t5, ["ret", 3], ["reraise"]]]]})
    # @async_proxy() functions returning None or a container of futures instead of one future: asynq yields what they return,
    # AsyncProxyDecorator.asyncio awaits it (C15_proxy_value_counterexample)
    for inner in ("none", ["lst", t5, ["const", 2]], ["tup"], ["dict", [1, t5]], ["lst", f2, t5], ["tupS", ["const", 1]]):
        for h in (["reraise"], ["ret", 2]):
            cases.append({"top": [["gen", 0, 0], ["yld", ["pval", inner], ["ret", 1], h]]})
        cases.append({"top": [["gen", 0, 0], ["yld", ["lst", ["pval", inner], ["task", ["gen", 0, 3], ["ret", 4]]], ["ret", 1], ["ret", 2]]]})
    cases.append({"top": [["gen", 0, 0], ["yld", ["tupS", ["pval", "none"]], ["ret", 1], ["ret", 2]]]})
    if GEN_BASE_DEFECT:
        # ... and where it meets a BaseException-only error: the engines differ (C15_base_handler_counterexample)
        cases.append({"top": [["gen", 0, 0], ["yldB", ["task", ["gen", 0, 1], ["raiseB", 1]], ["ret", 1], ["ret", 2]]]})
        cases.append({"top": [["gen", 0, 0], ["yldB", ["lst", ["task", ["gen", 0, 1], ["raiseB", 1]], ["const", 2]], ["ret", 1], ["reraise"]]]})
    return cases


def family_other_futures():
    """futures that are not ConstFutures - ErrorFuture(e), the lazy Future(lambda: v) - made in a yield: `unwrap` (asynq) calls
    `.value()`, resolve_awaitables knows ConstFuture only and raises TypeError (C15_other_future_resolved; finding
    non-const-future-yield-rejected-by-asyncio).  Kept apart from `family()`, which checks/corecommon.py reuses for C01-C03."""
    cases = []
    t5 = ["task", ["gen", 0, 1], ["ret", 5]]
    f2 = ["task", ["meth", 0, 2], ["raise", 2]]
    for y in (["efut", 1], ["lfut", 7], ["lst", ["efut", 1], t5], ["tup", t5, ["lfut", 7]], ["dict", [3, ["efut", 2]], [1, f2]],
              ["lst", f2, ["efut", 1]], ["lst", ["lfut", 3], ["const", 4], "none"], ["tup", ["tup", ["efut", 3]]]):
        for h in (["reraise"], ["ret", 2], ["yld", t5, ["ret", 3], ["reraise"]]):
            cases.append({"top": [["gen", 0, 0], ["yld", y, ["ret", 1], h]]})
    for kind, afn in (("meth", 1), ("pure", 0), ("proxy", 0), ("dedup", 0)):
        cases.append({"top": [[kind, afn, 0], ["yld", ["efut", 1], ["ret", 1], ["ret", 2]]]})
        cases.append({"top": [["gen", 0, 0], ["yld", ["lst", ["task", [kind, afn, 1], ["yld", ["lfut", 6], ["ret", 4], ["reraise"]]]],
                                              ["ret", 1], ["ret", 2]]]})
    return cases


# ---------------------------------------------------------------------------------------------------
# parametrised families: the SIZE is a parameter of the case ({"fam": name, ...}); the program is built from it inside the
# worker (`expand`), so that thresholds (more than N awaitables yielded together, N nesting levels, N resumptions of one
# generator, a chain of N tasks) are crossed by construction and a failing case shrinks to the smallest size that fails
# ---------------------------------------------------------------------------------------------------

WIDE_SIZES = {
    "quick": [5, 8, 9, 16, 17, 31, 32, 33, 50, 63, 64, 65, 100, 101, 127, 128, 129, 130, 200, 255, 256, 257, 300, 511, 513],
    "thorough": [5, 6, 7, 8, 9, 10, 12, 15, 16, 17, 20, 25, 31, 32, 33, 40, 50, 63, 64, 65, 99, 100, 101, 127, 128, 129, 130,
                 150, 199, 200, 201, 255, 256, 257, 300, 400, 500, 511, 512, 513, 1000, 1023, 1024, 1025, 2049],
}
DEEP_SIZES = {"quick": [4, 5, 6, 8, 9, 16, 17, 33, 64, 100], "thorough": [4, 5, 6, 7, 8, 9, 10, 16, 17, 32, 33, 64, 65, 100, 200]}
LONG_SIZES = {"quick": [5, 10, 33, 100, 257, 1001], "thorough": [5, 10, 20, 33, 64, 100, 129, 257, 513, 1001, 2500]}
CHAIN_SIZES = {"quick": [6, 7, 10, 17, 33, 65, 100], "thorough": [6, 7, 8, 10, 17, 33, 65, 100, 150, 200]}


def fam_wide(f):
    """one yield of a list / tuple / dict with n entries (tasks of several kinds, a few constants), the entries at the
    positions `bad` fail after one round trip; optionally one nesting level down; with or without a handler"""
    n, shape, bad, h, nest = f["n"], f.get("shape", "lst"), set(f.get("bad", [])), f.get("h", 1), f.get("nest", 0)
    vk = f.get("vk", 0)
    els = []
    for i in range(n):
        label = i + 1
        if i in bad:
            els.append(["task", ["gen", 0, label], ["yld", "none", ["raise", 1 + i % 5], ["reraise"]]])
        elif i % 11 == 5:
            els.append(["const", i])
        elif i % 7 == 3:
            els.append(["task", ["plain", 0, label], ["ret", 10 * vk + i % 10]])
        else:
            kind = ("gen", "meth", "gen", "proxy", "pure")[i % 5]
            els.append(["task", [kind, 1 if (i % 13 == 6 and kind in AFN_KINDS) else 0, label],
                        ["yld", "none", ["ret", 10 * vk + i % 10], ["reraise"]]])
    y = ["dict"] + [[i, e] for i, e in enumerate(els)] if shape == "dict" else [shape] + els
    if nest:
        y = ["tup", ["const", 1], y, ["task", ["gen", 0, n + 1], ["yld", "none", ["ret", 3], ["reraise"]]]]
    handler = (["reraise"], ["ret", 2], ["yld", ["task", ["gen", 0, n + 2], ["ret", 7]], ["ret", 3], ["reraise"]])[h]
    return [[f.get("kind", "gen"), 0, 0], ["yld", y, ["ret", 1], handler]]


def fam_deep(f):
    """a structure nested d levels deep (list in tuple in dict in ...), a sibling on every level; the innermost entry and /
    or the sibling on level `failat` fail"""
    d, failat, leaf = f["d"], f.get("failat", -1), f.get("leaf", "ok")
    lab = [0]

    def task(body):
        lab[0] += 1
        return ["task", ["gen", 0, lab[0]], body]
    y = task(["yld", "none", ["raise", 1], ["reraise"]] if leaf == "fail" else ["ret", 1])
    for lvl in range(d, 0, -1):     # built inside out: lvl = depth of the container being added
        if lvl == failat:
            sib = task(["raise", 2])
        elif lvl % 3 == 0:
            sib = task(["yld", "none", ["ret", lvl % 10], ["reraise"]])
        else:
            sib = ["const", lvl]
        shape = ("lst", "tup", "dict")[lvl % 3]
        # the deeper structure comes first on even levels, second on odd levels
        pair = [y, sib] if lvl % 2 == 0 else [sib, y]
        y = ["dict", [1, pair[0]], [0, pair[1]]] if shape == "dict" else [shape] + pair
    return [["gen", 0, 0], ["yld", y, ["ret", 1], ["ret", 2] if f.get("h", 1) else ["reraise"]]]


def fam_long(f):
    """one generator resumed n times: bare tasks, constants, gathered pairs, failures caught by a handler that goes on"""
    n = f["n"]
    p = ["ret", 1] if not f.get("fail") else ["raise", 4]
    label = 3 * n + 3
    for i in range(n, 0, -1):
        m = i % 6
        label -= 3
        if m == 0:
            p = ["yld", ["task", ["gen", 0, label], ["ret", i % 10]], p, ["reraise"]]
        elif m == 1:
            p = ["yld", ["const", i], p, ["reraise"]]
        elif m == 2:      # a failure, caught; the handler carries on
            p = ["yld", ["lst", ["task", ["gen", 0, label], ["ret", 2]], ["task", ["meth", 0, label + 1], ["raise", 1 + i % 5]]],
                 ["ret", 0], p]
        elif m == 3:
            p = ["yld", "none", p, ["reraise"]]
        elif m == 4:
            p = ["yld", ["tup", ["task", ["plain", 0, label], ["ret", 3]], ["pconst", i]], p, ["reraise"]]
        else:             # a bare failing task, caught
            p = ["yld", ["task", ["proxy", 0, label], ["yld", "none", ["raise", 2], ["reraise"]]], ["ret", 0], p]
    return [[f.get("kind", "gen"), 0, 0], p]


def fam_chain(f):
    """a chain of d tasks, each yielding the next (bare, or beside a constant in a list); the last one returns or raises;
    every `catch`-th level catches and returns"""
    d, fail, catch, gathered = f["d"], f.get("fail", 0), f.get("catch", 0), f.get("gathered", 0)
    p = ["raise", 3] if fail else ["ret", 5]
    for lvl in range(d, 0, -1):
        kind = ("gen", "meth", "proxy", "pure", "gen")[lvl % 5]
        afn = 1 if (lvl % 7 == 2 and kind in AFN_KINDS) else 0
        t = ["task", [kind, afn, lvl], p]
        y = ["lst", ["const", lvl], t] if (gathered and lvl % 2 == 0) else t
        h = ["ret", 8] if (catch and lvl % catch == 0) else ["reraise"]
        p = ["yld", y, ["ret", lvl % 10], h]
    return [["gen", 0, 0], p]


def fam_table(f):
    """ONE constant object - a list / tuple / dict of n ConstFutures and Nones, optionally one level down - yielded `times`
    times by the root and once more by a child (usage flag `reuse`: the harness builds it once)"""
    n, shape, times = f["n"], f.get("shape", "dict"), f.get("times", 2)
    els = ["none" if i % 9 == 4 else ["const", i] for i in range(n)]
    y = ["dict"] + [[i, e] for i, e in enumerate(els)] if shape == "dict" else [shape] + els
    if f.get("nest"):
        y = ["tup", ["const", 1], y]
    p = ["yld", ["task", ["gen", 0, 1], ["yld", y, ["ret", 2], ["reraise"]]], ["ret", 1], ["reraise"]]
    for _ in range(times):
        p = ["yld", y, p, ["ret", 3]]
    return [[f.get("kind", "gen"), 0, 0], p]


FAMILIES = {"wide": fam_wide, "deep": fam_deep, "long": fam_long, "chain": fam_chain, "table": fam_table}
SIZE_KEY = {"wide": "n", "deep": "d", "long": "n", "chain": "d", "table": "n"}
TABLE_SIZES = {"quick": [5, 9, 33, 65, 128, 129, 257, 513], "thorough": [5, 8, 9, 17, 33, 64, 65, 127, 128, 129, 200, 256, 257, 513, 1025]}


def expand(case):
    """(call, program) of a case; the root is never declared with sync_fn (fn(args) would BE sync_fn(args))"""
    c, p = case["top"] if "top" in case else FAMILIES[case["fam"]](case)
    if call_var(c) % 2:
        c = mk_call(c[0], c[1], c[2], call_var(c) - 1)
    return [c, p]


def size_family(tier, rng):
    cases = []
    for n in WIDE_SIZES[tier]:
        # an early failure (everything else has to finish first), two late failures, no failure, and a random variant
        cases.append({"fam": "wide", "n": n, "shape": "lst", "bad": [min(3, n - 1)], "h": 1})
        cases.append({"fam": "wide", "n": n, "shape": "dict", "bad": [n // 2, n - 1], "h": 2, "kind": "meth"})
        cases.append({"fam": "wide", "n": n, "shape": "tup", "bad": [], "h": 0, "vk": rng.randrange(len(VALUE_KINDS))})
        k = rng.choice([1, 1, 2, 3])
        cases.append({"fam": "wide", "n": n, "shape": rng.choice(["lst", "tup", "dict"]),
                      "bad": sorted(rng.sample(range(n), min(k, n))), "h": rng.randrange(3), "nest": rng.randrange(2),
                      "vk": rng.choice([0, rng.randrange(len(VALUE_KINDS))])})
    for d in DEEP_SIZES[tier]:
        cases.append({"fam": "deep", "d": d, "leaf": "ok"})
        cases.append({"fam": "deep", "d": d, "leaf": "fail"})
        cases.append({"fam": "deep", "d": d, "leaf": rng.choice(["ok", "fail"]), "failat": rng.randint(1, d), "h": rng.randrange(2)})
    for n in LONG_SIZES[tier]:
        cases.append({"fam": "long", "n": n})
        cases.append({"fam": "long", "n": n, "fail": 1, "kind": "meth"})
    for d in CHAIN_SIZES[tier]:
        cases.append({"fam": "chain", "d": d})
        cases.append({"fam": "chain", "d": d, "fail": 1, "catch": 0, "gathered": 1})
        cases.append({"fam": "chain", "d": d, "fail": 1, "catch": rng.choice([2, 3, 5]), "gathered": rng.randrange(2)})
    for n in TABLE_SIZES[tier]:
        cases.append({"fam": "table", "n": n, "shape": "dict", "reuse": 1})
        cases.append({"fam": "table", "n": n, "shape": rng.choice(["lst", "tup"]), "times": 3, "nest": rng.randrange(2), "kind": "meth", "reuse": 1})
        cases.append({"fam": "table", "n": n, "shape": rng.choice(["dict", "lst", "tup"]), "times": 1, "reuse": 1, "share": 1,
                      "order": rng.sample(range(len(CONVS)), len(CONVS))})
    for c in cases:
        usage(c, rng)
    return cases


def usage(case, rng):
    """how the decorated functions are used by the five ways of running: fresh ones for each / the same ones for all five in
    a random order (no scheduler reset in between); first use / second use (the observed run repeats a dropped one)"""
    r_share, r_warm = rng.random(), rng.random()
    order = list(range(len(CONVS)))
    rng.shuffle(order)
    if "share" not in case and r_share < 0.5:
        case["share"] = 1
        case["order"] = order
    if "warm" not in case and r_warm < 0.25:
        case["warm"] = 1
    # interactions (the model is the same with and without each of them):
    #   reuse    a yielded structure made of constants only is ONE Python object per harness, however often it is yielded
    #   onedeco  one decorator object (`d = asynq()`, `d = async_proxy()`) is applied to all functions declared without arguments
    #   thread   every run happens on a fresh thread (its own event loop, scheduler state and contextvars context); the flag and
    #            a synchronous call are checked on the main thread afterwards as well
    #   copyb    bound wrappers (what `obj.method` gives) are used through a copy.copy() of them
    #   gc       garbage collections: a full one before the first run, the two young generations between the runs, the
    #            youngest at every resumption of a body
    for key, prob in USAGE_FLAGS:
        r = rng.random()
        if key not in case and r < prob:
            case[key] = 1
    return case


USAGE_FLAGS = (("reuse", 0.5), ("onedeco", 0.3), ("thread", 0.12), ("copyb", 0.15), ("gc", 0.06))
# two more interactions, set by `plan` only (`usage` keeps its random stream: checks/corecommon.py draws from gen_case):
#   wrapc   WHAT is decorated is not a function: a functools.partial of one, a callable object without __name__ (functions that
#           are not generators), a partial of a partial binding a keyword (generators) - kinds gen / plain / dedup / proxy, the sync_fn too
#   afnobj  an explicit asyncio_fn= (of a call site other than the root) is not an `async def`: a plain function returning the
#           coroutine / a generic awaitable (object with __await__ only) / an asyncio Task, a functools.partial of the coroutine
#           function, objects with an `async def __call__` / a __call__ returning a generic awaitable
# value 1: the form is chosen by the label of the call site ((label // 2) % number of forms); value v >= 2: form v - 1 everywhere
USAGE_FLAGS2 = (("wrapc", 2), ("afnobj", AFN_FORMS))
ALL_USAGE_KEYS = tuple(k for k, _ in USAGE_FLAGS) + tuple(k for k, _ in USAGE_FLAGS2)


def in_open_finding(p):
    return has_base_handler_and_raise(p) or bool(ys_tags(p) & (set(SUB_TAGS) | {"pval"}))


def has_child_afn(p):
    """is some call site other than the root declared with an explicit asyncio_fn?"""
    for q in walk_progs(p):
        if q[0] in YLD:
            if any(isinstance(x, list) and x[0] == "task" and x[1][1] for x in walk_ys(q[1])):
                return True
    return False


def drop_flags2(case):
    return {k: v for k, v in case.items() if k not in ("wrapc", "afnobj")}


def has_wrapc_site(p, c=None):
    return (c is not None and c[0] in WRAPC_KINDS) or any(
        (q[0] == "sync" and q[1][0] in WRAPC_KINDS)
        or (q[0] in YLD and any(isinstance(x, list) and x[0] == "task" and x[1][0] in WRAPC_KINDS for x in walk_ys(q[1])))
        for q in walk_progs(p))


def usage2(case, rng):
    """the usage flags wrapc / afnobj of a planned case (only where they change something)"""
    r1, r2, r3, r4 = rng.random(), rng.random(), rng.random(), rng.random()
    if "fam" in case and case["fam"] not in ("wide", "chain"):
        return case
    c, p = expand(case)
    if in_open_finding(p):
        # one divergence per program (see `signature`); a yielded object that one engine never awaits would leave an eagerly
        # made Task of an asyncio_fn unfinished at the yield
        return case
    if "wrapc" not in case and has_wrapc_site(p, c) and r1 < (0.35 if has_sync(p) else 0.08):
        case["wrapc"] = 1 if r2 < 0.7 else 2 + int(r2 * 1000) % 2
    if "afnobj" not in case and has_child_afn(p) and r3 < 0.35:
        case["afnobj"] = 1 if r4 < 0.6 else 2 + int(r4 * 1000) % AFN_FORMS
    return case


def family_callables():
    """the two interactions of USAGE_FLAGS2, every form: (a) every declaration of a function over a functools.partial / a
    callable object / a partial of a partial as the callee of a plain synchronous call (refused with the RuntimeError while the flag is
    on, whatever is decorated; `.asynq()` of it keeps working), as a child and as the root; (b) every declaration with an explicit
    asyncio_fn= written in every form that is not `async def`, as a child under a bare yield, inside list / tuple / dict, one
    level down, failing beside a sibling with a handler that goes on, through asynq.async_call.  Kept apart from `family()`,
    which checks/corecommon.py reuses."""
    cases = []
    decls = variants(("gen", "plain", "dedup")) + [("proxy", 0, 0), ("proxy", 1, 0)]
    for form in (1, 2):
        for kind, afn, var in decls:
            # labels: (label // 2) % 2 is irrelevant here (the form is fixed), label % 2 = keyword argument, % 5 == 3 async_call
            c1 = mk_call(kind, afn, 4, var)
            c2 = mk_call(kind, afn, 9, var)
            c3 = mk_call(kind, afn, 13, var)
            yb = ["ret", 5] if kind == "plain" else ["yld", "none", ["ret", 5], ["reraise"]]
            w = {"wrapc": 1 + form}
            cases.append(dict(w, top=[["gen", 0, 0], ["sync", c1, ["ret", 4], ["yld", ["task", c2, ["ret", 5]], ["ret", 1], ["reraise"]],
                                                      ["yld", ["task", c2, yb], ["ret", 2], ["reraise"]]]]))
            cases.append(dict(w, top=[["gen", 0, 0], ["yld", ["lst", ["task", ["meth", 0, 1], ["sync", c1, ["raise", 4], ["ret", 1], ["reraise"]]],
                                                              ["const", 3]], ["ret", 1], ["ret", 2]]]))
            cases.append(dict(w, top=[["gen", 0, 0], ["sync", c3, ["ret", 4], ["ret", 1], ["sync", c2, ["ret", 4], ["ret", 2], ["ret", 3]]]]))
            cases.append(dict(w, top=[["meth", 0, 0], ["yld", ["tup", ["task", c1, yb], ["task", c2, ["raise", 6]]], ["ret", 1], ["ret", 2]]]))
            if var % 2 == 0:
                cases.append(dict(w, top=[mk_call(kind, afn, 0, var),
                                          ["ret", 3] if kind == "plain" else ["yld", ["lst", ["task", c1, ["ret", 5]]], ["ret", 1], ["ret", 2]]]))
    # by label: a partial and an object side by side
    cases.append({"wrapc": 1, "top": [["gen", 0, 0], ["sync", ["plain", 0, 4], ["ret", 4], ["ret", 1],
                                                       ["sync", ["plain", 0, 6], ["ret", 4], ["ret", 2],
                                                        ["sync", ["gen", 0, 8], ["ret", 4], ["ret", 3], ["sync", ["gen", 0, 10], ["ret", 4], ["ret", 5], ["ret", 6]]]]]]})
    for form in range(1, AFN_FORMS + 1):
        a = {"afnobj": 1 + form}
        for kind, _, var in [v for v in variants(("gen", "meth", "plain")) if v[1] == 1] + [("proxy", 1, 0)]:
            ok = ["ret", 5] if kind == "plain" else ["yld", ["const", 1], ["ret", 5], ["reraise"]]
            bad = ["raise", 2] if kind == "plain" else ["yld", "none", ["raise", 2], ["reraise"]]
            t1 = ["task", mk_call(kind, 1, 4, var), ok]
            t2 = ["task", mk_call(kind, 1, 6, var), ok]
            t3 = ["task", mk_call(kind, 1, 9, var), bad]
            t4 = ["task", mk_call(kind, 1, 13, var), ok]       # through asynq.async_call, keyword argument
            plain_task = ["task", ["gen", 0, 2], ["ret", 7]]
            cases.append(dict(a, top=[["gen", 0, 0], ["yld", t1, ["ret", 1], ["ret", 2]]]))
            cases.append(dict(a, top=[["gen", 0, 0], ["yld", t3, ["ret", 1], ["yld", t4, ["ret", 3], ["reraise"]]]]))
            cases.append(dict(a, top=[["meth", 0, 0], ["yld", ["dict", [7, ["lst", t1, "none", ["const", 3]]], [2, ["tup", t2, plain_task]]],
                                                       ["ret", 1], ["reraise"]]]))
            cases.append(dict(a, top=[["gen", 0, 0], ["yld", ["lst", t1, t3, plain_task], ["ret", 1], ["yld", t2, ["ret", 3], ["reraise"]]]]))
            cases.append(dict(a, top=[["gen", 1, 0], ["yld", ["tup", ["task", ["gen", 0, 3], ["yld", ["lst", t1], ["ret", 1], ["reraise"]]], t4],
                                                      ["ret", 1], ["ret", 2]]]))
    # by label: all forms beside one another in one yield
    many = ["lst"] + [["task", ["gen", 1, 2 * i + 2], ["yld", "none", ["ret", i % 10], ["reraise"]]] for i in range(AFN_FORMS)]
    cases.append({"afnobj": 1, "top": [["gen", 0, 0], ["yld", many, ["ret", 1], ["ret", 2]]]})
    cases.append({"afnobj": 1, "wrapc": 1, "top": [["gen", 0, 0], ["yld", many, ["sync", ["plain", 1, 6], ["ret", 1], ["ret", 2], ["ret", 3]], ["ret", 2]]]})
    return cases


def family_audit3():
    """third audit A3 / B8.  (a) the SEVENTH form of an explicit asyncio_fn - a generator-based coroutine (`@types.coroutine`) -
    on every kind of declaration that takes asyncio_fn=: as a child under a bare yield, inside list / tuple / dict beside
    succeeding and failing siblings, one level down, with a handler that goes on, beside the same function reached with an
    `async def` asyncio_fn (resolve_awaitables rejected the generator object until /repo 6607af4: former finding
    generator-based-asyncio_fn-rejected-at-yield).
    (b) the product cell pure x method: a pure=True METHOD as the root of every way of running (`obj.m.asyncio` did not exist
    until /repo fec982c: former finding pure-method-has-no-asyncio), reached through the instance and through the class, and as a child (bare, gathered,
    beside a failure) of a function, of a method and of another pure method.  Kept apart from `family()`, which
    checks/corecommon.py reuses."""
    cases = []
    plain_task = ["task", ["gen", 0, 2], ["ret", 7]]
    fails = ["task", ["meth", 0, 12], ["yld", "none", ["raise", 2], ["reraise"]]]
    for kind, _, var in [v for v in variants(("gen", "meth", "plain")) if v[1] == 1] + [("proxy", 1, 0)]:
        ok = ["ret", 5] if kind == "plain" else ["yld", ["const", 1], ["ret", 5], ["reraise"]]
        g1 = ["gco", ["task", mk_call(kind, 1, 4, var), ok]]
        g2 = ["gco", ["task", mk_call(kind, 1, 6, var), ok]]
        t3 = ["task", mk_call(kind, 1, 9, var), ok]               # the same declaration with an `async def` asyncio_fn
        cases.append({"top": [["gen", 0, 0], ["yld", g1, ["ret", 1], ["reraise"]]]})
        cases.append({"top": [["gen", 0, 0], ["yld", g1, ["ret", 1], ["yld", t3, ["ret", 3], ["reraise"]]]]})
        cases.append({"top": [["meth", 0, 0], ["yld", ["lst", plain_task, g1, t3], ["ret", 1], ["ret", 2]]]})
        cases.append({"top": [["gen", 0, 0], ["yld", ["dict", [7, ["tup", g1, "none"]], [2, ["lst", fails, g2]]], ["ret", 1], ["ret", 2]]]})
        cases.append({"top": [["gen", 1, 0], ["yld", ["task", ["gen", 0, 3], ["yld", ["tup", g1, ["const", 3]], ["ret", 1], ["reraise"]]],
                                              ["ret", 1], ["ret", 2]]]})
    pmc = lambda label: mk_call("pure", 0, label, PURE_METHOD_VAR)
    bodies = [
        ["ret", 1],
        ["raise", 2],
        ["yld", ["const", 7], ["ret", 1], ["reraise"]],
        ["yld", plain_task, ["ret", 1], ["ret", 2]],
        ["yld", ["lst", plain_task, fails], ["ret", 1], ["ret", 2]],
        ["yld", ["task", pmc(4), ["yld", "none", ["ret", 5], ["reraise"]]], ["ret", 1], ["reraise"]],
    ]
    for b in bodies:
        cases.append({"top": [pmc(0), b]})
        cases.append({"top": [pmc(102), b]})          # label % 4 == 2: reached through the class, K.m.asyncio(obj, ...)
    # as a CHILD a pure method is what a pure function is (both engines run it)
    for root in (["gen", 0, 0], ["meth", 1, 0], ["pure", 0, 0]):
        for label in (4, 6, 9):
            child = ["task", pmc(label), ["yld", ["const", 1], ["ret", 5], ["reraise"]]]
            bad = ["task", pmc(label + 10), ["yld", "none", ["raise", 3], ["reraise"]]]
            cases.append({"top": [root, ["yld", child, ["ret", 1], ["ret", 2]]]})
            cases.append({"top": [root, ["yld", ["tup", child, bad, plain_task], ["ret", 1], ["yld", child, ["ret", 2], ["reraise"]]]]})
    return cases


def value_family():
    """every kind of returned object x the places a value travels through: the top-level result, a bare yield, a list,
    a tuple / dict beside a failing and a succeeding sibling (handler or not), one nesting level down, through
    asynq.result(), out of every kind of function"""
    cases = []
    for k in range(1, len(VALUE_KINDS)):
        t = 10 * k
        child = ["task", ["gen", 0, 1], ["yld", "none", ["ret", t + 1], ["reraise"]]]
        quick = ["task", ["plain", 0, 2], ["ret", t + 2]]
        viares = ["task", ["meth", 0, 3], ["yld", ["const", 1], ["ret" if VALUE_KINDS[k] == "constfuture" else "res", t + 3],
                                           ["reraise"]]]
        fails = ["task", ["gen", 0, 4], ["yld", "none", ["raise", 2], ["reraise"]]]
        cases.append({"top": [["gen", 0, 0], ["ret", t]]})
        cases.append({"top": [["plain", 0, 0], ["ret", t]]})
        cases.append({"top": [["gen", 0, 0], ["yld", child, ["ret", t + 4], ["ret", 2]]]})
        cases.append({"top": [["gen", 0, 0], ["yld", ["lst", child], ["ret", 1], ["ret", 2]]]})
        cases.append({"top": [["gen", 0, 0], ["yld", ["lst", quick, child, viares], ["ret", 1], ["ret", 2]]]})
        cases.append({"top": [["meth", 0, 0], ["yld", ["tup", child, fails, quick], ["ret", 1], ["ret", 2]]]})
        cases.append({"top": [["gen", 0, 0], ["yld", ["dict", [4, quick], [2, ["tup", ["const", 1], ["lst", child]]], [9, viares]],
                                              ["ret", 1], ["reraise"]]]})
        for kind in ("proxy", "pure", "meth"):
            for afn in (0, 1):
                if afn and kind not in AFN_KINDS:
                    continue
                cases.append({"top": [["gen", 0, 0], ["yld", ["tup", ["task", [kind, afn, 6], ["yld", "none", ["ret", t + 5], ["reraise"]]],
                                                              ["const", 3]], ["ret", 1], ["ret", 2]]]})
                cases.append({"top": [[kind, afn, 0], ["yld", ["const", 3], ["ret", t + 6], ["reraise"]]]})
    return cases


def corpus():
    import glob
    import os
    res = []
    d = os.path.join(os.path.dirname(os.path.dirname(os.path.dirname(os.path.abspath(__file__)))), "corpus", PID)
    for p in sorted(glob.glob(os.path.join(d, "*.json"))):
        with open(p) as f:
            res.append(json.load(f))
    return res


def plan(tier, seed):
    rng = random.Random(seed * 1000003 + 15)
    n = 5000 if tier == "quick" else 50000
    fixed = family() + value_family() + family_other_futures()
    rng_u = random.Random(seed * 1000003 + 17)
    for c in fixed:
        usage(c, rng_u)
    special = family_callables() + family_audit3()
    for c in special:
        usage(c, rng_u)
    cases = corpus() + fixed + special
    planned = size_family(tier, random.Random(seed * 1000003 + 16))
    planned += [gen_case(rng) for _ in range(n)]
    rng_o = random.Random(seed * 1000003 + 18)
    planned += [gen_case(rng_o, ofut=True) for _ in range(n // 25)]
    # third audit A3 / B8 (streams of their own)
    rng_g = random.Random(seed * 1000003 + 20)
    planned += [gen_case(rng_g, gco=True) for _ in range(n // 25)]
    rng_p = random.Random(seed * 1000003 + 21)
    planned += [gen_case(rng_p, pm=True) for _ in range(n // 50)]
    # what is decorated / how an asyncio_fn is written (a stream of its own: everything above is what it was without them)
    rng_x = random.Random(seed * 1000003 + 19)
    for c in fixed + planned:
        usage2(c, rng_x)
    return cases + planned


# ---------------------------------------------------------------------------------------------------
# shrinking / neighbours / signature
# ---------------------------------------------------------------------------------------------------

def shrink_call(c):
    """plainer declarations of the same call site"""
    var = call_var(c)
    if var:
        yield c[:3]
        if var % 2 and var // 2:
            yield c[:3] + [var - 1]
            yield c[:3] + [1]


def shrink_ys(y):
    if not isinstance(y, list):
        return
    tag = y[0]
    if tag == "task":
        yield ["const", 0]
        c, p = y[1], y[2]
        for c2 in shrink_call(c):
            yield ["task", c2, p]
        if c[1]:
            yield ["task", [c[0], 0, c[2]], p]
        if c[0] not in ("gen", "plain"):
            yield ["task", ["gen", c[1], c[2]], p]
        for q in shrink_prog(p):
            if c[0] == "plain" and has_yield(q):
                continue
            yield ["task", c, q]
    elif tag == "gco":
        yield y[1]                     # the same declaration with an `async def` asyncio_fn
        for e2 in shrink_ys(y[1]):
            if isinstance(e2, list) and e2[0] == "task" and e2[1][1] and e2[1][0] in AFN_KINDS:
                yield ["gco", e2]
            else:
                yield e2
    elif tag == "pval":
        yield y[1]
        if y[1] != "none":
            yield ["pval", "none"]
        for e2 in shrink_ys(y[1]):
            if e2 == "none" or (isinstance(e2, list) and e2[0] in CONTAINER_TAGS):
                yield ["pval", e2]
    elif tag in SEQ_TAGS:
        els = y[1:]
        if tag in SUB_TAGS:
            yield [tag[:-1]] + els
        for i in range(len(els)):
            yield [tag] + els[:i] + els[i + 1:]
        for e in els:
            yield e
        for i, e in enumerate(els):
            for e2 in shrink_ys(e):
                yield [tag] + els[:i] + [e2] + els[i + 1:]
    elif tag in MAP_TAGS:
        els = y[1:]
        if tag in SUB_TAGS:
            yield [tag[:-1]] + els
        for i in range(len(els)):
            yield [tag] + els[:i] + els[i + 1:]
        for _, e in els:
            yield e
        for i, (k, e) in enumerate(els):
            for e2 in shrink_ys(e):
                yield [tag] + els[:i] + [[k, e2]] + els[i + 1:]


def shrink_prog(p):
    op = p[0]
    if op in YLD:
        yield p[2]
        yield p[3]
        if op == "yldB":
            yield ["yld", p[1], p[2], p[3]]
        if p[3] != ["reraise"]:
            yield ["yld", p[1], p[2], ["reraise"]]
        for y2 in shrink_ys(p[1]):
            yield [op, y2, p[2], p[3]]
        for k2 in shrink_prog(p[2]):
            yield [op, p[1], k2, p[3]]
        for h2 in shrink_prog(p[3]):
            yield [op, p[1], p[2], h2]
    elif op == "raiseB":
        yield ["raise", p[1]]
    elif op == "sync":
        yield p[3]
        yield p[4]
        for c2 in shrink_call(p[1]):
            yield ["sync", c2, p[2], p[3], p[4]]
        for c2 in shrink_prog(p[2]):
            if p[1][0] == "plain" and has_yield(c2):
                continue
            yield ["sync", p[1], c2, p[3], p[4]]
        for k2 in shrink_prog(p[3]):
            yield ["sync", p[1], p[2], k2, p[4]]
        for h2 in shrink_prog(p[4]):
            yield ["sync", p[1], p[2], p[3], h2]
    elif op in ("ret", "res") and p[1] != 0:
        if p[1] >= 10:
            yield [op, p[1] % 10]          # a plain object instead of the unusual one
            if p[1] % 10:
                yield [op, p[1] - p[1] % 10]
        else:
            yield [op, 0]


def prog_size(p):
    return sum(1 for _ in walk_progs(p))


def shrink_usage(case):
    for key in ALL_USAGE_KEYS:
        if case.get(key):
            yield {k: v for k, v in case.items() if k != key}
    for key, nforms in USAGE_FLAGS2:
        if case.get(key) == 1:
            # one form everywhere instead of a form per label
            for form in range(1, nforms + 1):
                yield dict(case, **{key: 1 + form})
    if case.get("warm"):
        yield {k: v for k, v in case.items() if k != "warm"}
    if case.get("share"):
        yield {k: v for k, v in case.items() if k not in ("share", "order")}
        if case.get("order") and case["order"] != sorted(case["order"]):
            yield dict(case, order=sorted(case["order"]))


def shrink_fam(case):
    """smaller parameters of a family case (the size first: the smallest size that still fails is the threshold)"""
    key = SIZE_KEY[case["fam"]]
    n = case[key]

    def with_size(m):
        c = dict(case)
        c[key] = m
        if "bad" in c:
            c["bad"] = sorted({min(b, m - 1) for b in c["bad"]})
        if c.get("failat", -1) > m:
            c["failat"] = m
        return c
    seen = set()
    for m in (1, 2, 3, n // 2, (3 * n) // 4, n - 16, n - 4, n - 1):
        if 1 <= m < n and m not in seen:
            seen.add(m)
            yield with_size(m)
    for k, simple in (("nest", 0), ("vk", 0), ("h", 1), ("kind", "gen"), ("gathered", 0), ("catch", 0), ("failat", -1)):
        if k in case and case[k] != simple:
            yield dict(case, **{k: simple})
    if len(case.get("bad", [])) > 1:
        for b in case["bad"]:
            yield dict(case, bad=[b])
    for b in case.get("bad", []):
        if b > 0:
            yield dict(case, bad=sorted(set(case["bad"]) - {b} | {0}))
            yield dict(case, bad=sorted(set(case["bad"]) - {b} | {b // 2}))
    if n <= 6:
        # small enough: go on with the program itself
        yield {"top": expand(case)}


def shrink(case):
    yield from shrink_usage(case)
    if "fam" in case:
        yield from shrink_fam(case)
        return
    rest = {k: v for k, v in case.items() if k != "top"}
    c, p = case["top"]
    # a child task promoted to the top
    for q in walk_progs(p):
        if q[0] in YLD:
            for x in walk_ys(q[1]):
                if isinstance(x, list) and x[0] == "task":
                    yield dict(rest, top=[[x[1][0], x[1][1], 0], x[2]])
    for c2 in shrink_call(c):
        yield dict(rest, top=[c2, p])
    if c[1]:
        yield dict(rest, top=[[c[0], 0, c[2]], p])
    if c[0] not in ("gen", "plain"):
        yield dict(rest, top=[["gen", c[1], c[2]], p])
    for q in shrink_prog(p):
        if c[0] == "plain" and has_yield(q):
            continue
        yield dict(rest, top=[c, q])


def neighbours(case, rng):
    if "fam" in case:
        key = SIZE_KEY[case["fam"]]
        for q in shrink(case):
            yield q
        for m in (case[key] + 1, case[key] + 2, 2 * case[key]):
            yield dict(case, **{key: m})
        for k in ("share", "warm") + ALL_USAGE_KEYS:
            yield dict(case, **{k: 0 if case.get(k) else 1})
        return
    rest = {k: v for k, v in case.items() if k != "top"}
    c, p = case["top"]
    for kind in KINDS:
        if kind == "plain" and has_yield(p):
            continue
        for afn in (0, 1):
            if afn and kind not in AFN_KINDS:
                continue
            yield dict(rest, top=[[kind, afn, 0], p])
    for q in shrink(case):
        yield q
    for k in ALL_USAGE_KEYS:
        yield dict(case, **{k: 0 if case.get(k) else 1})
    # every declaration of the callees of the synchronous calls
    if has_sync(p):
        for kind, afn, var in variants():
            yield dict(rest, top=[c, redeclare_sync(p, kind, afn, var)])
    # fresh programs; never introduce asynq.result() (a known, separate failure) into the neighbourhood of a program
    # that does not use it
    keep_res = has_res(p)
    n = 0
    while n < 24:
        q = gen_case(rng)
        if keep_res or not has_res(q["top"][1]):
            n += 1
            yield q


def redeclare_sync(p, kind, afn, var):
    """the program with the callee of every plain synchronous call declared as (kind, afn, var)"""
    op = p[0]
    if op in YLD:
        return [op, redeclare_ys(p[1], kind, afn, var), redeclare_sync(p[2], kind, afn, var), redeclare_sync(p[3], kind, afn, var)]
    if op == "sync":
        c = p[1]
        if not (kind == "plain" and has_yield(p[2])):
            c = mk_call(kind, afn, c[2], var)
        return ["sync", c] + [redeclare_sync(q, kind, afn, var) for q in p[2:]]
    return p


def redeclare_ys(y, kind, afn, var):
    if not isinstance(y, list):
        return y
    if y[0] == "task":
        return ["task", y[1], redeclare_sync(y[2], kind, afn, var)]
    if y[0] in SEQ_TAGS:
        return [y[0]] + [redeclare_ys(x, kind, afn, var) for x in y[1:]]
    if y[0] in MAP_TAGS:
        return [y[0]] + [[k, redeclare_ys(x, kind, afn, var)] for k, x in y[1:]]
    if y[0] in ("pval", "gco"):
        return [y[0], redeclare_ys(y[1], kind, afn, var)]
    return y


DIVERGENCE_CLAUSES = ("fail:equiv", "fail:deliveries")


def signature(case, v):
    clause = v.get("spec", "ok")
    # the model mirrors the open findings branch for branch, so a case inside one has CORR=ok; a spec failure that comes WITH a
    # correspondence difference is something else and keeps the name of its clause (audit 2, N8)
    if clause in DIVERGENCE_CLAUSES and v.get("corr", "ok") == "ok":
        p = expand(case)[1]
        # (the former findings pure-method-has-no-asyncio and generator-based-asyncio_fn-rejected-at-yield are repaired in /repo
        # fec982c / 6607af4 and have no signature any more: their old behaviour is reported under its clause)
        if has_base_handler_and_raise(p):
            # a BaseException-only error of an awaited child is not delivered to the body by convert_asynq_to_async
            return "base-exception-not-delivered-to-handler"
        tags = ys_tags(p)
        if tags & set(SUB_TAGS):
            # `isinstance(x, list/tuple/dict)` in resolve_awaitables vs `type(value) is ...` in unwrap / extract_futures
            return "container-subclass-yield-accepted-by-asyncio"
        if "pval" in tags:
            # AsyncProxyDecorator.asyncio (unwrap_coroutine) awaits whatever the function returned unless it is a ConstFuture
            return "async-proxy-non-future-result-not-resolved"
        if tags & set(OFUT_TAGS):
            # resolve_awaitables knows ConstFuture only: an ErrorFuture / a lazy Future at a yield is a TypeError under asyncio
            return "non-const-future-yield-rejected-by-asyncio"
    # (the usage flags - wrapc / afnobj included - are not part of a signature: the replay file shows the shrunk case, from which
    # the shrinker has dropped every flag that is not needed; inside the open findings above wrapc / afnobj are inert)
    if clause == "fail:sync-refused" and has_dedup_sync(expand(case)[1]) and not case.get("wrapc"):
        # (repaired in /repo 6bd88f6; the signature of the former finding is kept) AsyncDecorator.__call__ built its RuntimeError
        # message with inspect.getsourcefile(self.fn); self.fn of a DeduplicateDecorator is a decorator object: TypeError
        return "sync-call-of-deduplicated-function-raises-TypeError-in-asyncio-mode"
    if clause == "fail:result-escapes" and has_res(expand(case)[1]):
        # AsyncTaskResult leaves .asyncio() as an exception (repaired in /repo; the signature of the former finding is kept)
        return "asynq.result()-escapes-asyncio"
    return clause


# ---------------------------------------------------------------------------------------------------
# implementation side
# ---------------------------------------------------------------------------------------------------

def sx(x):
    """S-expression of nested lists (iterative: programs and values can be thousands of levels deep)"""
    out = []
    stack = [x]
    close = object()
    first = True
    while stack:
        x = stack.pop()
        if x is close:
            out.append(")")
            first = False
            continue
        if not first:
            out.append(" ")
        if isinstance(x, (list, tuple)):
            out.append("(")
            stack.append(close)
            stack.extend(reversed(x))
            first = True
            continue
        first = False
        if x is True:
            out.append("1")
        elif x is False:
            out.append("0")
        elif x is None:
            out.append("none")
        else:
            out.append(str(x))
    return "".join(out)


# kinds of Python object a body returns for `ret tag` / `res tag`: kind = VALUE_KINDS[tag // 10] (tags 0-9: a plain object).
# The token of every one of them is (node tag kids...): the bridge has to carry a returned value as an opaque object,
# whatever its class (Lean: Asyncio.valueKind; the theorems quantify over every tag).
VALUE_KINDS = ["plain", "exc", "baseexc", "cancelled", "stopiter", "falsy", "len0", "boolraises", "eqhostile",
               "tupsub", "lstsub", "dictsub", "awaitable", "constfuture"]


class Node(object):
    """a returned value: a free term over everything the body received"""
    _is_node = True

    def __init__(self, tag=0, kids=()):
        self.tag = tag
        self.kids = kids


_NODE_CLASSES = {}


def node_class(kind):
    """the class of the objects of a value kind (built lazily: some need asyncio / asynq)"""
    cls = _NODE_CLASSES.get(kind)
    if cls is not None:
        return cls
    import asyncio

    import asynq

    def raiser(msg):
        def f(self, *a):
            raise ArithmeticError(msg)
        return f

    if kind == "plain":
        cls = Node
    elif kind == "exc":            # an Exception instance carried as a VALUE ("collect the errors, don't raise them")
        cls = type("ExcNode", (Node, Exception), {"__init__": Node.__init__})
    elif kind == "baseexc":        # a BaseException-only instance as a value
        cls = type("BaseExcNode", (Node, BaseException), {"__init__": Node.__init__})
    elif kind == "cancelled":      # an asyncio.CancelledError instance as a value
        cls = type("CancelledNode", (Node, asyncio.CancelledError), {"__init__": Node.__init__})
    elif kind == "stopiter":       # a StopIteration instance as a value
        cls = type("StopIterNode", (Node, StopIteration), {"__init__": Node.__init__})
    elif kind == "falsy":
        cls = type("FalsyNode", (Node,), {"__bool__": lambda self: False})
    elif kind == "len0":
        cls = type("Len0Node", (Node,), {"__len__": lambda self: 0})
    elif kind == "boolraises":
        cls = type("BoolRaisesNode", (Node,), {"__bool__": raiser("truth value of a result taken")})
    elif kind == "eqhostile":
        cls = type("EqHostileNode", (Node,), {"__eq__": raiser("result compared"), "__ne__": raiser("result compared"),
                                              "__hash__": None, "__repr__": raiser("repr of a result taken")})
    elif kind == "tupsub":         # subclasses of the built-in containers, as VALUES (not yielded)
        class TupNode(tuple):
            _is_node = True

            def __new__(c, tag=0, kids=()):
                self = tuple.__new__(c, kids)
                self.tag = tag
                self.kids = kids
                return self
        cls = TupNode
    elif kind == "lstsub":
        class LstNode(list):
            _is_node = True

            def __init__(self, tag=0, kids=()):
                list.__init__(self, kids)
                self.tag = tag
                self.kids = kids
        cls = LstNode
    elif kind == "dictsub":
        class DictNode(dict):
            _is_node = True

            def __init__(self, tag=0, kids=()):
                dict.__init__(self, enumerate(kids))
                self.tag = tag
                self.kids = kids
        cls = DictNode
    elif kind == "awaitable":      # a value that happens to be awaitable must not be awaited again
        cls = type("AwaitableNode", (Node,), {"__await__": raiser("a result was awaited a second time")})
    elif kind == "constfuture":    # a value that happens to be a future must not be unwrapped
        class FutNode(asynq.ConstFuture):
            _is_node = True

            def __init__(self, tag=0, kids=()):
                asynq.ConstFuture.__init__(self, 424242)
                self.tag = tag
                self.kids = kids
        cls = FutNode
    else:
        raise ValueError(kind)
    _NODE_CLASSES[kind] = cls
    return cls


def mk_node(tag, kids):
    k = tag // 10
    return node_class(VALUE_KINDS[k] if k < len(VALUE_KINDS) else "plain")(tag, tuple(kids))


class TupSub(tuple):
    """a strict subclass of tuple, as a namedtuple is (any width)"""


class LstSub(list):
    """a strict subclass of list"""


class UserError(Exception):
    pass


class BaseUserError(BaseException):
    """an error that is not an `Exception` (the harness's stand-in for a user-defined BaseException subclass)"""


class IllFormed(Exception):
    pass


class Harness(object):
    """one fresh set of decorated functions, error instances and log per way of running"""

    _serial = [0]

    def __init__(self, opts=None):
        import asyncio

        import asynq

        opts = opts or {}
        self.asynq = asynq
        self.asyncio = asyncio
        self.mode = asynq.is_asyncio_mode
        self.log = []
        self.finished = set()
        self.started = set()
        self.err = {}
        self.berr = {}
        self.err_tok = {}
        self.track = False        # set by run(): the program raises BaseException-only errors
        self.reuse = bool(opts.get("reuse"))
        self.onedeco = bool(opts.get("onedeco"))
        self.copyb = bool(opts.get("copyb"))
        self.gc = bool(opts.get("gc"))
        # wrapc / afnobj: 0 off, 1 the form is chosen by the label of the call site, v >= 2 the form v - 1 everywhere
        self.wrapc = int(opts.get("wrapc") or 0)
        self.afnobj = int(opts.get("afnobj") or 0)
        self.root_label = 0       # set by run()
        self.consts = {}          # reuse: the ONE object of every constant structure
        Harness._serial[0] += 1
        self.serial = Harness._serial[0]
        # onedeco: ONE decorator object applied to every function that is declared without arguments
        self.deco0 = asynq.asynq() if self.onedeco else None
        pdeco0 = asynq.async_proxy() if self.onedeco else None
        H = self

        def adeco(**kw):
            return H.deco0 if (H.deco0 is not None and not kw) else asynq.asynq(**kw)

        def pdeco(**kw):
            return pdeco0 if (pdeco0 is not None and not kw) else asynq.async_proxy(**kw)

        self.adeco = adeco
        self.pdeco = pdeco

        @asynq.asynq(pure=True)
        def pure_fn(label, body):
            return (yield from H.block(label, body, True))

        @pdeco()
        def proxy_fn(label, body):
            return H.fn_for("gen", 0, 0).asynq(label, body)

        async def g_proxy(label, body):
            H.emit(["afn", label])
            return await H.fn_for("gen", 0, 0).asyncio(label, body)

        @pdeco(asyncio_fn=g_proxy)
        def proxy_fn_afn(label, body):
            return H.fn_for("gen", 0, 0).asynq(label, body)

        self.g_proxy = g_proxy

        @pdeco()
        def pconst_fn(v):
            return asynq.ConstFuture(v)

        @pdeco()
        def pval_fn(thunk):
            # an async_proxy function that returns None or a tuple / list / dict (of futures) instead of one future
            return thunk()

        class K(object):
            # the product cell pure x method (third audit B8): `K().pm.asyncio` does not exist (PureAsyncDecoratorBinder)
            @asynq.asynq(pure=True)
            def pm(self, label, body):
                H.check_recv(self, 0, label)
                return (yield from H.block(label, body, True))

        @adeco()
        def canary():
            return Node(0, ())

        self.K = K
        self.inst = K()
        self.canary = canary
        self.pconst_fn = pconst_fn
        self.pval_fn = pval_fn
        self.pure_fn = pure_fn
        self.fns = {("proxy", 0, 0, 0, 0): proxy_fn, ("proxy", 1, 0, 0, 0): proxy_fn_afn}

    # ------------------------------------------------------------------ forms of the wrapped callable / of the asyncio_fn
    def wform(self, kind, label):
        """usage flag `wrapc`: WHAT is decorated.  0 a function; 1 a functools.partial of one; 2 a callable object (functions
        that are not generators: an instance with __call__ and no __name__) / a partial of a partial with a keyword (generators)"""
        if not self.wrapc or label is None or kind not in WRAPC_KINDS:
            return 0
        return 1 + (label // 2) % 2 if self.wrapc == 1 else min(self.wrapc - 1, 2)

    def aform(self, afn, label, gco=False):
        """usage flag `afnobj`: HOW an explicit asyncio_fn= is written (never for the root call: asyncio.run and
        ensure_future of the harness want what `async def` gives).  0 `async def`; see `wrap_afn`.  `gco`: the call site is
        inside a ["gco", task] node - the seventh form, whatever the flag says"""
        if gco and afn:
            return AFN_FORM_GENCORO
        if not self.afnobj or not afn or label is None or label == self.root_label:
            return 0
        return 1 + (label // 2) % AFN_FORMS if self.afnobj == 1 else min(self.afnobj - 1, AFN_FORMS)

    def wrap_afn(self, g, form):
        """an asyncio_fn that is not an `async def`: the asyncio version `g` (a coroutine function) offered as
        1 a plain function returning the coroutine          2 a plain function returning a generic awaitable (an object with
        __await__ only: neither a coroutine nor an asyncio future)      3 a plain function returning an asyncio Task
        4 a functools.partial of the coroutine function     5 an object with `async def __call__`
        6 an object whose __call__ returns a generic awaitable
        7 (ys tag "gco" only) a generator-based coroutine: `@types.coroutine def f(..): r = yield from g(..).__await__(); return r`
          - what `f(..)` returns is a generator object that `await` accepts and inspect.isawaitable() recognises, but that is
          not an instance of collections.abc.Awaitable"""
        import functools
        import types
        asyncio = self.asyncio
        if form == 0:
            return g

        class Deferred(object):
            def __init__(self, coro):
                self.coro = coro

            def __await__(self):
                return self.coro.__await__()

        if form == 1:
            def f(*a, **k):
                return g(*a, **k)
            return f
        if form == 2:
            def f(*a, **k):
                return Deferred(g(*a, **k))
            return f
        if form == 3:
            def f(*a, **k):
                return asyncio.ensure_future(g(*a, **k))
            return f
        if form == 4:
            return functools.partial(g)
        if form == 5:
            class AsyncCallable(object):
                async def __call__(self, *a, **k):
                    return await g(*a, **k)
            return AsyncCallable()
        if form == 6:
            class DeferredCallable(object):
                def __call__(self, *a, **k):
                    return Deferred(g(*a, **k))
            return DeferredCallable()
        if form == AFN_FORM_GENCORO:
            @types.coroutine
            def f(*a, **k):
                r = yield from g(*a, **k).__await__()
                return r
            return f
        raise IllFormed("no such form of an asyncio_fn: %r" % (form,))

    def wrap_callable(self, f, form, gen):
        """`f(label, body)` as something that is not a function (forms of `wform`)"""
        import functools
        if form == 0:
            return f
        if form == 1:
            if gen:
                def f1(extra, *a, **k):       # a generator function, as `f` is
                    return (yield from f(*a, **k))
            else:
                def f1(extra, *a, **k):
                    return f(*a, **k)
            return functools.partial(f1, 0)
        if gen:
            # (qcore's DecoratorBase takes a bound method for a classmethod-like object and unwraps it: not a way to declare an
            # asynq function; an object with a generator __call__ is not a generator function for `inspect`)
            def f2(extra, *a, extra2=None, **k):
                return (yield from f(*a, **k))
            return functools.partial(functools.partial(f2, 0), extra2=0)
        else:
            class CallableObject(object):
                def __call__(self, *a, **k):
                    return f(*a, **k)
            return CallableObject()

    # ------------------------------------------------------------------ declarations (built when first used)
    def fn_for(self, kind, afn, var, label=None, gco=False):
        """the function of kind gen / plain / dedup / proxy declared with (afn, var); `label`: the call site (it selects the
        form of the decorated callable and of the asyncio_fn under the usage flags wrapc / afnobj); `gco`: see `aform`"""
        wf, af = self.wform(kind, label), self.aform(afn, label, gco)
        key = (kind, afn, var, wf, af)
        f = self.fns.get(key)
        if f is not None:
            return f
        asynq, asyncio, H = self.asynq, self.asyncio, self
        sfn = var % 2
        if kind == "proxy" and not var:
            # @async_proxy() over a partial / a callable object, asyncio_fn= in one of the forms of `wrap_afn`
            def pimpl(label, body):
                return H.fn_for("gen", 0, 0).asynq(label, body)
            kw = {"asyncio_fn": self.wrap_afn(self.g_proxy, af)} if afn else {}
            f = self.fns[key] = self.pdeco(**kw)(self.wrap_callable(pimpl, wf, False))
            return f
        if kind not in ("gen", "plain", "dedup") or not valid_call([kind, afn, 0, var]):
            raise IllFormed("no such declaration %r" % ((kind, afn, var),))
        if kind != "plain":
            def impl(label, body):
                return (yield from H.block(label, body, True))
        else:
            def impl(label, body):
                return H.straight(label, body)
        impl = self.wrap_callable(impl, wf, kind != "plain")
        if kind == "dedup":
            # @deduplicate() over @asynq(): DeduplicateDecorator has its own asynq() / asyncio() (asynq/tools.py); the key is the
            # label (programs are trees: no two live tasks share it)
            import asynq.tools
            serial = self.serial
            f = asynq.tools.deduplicate(keygetter=lambda args, kwargs: (serial, args[0]))(self.adeco()(impl))
        else:
            kw = {}
            if afn or sfn:
                base = self.fn_for(kind, 0, 0, label)    # the same function declared without asyncio_fn / sync_fn
            if afn:
                async def g(label, body):
                    H.emit(["afn", label])
                    await asyncio.sleep(0)
                    return await base.asyncio(label, body)
                kw["asyncio_fn"] = self.wrap_afn(g, af)
            if sfn:
                def s(label, body):
                    H.emit(["sfn", label])
                    return base(label, body)
                kw["sync_fn"] = self.wrap_callable(s, 1 if wf == 1 else 0, False)
            f = self.adeco(**kw)(impl)
        self.fns[key] = f
        return f

    def meth_for(self, afn, var, label=None, gco=False):
        """name of the method of K declared with (afn, var); bind = var // 2: 0 method, 1 classmethod, 2 staticmethod"""
        af = self.aform(afn, label, gco)
        name = "m_%d_%d" % (afn, var) + ("_f%d" % af if af else "")
        if name in self.K.__dict__:
            return name
        asyncio, H = self.asyncio, self
        sfn, bind = var % 2, var // 2
        if not valid_call(["meth", afn, 0, var]):
            raise IllFormed("no such declaration %r" % (("meth", afn, var),))
        base = self.meth_for(0, 2 * bind) if (afn or sfn) else None
        kw = {}
        if bind == 0:
            def impl(self, label, body):
                H.check_recv(self, 0, label)
                return (yield from H.block(label, body, True))

            async def g(slf, label, body):
                H.check_recv(slf, 0, label)
                H.emit(["afn", label])
                await asyncio.sleep(0)
                return await getattr(slf, base).asyncio(label, body)

            def s(slf, label, body):
                H.check_recv(slf, 0, label)
                H.emit(["sfn", label])
                return getattr(slf, base)(label, body)
            wrapped, sync_fn = impl, s
        elif bind == 1:
            def impl(cls, label, body):
                H.check_recv(cls, 1, label)
                return (yield from H.block(label, body, True))

            async def g(cls, label, body):
                H.check_recv(cls, 1, label)
                H.emit(["afn", label])
                await asyncio.sleep(0)
                return await getattr(cls, base).asyncio(label, body)

            def s(cls, label, body):
                H.check_recv(cls, 1, label)
                H.emit(["sfn", label])
                return getattr(cls, base)(label, body)
            wrapped, sync_fn = classmethod(impl), classmethod(s)
        else:
            def impl(label, body):
                return (yield from H.block(label, body, True))

            async def g(label, body):
                H.emit(["afn", label])
                await asyncio.sleep(0)
                return await getattr(H.K, base).asyncio(label, body)

            def s(label, body):
                H.emit(["sfn", label])
                return getattr(H.K, base)(label, body)
            wrapped, sync_fn = staticmethod(impl), staticmethod(s)
        if afn:
            # (the library passes the instance / the class explicitly: an asyncio_fn need not be a function that binds)
            kw["asyncio_fn"] = self.wrap_afn(g, af)
        if sfn:
            kw["sync_fn"] = sync_fn
        setattr(self.K, name, self.adeco(**kw)(wrapped))
        return name

    # ------------------------------------------------------------------ tokens
    def get_err(self, n):
        e = self.err.get(n)
        if e is None:
            e = self.err[n] = UserError("user error %d" % n)
            self.err_tok[id(e)] = ["u", n]
        return e

    def get_berr(self, n):
        e = self.berr.get(n)
        if e is None:
            e = self.berr[n] = BaseUserError("user base error %d" % n)
            self.err_tok[id(e)] = ["b", n]
        return e

    def is_base(self, e):
        return isinstance(e, BaseUserError)

    def etok(self, e):
        t = self.err_tok.get(id(e))
        if t is not None:
            return t
        msg = str(e)
        if isinstance(e, TypeError) and ("Cannot unwrap" in msg or "Unknown structured awaitable type" in msg):
            return "typeerr"
        if isinstance(e, RuntimeError) and "asyncio mode does not support synchronous calls" in msg:
            return "syncRefused"
        return ["other", type(e).__name__]

    def vtok(self, v, depth=0):
        if depth > 3000:
            return ["other", "deep"]
        if getattr(type(v), "_is_node", False):
            return ["node", v.tag] + [self.vtok(k, depth + 1) for k in v.kids]
        if v is None:
            return "none"
        if isinstance(v, bool):
            return ["other", "bool"]
        if isinstance(v, int):
            return ["a", v]
        if type(v) is tuple:
            return ["tup"] + [self.vtok(k, depth + 1) for k in v]
        if type(v) is list:
            return ["lst"] + [self.vtok(k, depth + 1) for k in v]
        if type(v) is dict:
            return ["dict"] + [[k if isinstance(k, int) else "badkey", self.vtok(x, depth + 1)] for k, x in v.items()]
        return ["other", type(v).__name__]

    def emit(self, ev):
        if len(self.log) > 20000:
            raise IllFormed("log too long")
        self.log.append(ev)

    def fin(self, label, out):
        self.emit(["fin", label, out])
        self.finished.add(label)

    def check_recv(self, obj, bind, label):
        if obj is not (self.K if bind == 1 else self.inst):
            self.emit(["bad", "receiver", label])

    # ------------------------------------------------------------------ calls
    # The label of a call site also selects HOW the public API is used there (the model is the same for all of them):
    #   label % 2 == 1      the body is passed as a keyword argument
    #   label % 4 >= 2      a method is reached through the class (K.meth.asynq(inst, ...)) instead of the instance,
    #                       a classmethod / staticmethod through the instance instead of the class
    #   label % 5 == 3      child.asynq(...) / child.asyncio(...) go through asynq.async_call (an
    #                       @async_proxy(asyncio_fn=asyncio_call) of the library); a plain synchronous call too (async_call(child,
    #                       args)) unless the callee is declared with sync_fn (async_call would use its .asynq()) or @deduplicate(),
    #                       and only on the pure-Python build
    def target(self, c, p, gco=False):
        kind, afn, label = c[:3]
        var = call_var(c)
        args = ()
        if kind == "pure":
            if var == PURE_METHOD_VAR and not afn:
                # a pure=True METHOD, through the instance or (label % 4 >= 2) through the class
                if label % 4 >= 2:
                    fn, args = self.K.pm, (self.inst,)
                else:
                    fn = self.inst.pm
            elif var:
                raise IllFormed("no such declaration %r" % (c,))
            else:
                fn = self.pure_fn
        elif kind == "meth":
            name = self.meth_for(afn, var, label, gco)
            other = label % 4 >= 2
            if var // 2 == 0:
                fn = getattr(self.K if other else self.inst, name)
                if other:
                    args = (self.inst,)
            else:
                fn = getattr(self.inst if other else self.K, name)
            if self.copyb and var // 2 != 2:
                # the bound wrapper (a DecoratorBinder) is used through a shallow copy of it
                import copy
                try:
                    fn = copy.copy(fn)
                except (TypeError, copy.Error):
                    pass          # a build whose binder type cannot be copied: the wrapper itself is used
        else:
            fn = self.fn_for(kind, afn, var, label, gco)
        if label % 2 == 1:
            return fn, args + (label,), {"body": p}
        return fn, args + (label, p), {}

    def make(self, c, p, gco=False):
        """child.asynq(args): an AsyncTask - or, in asyncio mode, a coroutine (`gco`: the generator object of a generator-based
        asyncio_fn); through asynq.async_call for labels % 5 == 3 - gco and pure-method call sites too (asyncio_call does
        `await fn.asyncio(..)`: it accepts the generator, and a pure method has `.asyncio` since /repo fec982c)"""
        fn, args, kwargs = self.target(c, p, gco)
        if c[2] % 5 == 3:
            return self.tracked(self.asynq.async_call.asynq(fn, *args, **kwargs), c[2])
        if c[0] == "pure":
            return self.tracked(fn(*args, **kwargs), c[2])
        return self.tracked(fn.asynq(*args, **kwargs), c[2])

    def tracked(self, obj, label):
        """In asyncio mode a BaseException-only error is never thrown into the generator of a task it passes through (the
        generator is abandoned), so the body cannot log the end of its task: the coroutine the library returned is
        awaited by a wrapper that does.  Only used for programs that raise such errors."""
        from collections.abc import Awaitable

        # (a compiled build returns Cython coroutines: inspect.iscoroutine() does not know them)
        if not self.track or not isinstance(obj, Awaitable) or isinstance(obj, self.asynq.FutureBase):
            return obj
        H = self

        async def wrapper():
            try:
                return await obj
            except BaseException as e:
                if H.is_base(e) and label not in H.finished:
                    H.fin(label, ["err", H.etok(e)])
                raise
        return wrapper()

    def sync_call(self, c, p):
        """child(args): a plain synchronous call"""
        fn, args, kwargs = self.target(c, p)
        if c[0] == "pure":
            return fn(*args, **kwargs).value()
        if c[2] % 5 == 3 and c[0] != "dedup" and not call_var(c) % 2:
            # the plain synchronous call of asynq.async_call (an @async_proxy function of the library): async_call(fn, args)
            # - on every build (since /repo 6bd88f6 the refusal of a compiled async_call is the RuntimeError too)
            return self.asynq.async_call(fn, *args, **kwargs)
        return fn(*args, **kwargs)

    def acall(self, c, p):
        """child.asyncio(args)"""
        fn, args, kwargs = self.target(c, p)
        if c[2] % 5 == 3:
            return self.tracked(self.asynq.async_call.asyncio(fn, *args, **kwargs), c[2])
        try:
            bound = fn.asyncio
        except AttributeError as e:
            # the expression `fn.asyncio(args)` itself fails (before /repo fec982c: a pure=True method, whose binder had no such
            # attribute): that is the outcome of "awaiting fn.asyncio(args)" - handed to the caller as a coroutine that raises it
            async def failed(e=e):
                raise e
            return failed()
        return self.tracked(bound(*args, **kwargs), c[2])

    def build(self, y, labels, cond, in_cond=False):
        """the Python object of a yielded structure.  `labels`: the tasks yielded together that have to be finished when
        the yield returns or raises.  `cond`: tasks inside an instance of a container SUBCLASS or inside what an
        async_proxy function returned - whether the engine takes those as awaitables at all is what asynq and asyncio (as
        they are) disagree on, so they have to be finished only if the engine has STARTED them."""
        if y == "none":
            return None
        if y == "junk":
            return 12345
        tag = y[0]
        if self.reuse and (tag == "const" or tag in CONTAINER_TAGS) and const_only(y):
            # ONE object per constant structure and harness: yielded again by the same body, by other tasks, by the other runs
            key = json.dumps(y)
            if key not in self.consts:
                self.consts[key] = self.build_new(y, labels, cond, in_cond)
            return self.consts[key]
        return self.build_new(y, labels, cond, in_cond)

    def build_new(self, y, labels, cond, in_cond):
        tag = y[0]
        if tag == "const":
            return self.asynq.ConstFuture(y[1])
        if tag == "pconst":
            return self.pconst_fn.asynq(y[1])
        if tag == "efut":
            from asynq.futures import ErrorFuture
            return ErrorFuture(self.get_err(y[1]))
        if tag == "lfut":
            from asynq.futures import Future
            return Future(lambda v=y[1]: v)
        if tag == "task":
            (cond if in_cond else labels).append(y[1][2])
            return self.make(y[1], y[2])
        if tag == "gco":
            t = y[1]
            if not (isinstance(t, list) and t[0] == "task" and t[1][1] and t[1][0] in AFN_KINDS):
                raise IllFormed("bad gco %r" % (y,))
            # (an ordinary child since /repo 6607af4: it has to be finished when the yield returns, like every task)
            (cond if in_cond else labels).append(t[1][2])
            return self.make(t[1], t[2], gco=True)
        if tag == "tup":
            return tuple(self.build(x, labels, cond, in_cond) for x in y[1:])
        if tag == "lst":
            return [self.build(x, labels, cond, in_cond) for x in y[1:]]
        if tag == "dict":
            return {k: self.build(x, labels, cond, in_cond) for k, x in y[1:]}
        if tag == "tupS":
            return TupSub(self.build(x, labels, cond, True) for x in y[1:])
        if tag == "lstS":
            return LstSub(self.build(x, labels, cond, True) for x in y[1:])
        if tag == "dictS":
            import collections
            return collections.OrderedDict((k, self.build(x, labels, cond, True)) for k, x in y[1:])
        if tag == "pval":
            inner = y[1]
            if not (inner == "none" or (isinstance(inner, list) and inner[0] in CONTAINER_TAGS)):
                raise IllFormed("bad proxy result %r" % (inner,))
            # asynq: the function runs now and what it returns is the yielded object; asyncio mode: .asynq() returns the
            # coroutine of AsyncProxyDecorator.asyncio and the function runs when that is awaited
            return self.pval_fn.asynq(lambda: self.build(inner, labels, cond, True))
        raise IllFormed("bad structure %r" % (y,))

    # ------------------------------------------------------------------ interpreter of bodies
    def block(self, label, body, gen):
        asynq = self.asynq
        env = []
        caught = None
        i = 0
        self.emit(["start", label, bool(self.mode())])
        self.started.add(label)
        while True:
            op = body[0]
            if op == "ret":
                v = mk_node(body[1], env)
                self.fin(label, ["ok", self.vtok(v)])
                return v
            elif op == "res":
                v = mk_node(body[1], env)
                self.fin(label, ["ok", self.vtok(v)])
                asynq.result(v)
            elif op == "raise":
                e = self.get_err(body[1])
                self.fin(label, ["err", self.etok(e)])
                raise e
            elif op == "raiseB":
                e = self.get_berr(body[1])
                self.fin(label, ["err", self.etok(e)])
                raise e
            elif op == "reraise":
                e = caught if caught is not None else self.get_err(0)
                self.fin(label, ["err", self.etok(e)])
                raise e
            elif op in YLD:
                if not gen:
                    self.fin(label, ["err", ["other", "IllFormed"]])
                    raise IllFormed("a function that is not a generator cannot yield")
                labels = []
                cond = []
                y = self.build(body[1], labels, cond)
                try:
                    v = yield y
                except GeneratorExit:
                    raise          # the generator was abandoned and is being closed: not an event of the program
                except BaseException as e:
                    if not isinstance(e, Exception):
                        if not self.is_base(e):
                            raise  # the harness's own business (watchdog, KeyboardInterrupt)
                        if op != "yldB":
                            # `except Exception` does not catch it: the task fails with it
                            self.fin(label, ["err", self.etok(e)])
                            raise
                    recv = ["err", self.etok(e)]
                    caught = e
                    body = body[3]
                else:
                    recv = ["ok", self.vtok(v)]
                    env.append(v)
                    body = body[2]
                i += 1
                if self.gc:
                    import gc
                    gc.collect(0)
                dc = all(l in self.finished for l in labels) and all(l in self.finished for l in cond if l in self.started)
                self.emit(["run", label, i, dc, bool(self.mode()), recv])
            elif op == "sync":
                try:
                    v = self.sync_call(body[1], body[2])
                except Exception as e:
                    r = ["err", self.etok(e)]
                    caught = e
                    nxt = body[4]
                except BaseException as e:
                    if self.is_base(e):
                        self.emit(["syncX", label, ["err", self.etok(e)]])
                        self.fin(label, ["err", self.etok(e)])
                    raise
                else:
                    r = ["ok", self.vtok(v)]
                    env.append(v)
                    nxt = body[3]
                self.emit(["syncX", label, r])
                body = nxt
            else:
                raise IllFormed("bad body %r" % (body,))

    def straight(self, label, body):
        """the body of a function that is not a generator"""
        g = self.block(label, body, False)
        try:
            next(g)
        except StopIteration as e:
            return e.value
        raise IllFormed("plain body yielded")

    # ------------------------------------------------------------------ the five ways of running
    def outcome(self, thunk):
        try:
            v = thunk()
        except self.asynq.AsyncTaskResult as e:
            return ["esc", self.vtok(e.result)]
        except Exception as e:
            return ["err", self.etok(e)]
        except BaseUserError as e:
            return ["err", self.etok(e)]
        return ["ok", self.vtok(v)]

    def exc_outcome(self, e):
        if isinstance(e, (KeyboardInterrupt, SystemExit)) or type(e).__name__ == "CaseTimeout":
            raise e
        if isinstance(e, self.asynq.AsyncTaskResult):
            return ["esc", self.vtok(e.result)]
        if isinstance(e, (Exception, BaseUserError)):
            return ["err", self.etok(e)]
        return ["err", ["other", type(e).__name__]]

    async def aoutcome(self, coro):
        try:
            v = await coro
        except BaseException as e:  # noqa: the outcome of the computation, whatever it is
            return self.exc_outcome(e)
        return ["ok", self.vtok(v)]

    def fresh_log(self):
        self.log = []
        self.finished = set()
        self.started = set()

    def run(self, conv, c, p, warm=False, thread=False):
        """thread: the run happens on a fresh thread; the flag and a synchronous call are checked on this one afterwards"""
        if self.gc:
            import gc
            gc.collect(1)
        if not thread:
            ob = self.run_here(conv, c, p, warm)
        else:
            import threading
            box = {}

            def target():
                try:
                    box["ob"] = self.run_here(conv, c, p, warm)
                except BaseException as e:  # noqa: handed to the caller
                    box["exc"] = e
            t = threading.Thread(target=target, daemon=True)
            t.start()
            t.join()
            if "exc" in box:
                raise box["exc"]
            ob = box["ob"]
        if self.gc:
            import gc
            gc.collect(1)
        if thread:
            ob[4] = ob[4] or bool(self.mode())
            if ob[5] == ["ok", ["node", 0]]:
                ob[5] = self.outcome(self.canary)
        return ob

    def run_here(self, conv, c, p, warm=False):
        """warm: the same computation has been run once before - by the same functions, and for `aio` on the same event
        loop - and its observations dropped: what is observed is the SECOND use"""
        asyncio = self.asyncio
        mode = self.mode
        self.track = any(q[0] == "raiseB" for q in walk_progs(p))
        self.root_label = c[2]
        if warm and conv in ("call", "value", "aiorun"):
            self.run_here(conv, c, p)
            self.fresh_log()
        if conv == "call":
            before = bool(mode())
            out = self.outcome(lambda: self.sync_call(c, p))
            after = bool(mode())
            can = self.outcome(self.canary)
        elif conv == "value":
            before = bool(mode())
            out = self.outcome(lambda: self.make(c, p).value())
            after = bool(mode())
            can = self.outcome(self.canary)
        elif conv == "aio":
            async def session():
                if warm:
                    await self.aoutcome(self.acall(c, p))
                    self.fresh_log()
                b = bool(mode())
                o = await self.aoutcome(self.acall(c, p))
                a = bool(mode())
                cn = self.outcome(self.canary)
                return b, o, a, cn
            before, out, after, can = asyncio.run(session())
        elif conv == "aiorun":
            before = bool(mode())
            try:
                v = asyncio.run(self.acall(c, p))
            except BaseException as e:  # noqa
                out = self.exc_outcome(e)
            else:
                out = ["ok", self.vtok(v)]
            after = bool(mode())
            can = self.outcome(self.canary)
        elif conv == "aiotask":
            async def session():
                if warm:
                    t0 = asyncio.ensure_future(self.acall(c, p))
                    await asyncio.wait([t0])
                    t0.exception()
                    self.fresh_log()
                b = bool(mode())
                seen = False
                t = asyncio.ensure_future(self.acall(c, p))
                while not t.done():
                    seen = seen or bool(mode())
                    await asyncio.sleep(0)
                e = t.exception()
                o = self.exc_outcome(e) if e is not None else ["ok", self.vtok(t.result())]
                a = seen or bool(mode())
                cn = self.outcome(self.canary)
                return b, o, a, cn
            before, out, after, can = asyncio.run(session())
        else:
            raise ValueError(conv)
        return ["conv", conv, before, out, after, can, self.log]


def run_case(case):
    import warnings

    import asynq
    import asynq.scheduler

    c, p = expand(case)
    if in_open_finding(p):
        case = drop_flags2(case)      # (wrapc / afnobj are inert inside the open findings: see `usage2`)
    lines = ["(case asyncio %d %s)" % (case["id"], sx(["task", c, p]))]
    outs = {}
    logs = {}
    obs = {}
    share = bool(case.get("share"))
    warm = bool(case.get("warm"))
    thread = bool(case.get("thread"))
    order = case.get("order") or list(range(len(CONVS)))
    if sorted(order) != list(range(len(CONVS))):
        raise IllFormed("bad order %r" % (order,))
    H = None
    with warnings.catch_warnings():
        warnings.simplefilter("ignore")
        if case.get("gc"):
            import gc
            gc.collect()
        for idx in order:
            conv = CONVS[idx]
            if H is None or not share:
                # a fresh set of decorated functions and a clean scheduler for every way of running ...
                asynq.scheduler.reset()
                H = Harness(case)
            else:
                # ... or ONE set of functions, error instances and one thread state used by all five, in the given order
                H.fresh_log()
            ob = H.run(conv, c, p, warm, thread)
            obs[conv] = ob
            outs[conv] = ob[3]
            logs[conv] = ob[6]
    for conv in CONVS:
        lines.append(sx(obs[conv]))
    lines.append("(end)")
    # ---- features -----------------------------------------------------------------------------------
    ntasks = 1 + count_tasks(p)
    feats = ["top=%s%s" % (c[0], "+afn" if c[1] else ""), "tasks<=%d" % next(b for b in (1, 2, 4, 8, 16, 10 ** 9) if ntasks <= b)]
    kinds = set()
    shapes = set()
    for q in walk_progs(p):
        if q[0] in YLD:
            for x in walk_ys(q[1]):
                if isinstance(x, list):
                    if x[0] == "task":
                        kinds.add("child=%s%s" % (x[1][0], "+afn" if x[1][1] else ""))
                        if call_var(x[1]) % 2:
                            kinds.add("child-declared-with-sync_fn")
                        if is_pure_method(x[1]):
                            kinds.add("child=pure-method")
                        elif call_var(x[1]) // 2:
                            kinds.add("child=" + BIND_NAMES[call_var(x[1]) // 2])
                    elif x[0] in CONTAINER_TAGS:
                        shapes.add("yield=%s%s" % (x[0], "-empty" if len(x) == 1 else ""))
                    elif x[0] == "pval":
                        shapes.add("yield=proxy-returning-%s" % ("none" if x[1] == "none" else "container"))
                    elif x[0] == "gco":
                        shapes.add("child-asyncio_fn-is-generator-based-coroutine")
                    else:
                        shapes.add("yield=" + x[0])
                else:
                    shapes.add("yield=" + x)
            if q[3] != ["reraise"]:
                shapes.add("handler" + ("-yields" if has_yield(q[3]) else ""))
            if q[0] == "yldB":
                shapes.add("handler-catches-BaseException")
        elif q[0] == "sync":
            kinds.add("sync=" + q[1][0])
            if call_var(q[1]) % 2:
                kinds.add("sync-callee-declared-with-sync_fn")
            if call_var(q[1]) // 2:
                kinds.add("sync-callee=" + BIND_NAMES[call_var(q[1]) // 2])
        elif q[0] == "res":
            shapes.add("result()")
        elif q[0] == "raiseB":
            shapes.add("raises-BaseException-only-error")
    feats += sorted(kinds) + sorted(shapes)
    width = 0
    depth = 0
    for q in walk_progs(p):
        if q[0] in YLD:
            for x in walk_ys(q[1]):
                if isinstance(x, list) and x[0] in CONTAINER_TAGS:
                    width = max(width, len(x) - 1)
            depth = max(depth, ys_depth(q[1]))
        elif q[0] in ("ret", "res") and q[1] >= 10 and q[1] // 10 < len(VALUE_KINDS):
            feats.append("value=" + VALUE_KINDS[q[1] // 10])
    feats = sorted(set(feats))
    feats.append("width<=%d" % next(b for b in (4, 16, 64, 128, 256, 512, 1024, 10 ** 9) if width <= b))
    feats.append("nesting<=%d" % next(b for b in (1, 2, 3, 8, 32, 10 ** 9) if depth <= b))
    if "fam" in case:
        feats.append("family=" + case["fam"])
    feats.append("functions=" + ("shared-by-the-five-runs" if case.get("share") else "fresh-per-run"))
    if case.get("warm"):
        feats.append("second-use-observed")
    for key, _ in USAGE_FLAGS:
        if case.get(key):
            feats.append("usage=" + key)
    if case.get("wrapc") and has_wrapc_site(p, c):
        feats.append("usage=wrapc")
        if any(q[0] == "sync" and q[1][0] in WRAPC_KINDS for q in walk_progs(p)):
            feats.append("sync-callee-is-partial-or-callable-object")
    if case.get("afnobj") and has_child_afn(p):
        feats.append("usage=afnobj")
        feats.append("asyncio_fn-not-async-def=" + ("by-label" if case["afnobj"] == 1 else "form%d" % (case["afnobj"] - 1)))
    if is_pure_method(c):
        feats.append("top=pure-method")
    elif call_var(c) // 2:
        feats.append("top=" + BIND_NAMES[call_var(c) // 2])
    if case.get("reuse") and has_repeated_const(p):
        feats.append("constant-object-yielded-again")
    feats.append("out-call=" + outs["call"][0])
    feats.append("out-aio=" + outs["aio"][0])
    delivered_failure = any(e[0] == "run" and e[5][0] == "err" for e in logs["aio"])
    if delivered_failure:
        feats.append("failure-delivered-at-yield")
    if any(e[0] == "syncX" for e in logs["aio"]):
        feats.append("sync-call-attempted-in-asyncio")
    if depth >= 2:
        feats.append("nested-structure")
    nontrivial = None
    if ntasks >= 2 and (delivered_failure or depth >= 2):
        key = {k: v for k, v in case.items() if k != "id"}
        nontrivial = hashlib.sha1(json.dumps(key, sort_keys=True).encode()).hexdigest()[:16]
    return {"lines": lines, "features": feats, "nontrivial": nontrivial}


def has_repeated_const(p):
    """does some constant container occur at two yields of the program?"""
    seen = set()
    for q in walk_progs(p):
        if q[0] in YLD and isinstance(q[1], list) and q[1][0] in CONTAINER_TAGS and len(q[1]) > 1 and const_only(q[1]):
            key = json.dumps(q[1])
            if key in seen:
                return True
            seen.add(key)
    return False


def ys_depth(y):
    """nesting depth of the containers of a yielded structure (iterative)"""
    best = 0
    stack = [(y, 0)]
    while stack:
        y, d = stack.pop()
        if isinstance(y, list) and y[0] in CONTAINER_TAGS:
            best = max(best, d + 1)
            for x in (y[1:] if y[0] not in MAP_TAGS else [w[1] for w in y[1:]]):
                stack.append((x, d + 1))
        elif isinstance(y, list) and y[0] in ("pval", "gco"):
            stack.append((y[1], d))
    return best
