"""C15  fn.asyncio() under an event loop matches the asynq result.

Batch-free, tree-shaped programs (tasks, ConstFutures, None, non-futures, nested tuple/list/dict, raise, try/except at
every yield, return and asynq.result(), plain synchronous calls) are interpreted on the REAL library in five ways:
  call    fn(args)                               value   fn.asynq(args).value()
  aio     `await fn.asyncio(args)` inside an observer coroutine (same contextvars context) under asyncio.run
  aiorun  asyncio.run(fn.asyncio(args))          aiotask ensure_future(fn.asyncio(args)) beside a flag-watching coroutine
through plain functions, methods, pure functions, async_proxy functions and non-generator functions, with and without an
explicit asyncio_fn.  The Lean model (AsynqModel.Lib.Asyncio) runs the same program (correspondence, per-task projection of
the logs) and the Lean observer `Asyncio.spec` - proved of the model for every program
(C15_spec_holds) - judges the implementation's observations on their own."""
import hashlib
import json
import random

PID = "C15"
LEVEL = "proof"
LEAN_MODULES = ["AsynqModel.Theorems.C15"]
THEOREMS = [
    "AsynqModel.Asyncio.C15_equiv",
    "AsynqModel.Asyncio.C15_equiv_run",
    "AsynqModel.Asyncio.C15_result_is_return",
    "AsynqModel.Asyncio.C15_mode_confined",
    "AsynqModel.Asyncio.C15_mode_confined_nested",
    "AsynqModel.Asyncio.C15_mode_untouched_by_asynq",
    "AsynqModel.Asyncio.C15_sync_refused",
    "AsynqModel.Asyncio.C15_sync_refused_top",
    "AsynqModel.Asyncio.C15_asyncio_run_good",
    "AsynqModel.Asyncio.C15_asynq_run_good",
    "AsynqModel.Asyncio.C15_gather_first_failure",
    "AsynqModel.Asyncio.C15_first_failure_wins",
    "AsynqModel.Asyncio.C15_shape",
    "AsynqModel.Asyncio.C15_spec_holds",
]
BUILDS = {"quick": ["py"], "thorough": ["py", "cy"]}
RULE = ("corpus (11 minimised programs), a fixed family (every call kind x explicit asyncio_fn x 14 body shapes; every child "
        "kind under a bare and a gathered yield; dict/list/tuple whose FIRST failure in structure order is the slowest with a "
        "slower success beside it; empty structures; synchronous calls of every kind) and grammar-generated batch-free "
        "programs: 1-15 tasks, depth <= 5, yields of None / non-future / ConstFuture / proxy ConstFuture / child task / nested "
        "tuple-list-dict (0-4 elements, 3 levels), raise / re-raise / return / result(), handler or no handler at every "
        "yield, plain synchronous calls (the malformed stream: non-futures and synchronous calls under asyncio); each program "
        "is run in five ways (call, value, aio, aiorun, aiotask). non-trivial = at least 2 tasks and (a failure delivered at a "
        "yield or a nested structure); distinct by program hash")
TRUSTED = [
    "hand-written Lean model AsynqModel.Lib.Asyncio tied to the code by this differential run only",
    "Python harness checks/c15.py (interpreter of the program language on the real decorators, identity tokens, "
    "per-task projection of the event logs)",
    "asyncio event loop, contextvars (ensure_future copies the context), CPython generator/with semantics",
]
ASSUMPTIONS = [
    "await x = run x to completion; the order in which sibling coroutines interleave is the event loop's business "
    "(logs are compared per task, never across tasks)",
    "programs are batch-free trees: every yielded future is created in the yield (no shared tasks, no batch items, no "
    "ErrorFuture / lazy Future, which resolve_awaitables does not know)",
    "only Exception subclasses are raised by bodies; handlers are `except Exception`",
    "an explicit asyncio_fn is a faithful asyncio version of the function (here: it logs and awaits the undecorated "
    "function's .asyncio())",
]
CASE_TIMEOUT = 30
CONVS = ["call", "value", "aio", "aiorun", "aiotask"]
KINDS = ["gen", "meth", "pure", "proxy", "plain"]
AFN_KINDS = ("gen", "meth", "proxy", "plain")


# ---------------------------------------------------------------------------------------------------
# program language (JSON):
#   prog := ["ret", tag] | ["res", tag] | ["raise", e] | ["reraise"] | ["yld", ys, k, h] | ["sync", call, child, k, h]
#   ys   := "none" | "junk" | ["const", v] | ["pconst", v] | ["task", call, prog] | ["tup", ys...] | ["lst", ys...]
#           | ["dict", [key, ys]...]
#   call := [kind, afn(0/1), label]
# ---------------------------------------------------------------------------------------------------

def has_yield(p):
    """does the body itself (not its children) contain a yield?"""
    op = p[0]
    if op == "yld":
        return True
    if op == "sync":
        return has_yield(p[3]) or has_yield(p[4])
    return False


def walk_progs(p):
    """all sub-programs, children included"""
    yield p
    if p[0] == "yld":
        for q in walk_ys_progs(p[1]):
            yield from walk_progs(q)
        yield from walk_progs(p[2])
        yield from walk_progs(p[3])
    elif p[0] == "sync":
        yield from walk_progs(p[2])
        yield from walk_progs(p[3])
        yield from walk_progs(p[4])


def walk_ys(y):
    yield y
    if isinstance(y, list):
        if y[0] in ("tup", "lst"):
            for x in y[1:]:
                yield from walk_ys(x)
        elif y[0] == "dict":
            for _, x in y[1:]:
                yield from walk_ys(x)


def walk_ys_progs(y):
    for x in walk_ys(y):
        if isinstance(x, list) and x[0] == "task":
            yield x[2]


def has_res(p):
    return any(q[0] == "res" for q in walk_progs(p))


def has_sync(p):
    return any(q[0] == "sync" for q in walk_progs(p))


def count_tasks(p):
    n = 0
    for q in walk_progs(p):
        if q[0] == "yld":
            n += sum(1 for x in walk_ys(q[1]) if isinstance(x, list) and x[0] == "task")
        elif q[0] == "sync":
            n += 1
    return n


class Gen(object):
    def __init__(self, rng, budget):
        self.rng = rng
        self.budget = budget      # tasks still allowed
        self.next_label = 1

    def label(self):
        n = self.next_label
        self.next_label += 1
        return n

    def call_for(self, body, sync=False):
        rng = self.rng
        if not has_yield(body) and rng.random() < 0.45:
            kind = "plain"
        else:
            kind = rng.choices(["gen", "meth", "pure", "proxy"], weights=[40, 20, 0 if sync else 12, 22])[0]
            if not has_yield(body) and kind != "plain" and rng.random() < 0.3:
                kind = "plain"
        afn = 1 if (kind in AFN_KINDS and rng.random() < 0.3) else 0
        return [kind, afn, self.label()]

    def terminal(self, in_handler, p_res):
        rng = self.rng
        r = rng.random()
        if r < p_res:
            return ["res", rng.randint(0, 9)]
        r = rng.random()
        if in_handler and r < 0.3:
            return ["reraise"]
        if r < 0.25 or (not in_handler and r < 0.32):
            return ["raise", rng.randint(1, 5)]
        if r < 0.36:
            return ["reraise"]
        return ["ret", rng.randint(0, 9)]

    def prog(self, depth, steps, in_handler=False, p_res=0.04, p_sync=0.05):
        rng = self.rng
        if steps <= 0 or rng.random() < 0.18:
            return self.terminal(in_handler, p_res)
        if self.budget > 0 and depth < 5 and rng.random() < p_sync:
            self.budget -= 1
            child = self.prog(depth + 1, rng.randint(0, 2), False, p_res, p_sync)
            c = self.call_for(child, sync=True)
            k = self.prog(depth, steps - 1, in_handler, p_res, p_sync)
            h = self.handler(depth, steps - 1, p_res, p_sync)
            return ["sync", c, child, k, h]
        y = self.ys(depth, 0, p_res, p_sync)
        k = self.prog(depth, steps - 1, in_handler, p_res, p_sync)
        h = self.handler(depth, steps - 1, p_res, p_sync)
        return ["yld", y, k, h]

    def handler(self, depth, steps, p_res, p_sync):
        rng = self.rng
        r = rng.random()
        if r < 0.4:
            return ["reraise"]            # no handler
        if r < 0.6:
            return self.terminal(True, p_res)
        return self.prog(depth, min(steps, 2), True, p_res, p_sync)

    def ys(self, depth, nest, p_res, p_sync):
        rng = self.rng
        r = rng.random()
        if nest < 3 and r < (0.55 if nest == 0 else 0.22):
            n = rng.choices([0, 1, 2, 3, 4], weights=[1, 3, 5, 4, 2])[0]
            els = [self.ys(depth, nest + 1, p_res, p_sync) for _ in range(n)]
            shape = rng.choice(["tup", "lst", "dict"])
            if shape == "dict":
                keys = rng.sample(range(20), n)
                return ["dict"] + [[k, e] for k, e in zip(keys, els)]
            return [shape] + els
        r = rng.random()
        if r < 0.07:
            return "none"
        if r < 0.10:
            return "junk"
        if r < 0.22:
            return ["const", rng.randint(0, 50)]
        if r < 0.28:
            return ["pconst", rng.randint(0, 50)]
        if self.budget <= 0 or depth >= 5:
            return ["const", rng.randint(0, 50)]
        self.budget -= 1
        steps = rng.choices([0, 1, 2, 3], weights=[5, 4, 2, 1])[0]
        body = self.prog(depth + 1, steps, False, p_res, p_sync)
        return ["task", self.call_for(body), body]


def gen_case(rng, budget=None):
    budget = budget if budget is not None else rng.choice([1, 2, 3, 4, 6, 8, 10, 14])
    g = Gen(rng, budget)
    p_res = rng.choice([0.0, 0.0, 0.0, 0.05, 0.15])
    p_sync = rng.choice([0.0, 0.0, 0.05, 0.15])
    body = g.prog(0, rng.randint(1, 4), False, p_res, p_sync)
    rng2 = random.Random(rng.random())
    if has_yield(body):
        kind = rng2.choice(["gen", "gen", "meth", "pure", "proxy"])
    else:
        kind = rng2.choice(["plain", "plain", "gen", "meth", "proxy"])
    afn = 1 if (kind in AFN_KINDS and rng2.random() < 0.3) else 0
    return {"top": [[kind, afn, 0], body]}


def delay(g, n, term):
    """a body that needs n event-loop round trips (one gathered child each) before ending in `term`"""
    p = term
    for _ in range(n):
        p = ["yld", ["lst", ["task", ["gen", 0, g.label()], ["ret", 0]]], p, ["reraise"]]
    return p


def family():
    cases = []
    bodies = [
        ["ret", 1],
        ["raise", 2],
        ["res", 3],
        ["reraise"],
        ["yld", ["const", 7], ["ret", 1], ["reraise"]],
        ["yld", "none", ["ret", 1], ["reraise"]],
        ["yld", "junk", ["ret", 1], ["ret", 2]],
        ["yld", ["tup"], ["yld", ["lst"], ["yld", ["dict"], ["ret", 1], ["reraise"]], ["reraise"]], ["reraise"]],
        ["yld", ["pconst", 4], ["ret", 1], ["reraise"]],
        ["yld", ["task", ["gen", 0, 1], ["ret", 5]], ["ret", 1], ["reraise"]],
        ["yld", ["task", ["gen", 0, 1], ["raise", 3]], ["ret", 1], ["reraise"]],
        ["yld", ["task", ["gen", 0, 1], ["raise", 3]], ["ret", 1], ["yld", ["task", ["plain", 0, 2], ["ret", 6]], ["ret", 2], ["reraise"]]],
        ["yld", ["lst", ["task", ["gen", 0, 1], ["res", 3]], ["const", 1]], ["ret", 1], ["ret", 2]],
        ["yld", ["dict", [3, ["tup", ["task", ["meth", 0, 1], ["ret", 5]], "none"]], [1, ["lst", ["const", 2], ["pconst", 3]]]],
         ["ret", 1], ["reraise"]],
    ]
    for kind in KINDS:
        for afn in (0, 1):
            if afn and kind not in AFN_KINDS:
                continue
            for b in bodies:
                if kind == "plain" and has_yield(b):
                    continue
                cases.append({"top": [[kind, afn, 0], b]})
    # child kinds x afn under a gathered yield and under a bare yield
    for kind in KINDS:
        for afn in (0, 1):
            if afn and kind not in AFN_KINDS:
                continue
            for child in (["ret", 4], ["raise", 2], ["res", 6]) + (() if kind == "plain" else (["yld", ["const", 1], ["ret", 2], ["reraise"]],)):
                cases.append({"top": [["gen", 0, 0], ["yld", ["task", [kind, afn, 1], child], ["ret", 1], ["ret", 2]]]})
                cases.append({"top": [["gen", 0, 0], ["yld", ["lst", ["task", [kind, afn, 1], child], ["const", 3]], ["ret", 1], ["ret", 2]]]})
    # the first failure in structure order is the slowest; a slow success follows
    for shape in ("dict", "lst", "tup"):
        for d1 in (1, 3):
            g = Gen(random.Random(0), 0)
            g.next_label = 10
            a = ["task", ["gen", 0, 1], delay(g, d1, ["raise", 1])]
            b = ["task", ["gen", 0, 2], ["raise", 2]]
            c = ["task", ["meth", 0, 3], delay(g, d1 + 1, ["ret", 3])]
            els = [a, b, c]
            y = ["dict"] + [[k, e] for k, e in zip((5, 2, 9), els)] if shape == "dict" else [shape] + els
            for h in (["reraise"], ["ret", 2], ["yld", ["task", ["gen", 0, 4], ["ret", 7]], ["ret", 3], ["reraise"]]):
                cases.append({"top": [["gen", 0, 0], ["yld", y, ["ret", 1], h]]})
            # nested: the failing pair sits one level down
            cases.append({"top": [["gen", 0, 0], ["yld", ["tup", ["const", 1], y], ["ret", 1], ["ret", 2]]]})
    # synchronous calls
    for kind in ("gen", "meth", "proxy", "plain"):
        cases.append({"top": [["gen", 0, 0], ["sync", [kind, 0, 1], ["ret", 4], ["ret", 1], ["ret", 2]]]})
        cases.append({"top": [["gen", 0, 0], ["yld", ["task", ["gen", 0, 2], ["sync", [kind, 0, 1], ["raise", 4], ["ret", 1], ["reraise"]]],
                                              ["ret", 1], ["ret", 2]]]})
    cases.append({"top": [["plain", 0, 0], ["sync", ["gen", 0, 1], ["ret", 4], ["ret", 1], ["ret", 2]]]})
    return cases


def corpus():
    import glob
    import os
    res = []
    d = os.path.join(os.path.dirname(os.path.dirname(os.path.dirname(os.path.abspath(__file__)))), "corpus", PID)
    for p in sorted(glob.glob(os.path.join(d, "*.json"))):
        with open(p) as f:
            res.append(json.load(f))
    return res


def plan(tier, seed):
    rng = random.Random(seed * 1000003 + 15)
    n = 5000 if tier == "quick" else 50000
    cases = corpus() + family()
    cases += [gen_case(rng) for _ in range(n)]
    return cases


# ---------------------------------------------------------------------------------------------------
# shrinking / neighbours / signature
# ---------------------------------------------------------------------------------------------------

def shrink_ys(y):
    if not isinstance(y, list):
        return
    tag = y[0]
    if tag == "task":
        yield ["const", 0]
        c, p = y[1], y[2]
        if c[1]:
            yield ["task", [c[0], 0, c[2]], p]
        if c[0] not in ("gen", "plain"):
            yield ["task", ["gen", c[1], c[2]], p]
        for q in shrink_prog(p):
            if c[0] == "plain" and has_yield(q):
                continue
            yield ["task", c, q]
    elif tag in ("tup", "lst"):
        els = y[1:]
        for i in range(len(els)):
            yield [tag] + els[:i] + els[i + 1:]
        for e in els:
            yield e
        for i, e in enumerate(els):
            for e2 in shrink_ys(e):
                yield [tag] + els[:i] + [e2] + els[i + 1:]
    elif tag == "dict":
        els = y[1:]
        for i in range(len(els)):
            yield [tag] + els[:i] + els[i + 1:]
        for _, e in els:
            yield e
        for i, (k, e) in enumerate(els):
            for e2 in shrink_ys(e):
                yield [tag] + els[:i] + [[k, e2]] + els[i + 1:]


def shrink_prog(p):
    op = p[0]
    if op == "yld":
        yield p[2]
        yield p[3]
        if p[3] != ["reraise"]:
            yield ["yld", p[1], p[2], ["reraise"]]
        for y2 in shrink_ys(p[1]):
            yield ["yld", y2, p[2], p[3]]
        for k2 in shrink_prog(p[2]):
            yield ["yld", p[1], k2, p[3]]
        for h2 in shrink_prog(p[3]):
            yield ["yld", p[1], p[2], h2]
    elif op == "sync":
        yield p[3]
        yield p[4]
        for c2 in shrink_prog(p[2]):
            if p[1][0] == "plain" and has_yield(c2):
                continue
            yield ["sync", p[1], c2, p[3], p[4]]
        for k2 in shrink_prog(p[3]):
            yield ["sync", p[1], p[2], k2, p[4]]
        for h2 in shrink_prog(p[4]):
            yield ["sync", p[1], p[2], p[3], h2]
    elif op in ("ret", "res") and p[1] != 0:
        yield [op, 0]


def shrink(case):
    c, p = case["top"]
    # a child task promoted to the top
    for q in walk_progs(p):
        if q[0] == "yld":
            for x in walk_ys(q[1]):
                if isinstance(x, list) and x[0] == "task":
                    yield {"top": [[x[1][0], x[1][1], 0], x[2]]}
    if c[1]:
        yield {"top": [[c[0], 0, c[2]], p]}
    if c[0] not in ("gen", "plain"):
        yield {"top": [["gen", c[1], c[2]], p]}
    for q in shrink_prog(p):
        if c[0] == "plain" and has_yield(q):
            continue
        yield {"top": [c, q]}


def neighbours(case, rng):
    c, p = case["top"]
    for kind in KINDS:
        if kind == "plain" and has_yield(p):
            continue
        for afn in (0, 1):
            if afn and kind not in AFN_KINDS:
                continue
            yield {"top": [[kind, afn, 0], p]}
    for q in shrink(case):
        yield q
    # fresh programs; never introduce asynq.result() (a known, separate failure) into the neighbourhood of a program
    # that does not use it
    keep_res = has_res(p)
    n = 0
    while n < 24:
        q = gen_case(rng)
        if keep_res or not has_res(q["top"][1]):
            n += 1
            yield q


def signature(case, v):
    clause = v.get("spec", "ok")
    if has_res(case["top"][1]) and clause in ("fail:result-escapes", "fail:siblings-complete"):
        # one defect, two faces: AsyncTaskResult leaves .asyncio() as an exception / a parent abandoned by it never finishes
        return "asynq.result()-escapes-asyncio"
    return clause


# ---------------------------------------------------------------------------------------------------
# implementation side
# ---------------------------------------------------------------------------------------------------

def sx(x):
    if isinstance(x, (list, tuple)):
        return "(" + " ".join(sx(i) for i in x) + ")"
    if x is True:
        return "1"
    if x is False:
        return "0"
    if x is None:
        return "none"
    return str(x)


class Node(object):
    __slots__ = ("tag", "kids")

    def __init__(self, tag, kids):
        self.tag = tag
        self.kids = kids


class UserError(Exception):
    pass


class IllFormed(Exception):
    pass


class Harness(object):
    """one fresh set of decorated functions, error instances and log per way of running"""

    def __init__(self):
        import asyncio

        import asynq

        self.asynq = asynq
        self.asyncio = asyncio
        self.mode = asynq.is_asyncio_mode
        self.log = []
        self.finished = set()
        self.err = {}
        self.err_tok = {}
        H = self

        @asynq.asynq()
        def gen_fn(label, body):
            return (yield from H.block(label, body, True))

        async def g_gen(label, body):
            H.emit(["afn", label])
            await asyncio.sleep(0)
            return await gen_fn.asyncio(label, body)

        @asynq.asynq(asyncio_fn=g_gen)
        def gen_fn_afn(label, body):
            return (yield from H.block(label, body, True))

        @asynq.asynq(pure=True)
        def pure_fn(label, body):
            return (yield from H.block(label, body, True))

        @asynq.asynq()
        def plain_fn(label, body):
            return H.straight(label, body)

        async def g_plain(label, body):
            H.emit(["afn", label])
            await asyncio.sleep(0)
            return await plain_fn.asyncio(label, body)

        @asynq.asynq(asyncio_fn=g_plain)
        def plain_fn_afn(label, body):
            return H.straight(label, body)

        @asynq.async_proxy()
        def proxy_fn(label, body):
            return gen_fn.asynq(label, body)

        async def g_proxy(label, body):
            H.emit(["afn", label])
            return await gen_fn.asyncio(label, body)

        @asynq.async_proxy(asyncio_fn=g_proxy)
        def proxy_fn_afn(label, body):
            return gen_fn.asynq(label, body)

        @asynq.async_proxy()
        def pconst_fn(v):
            return asynq.ConstFuture(v)

        class K(object):
            @asynq.asynq()
            def meth(self, label, body):
                H.check_self(self, label)
                return (yield from H.block(label, body, True))

            async def g_meth(slf, label, body):
                H.check_self(slf, label)
                H.emit(["afn", label])
                await asyncio.sleep(0)
                return await slf.meth.asyncio(label, body)

            @asynq.asynq(asyncio_fn=g_meth)
            def meth_afn(self, label, body):
                H.check_self(self, label)
                return (yield from H.block(label, body, True))

        @asynq.asynq()
        def canary():
            return Node(0, ())

        self.inst = K()
        self.canary = canary
        self.pconst_fn = pconst_fn
        self.pure_fn = pure_fn
        self.fns = {
            ("gen", 0): gen_fn, ("gen", 1): gen_fn_afn,
            ("meth", 0): self.inst.meth, ("meth", 1): self.inst.meth_afn,
            ("proxy", 0): proxy_fn, ("proxy", 1): proxy_fn_afn,
            ("plain", 0): plain_fn, ("plain", 1): plain_fn_afn,
        }

    # ------------------------------------------------------------------ tokens
    def get_err(self, n):
        e = self.err.get(n)
        if e is None:
            e = self.err[n] = UserError("user error %d" % n)
            self.err_tok[id(e)] = ["u", n]
        return e

    def etok(self, e):
        t = self.err_tok.get(id(e))
        if t is not None:
            return t
        msg = str(e)
        if isinstance(e, TypeError) and ("Cannot unwrap" in msg or "Unknown structured awaitable type" in msg):
            return "typeerr"
        if isinstance(e, RuntimeError) and "asyncio mode does not support synchronous calls" in msg:
            return "syncRefused"
        return ["other", type(e).__name__]

    def vtok(self, v, depth=0):
        if depth > 60:
            return ["other", "deep"]
        if v is None:
            return "none"
        if isinstance(v, bool):
            return ["other", "bool"]
        if isinstance(v, int):
            return ["a", v]
        if isinstance(v, Node):
            return ["node", v.tag] + [self.vtok(k, depth + 1) for k in v.kids]
        if type(v) is tuple:
            return ["tup"] + [self.vtok(k, depth + 1) for k in v]
        if type(v) is list:
            return ["lst"] + [self.vtok(k, depth + 1) for k in v]
        if type(v) is dict:
            return ["dict"] + [[k if isinstance(k, int) else "badkey", self.vtok(x, depth + 1)] for k, x in v.items()]
        return ["other", type(v).__name__]

    def emit(self, ev):
        if len(self.log) > 20000:
            raise IllFormed("log too long")
        self.log.append(ev)

    def fin(self, label, out):
        self.emit(["fin", label, out])
        self.finished.add(label)

    def check_self(self, obj, label):
        if obj is not self.inst:
            self.emit(["bad", "receiver", label])

    # ------------------------------------------------------------------ calls
    def make(self, c, p):
        """child.asynq(args): an AsyncTask - or, in asyncio mode, a coroutine"""
        kind, afn, label = c
        if kind == "pure":
            return self.pure_fn(label, p)
        return self.fns[(kind, afn)].asynq(label, p)

    def sync_call(self, c, p):
        """child(args): a plain synchronous call"""
        kind, afn, label = c
        if kind == "pure":
            return self.pure_fn(label, p).value()
        return self.fns[(kind, afn)](label, p)

    def acall(self, c, p):
        """child.asyncio(args)"""
        kind, afn, label = c
        if kind == "pure":
            return self.pure_fn.asyncio(label, p)
        return self.fns[(kind, afn)].asyncio(label, p)

    def build(self, y, labels):
        if y == "none":
            return None
        if y == "junk":
            return 12345
        tag = y[0]
        if tag == "const":
            return self.asynq.ConstFuture(y[1])
        if tag == "pconst":
            return self.pconst_fn.asynq(y[1])
        if tag == "task":
            labels.append(y[1][2])
            return self.make(y[1], y[2])
        if tag == "tup":
            return tuple(self.build(x, labels) for x in y[1:])
        if tag == "lst":
            return [self.build(x, labels) for x in y[1:]]
        if tag == "dict":
            return {k: self.build(x, labels) for k, x in y[1:]}
        raise IllFormed("bad structure %r" % (y,))

    # ------------------------------------------------------------------ interpreter of bodies
    def block(self, label, body, gen):
        asynq = self.asynq
        env = []
        caught = None
        i = 0
        self.emit(["start", label, bool(self.mode())])
        while True:
            op = body[0]
            if op == "ret":
                v = Node(body[1], tuple(env))
                self.fin(label, ["ok", self.vtok(v)])
                return v
            elif op == "res":
                v = Node(body[1], tuple(env))
                self.fin(label, ["ok", self.vtok(v)])
                asynq.result(v)
            elif op == "raise":
                e = self.get_err(body[1])
                self.fin(label, ["err", self.etok(e)])
                raise e
            elif op == "reraise":
                e = caught if caught is not None else self.get_err(0)
                self.fin(label, ["err", self.etok(e)])
                raise e
            elif op == "yld":
                if not gen:
                    self.fin(label, ["err", ["other", "IllFormed"]])
                    raise IllFormed("a function that is not a generator cannot yield")
                labels = []
                y = self.build(body[1], labels)
                try:
                    v = yield y
                except Exception as e:
                    recv = ["err", self.etok(e)]
                    caught = e
                    body = body[3]
                else:
                    recv = ["ok", self.vtok(v)]
                    env.append(v)
                    body = body[2]
                i += 1
                dc = all(l in self.finished for l in labels)
                self.emit(["run", label, i, dc, bool(self.mode()), recv])
            elif op == "sync":
                try:
                    v = self.sync_call(body[1], body[2])
                except Exception as e:
                    r = ["err", self.etok(e)]
                    caught = e
                    nxt = body[4]
                else:
                    r = ["ok", self.vtok(v)]
                    env.append(v)
                    nxt = body[3]
                self.emit(["syncX", label, r])
                body = nxt
            else:
                raise IllFormed("bad body %r" % (body,))

    def straight(self, label, body):
        """the body of a function that is not a generator"""
        g = self.block(label, body, False)
        try:
            next(g)
        except StopIteration as e:
            return e.value
        raise IllFormed("plain body yielded")

    # ------------------------------------------------------------------ the five ways of running
    def outcome(self, thunk):
        try:
            v = thunk()
        except self.asynq.AsyncTaskResult as e:
            return ["esc", self.vtok(e.result)]
        except Exception as e:
            return ["err", self.etok(e)]
        return ["ok", self.vtok(v)]

    def exc_outcome(self, e):
        if isinstance(e, (KeyboardInterrupt, SystemExit)) or type(e).__name__ == "CaseTimeout":
            raise e
        if isinstance(e, self.asynq.AsyncTaskResult):
            return ["esc", self.vtok(e.result)]
        if isinstance(e, Exception):
            return ["err", self.etok(e)]
        return ["err", ["other", type(e).__name__]]

    async def aoutcome(self, coro):
        try:
            v = await coro
        except BaseException as e:  # noqa: the outcome of the computation, whatever it is
            return self.exc_outcome(e)
        return ["ok", self.vtok(v)]

    def run(self, conv, c, p):
        asyncio = self.asyncio
        mode = self.mode
        if conv == "call":
            before = bool(mode())
            out = self.outcome(lambda: self.sync_call(c, p))
            after = bool(mode())
            can = self.outcome(self.canary)
        elif conv == "value":
            before = bool(mode())
            out = self.outcome(lambda: self.make(c, p).value())
            after = bool(mode())
            can = self.outcome(self.canary)
        elif conv == "aio":
            async def session():
                b = bool(mode())
                o = await self.aoutcome(self.acall(c, p))
                a = bool(mode())
                cn = self.outcome(self.canary)
                return b, o, a, cn
            before, out, after, can = asyncio.run(session())
        elif conv == "aiorun":
            before = bool(mode())
            try:
                v = asyncio.run(self.acall(c, p))
            except BaseException as e:  # noqa
                out = self.exc_outcome(e)
            else:
                out = ["ok", self.vtok(v)]
            after = bool(mode())
            can = self.outcome(self.canary)
        elif conv == "aiotask":
            async def session():
                b = bool(mode())
                seen = False
                t = asyncio.ensure_future(self.acall(c, p))
                while not t.done():
                    seen = seen or bool(mode())
                    await asyncio.sleep(0)
                e = t.exception()
                o = self.exc_outcome(e) if e is not None else ["ok", self.vtok(t.result())]
                a = seen or bool(mode())
                cn = self.outcome(self.canary)
                return b, o, a, cn
            before, out, after, can = asyncio.run(session())
        else:
            raise ValueError(conv)
        return ["conv", conv, before, out, after, can, self.log]


def run_case(case):
    import warnings

    import asynq
    import asynq.scheduler

    c, p = case["top"]
    lines = ["(case asyncio %d %s)" % (case["id"], sx(["task", c, p]))]
    outs = {}
    logs = {}
    with warnings.catch_warnings():
        warnings.simplefilter("ignore")
        for conv in CONVS:
            asynq.scheduler.reset()
            H = Harness()
            ob = H.run(conv, c, p)
            outs[conv] = ob[3]
            logs[conv] = ob[6]
            lines.append(sx(ob))
    lines.append("(end)")
    # ---- features -----------------------------------------------------------------------------------
    ntasks = 1 + count_tasks(p)
    feats = ["top=%s%s" % (c[0], "+afn" if c[1] else ""), "tasks<=%d" % next(b for b in (1, 2, 4, 8, 16, 10 ** 9) if ntasks <= b)]
    kinds = set()
    shapes = set()
    for q in walk_progs(p):
        if q[0] == "yld":
            for x in walk_ys(q[1]):
                if isinstance(x, list):
                    if x[0] == "task":
                        kinds.add("child=%s%s" % (x[1][0], "+afn" if x[1][1] else ""))
                    elif x[0] in ("tup", "lst", "dict"):
                        shapes.add("yield=%s%s" % (x[0], "-empty" if len(x) == 1 else ""))
                    else:
                        shapes.add("yield=" + x[0])
                else:
                    shapes.add("yield=" + x)
            if q[3] != ["reraise"]:
                shapes.add("handler" + ("-yields" if has_yield(q[3]) else ""))
        elif q[0] == "sync":
            kinds.add("sync=" + q[1][0])
        elif q[0] == "res":
            shapes.add("result()")
    feats += sorted(kinds) + sorted(shapes)
    feats.append("out-call=" + outs["call"][0])
    feats.append("out-aio=" + outs["aio"][0])
    delivered_failure = any(e[0] == "run" and e[5][0] == "err" for e in logs["aio"])
    if delivered_failure:
        feats.append("failure-delivered-at-yield")
    if any(e[0] == "syncX" for e in logs["aio"]):
        feats.append("sync-call-attempted-in-asyncio")
    nested = any(isinstance(x, list) and x[0] in ("tup", "lst", "dict") and any(
        isinstance(z, list) and z[0] in ("tup", "lst", "dict") for z in (x[1:] if x[0] != "dict" else [w[1] for w in x[1:]]))
        for q in walk_progs(p) if q[0] == "yld" for x in walk_ys(q[1]))
    if nested:
        feats.append("nested-structure")
    nontrivial = None
    if ntasks >= 2 and (delivered_failure or nested):
        nontrivial = hashlib.sha1(json.dumps(case["top"]).encode()).hexdigest()[:16]
    return {"lines": lines, "features": feats, "nontrivial": nontrivial}
