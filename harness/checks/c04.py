"""C04 - see DESIGN.md section 5; shared machinery in corecommon.py"""
from checks import corecommon as cc

PID = "C04"
LEVEL = cc.LEVEL
BUILDS = cc.BUILDS
CASE_TIMEOUT = cc.CASE_TIMEOUT
LEAN_MODULES = ['AsynqModel.Theorems.C04', 'AsynqModel.Theorems.Acyclic', 'AsynqModel.Theorems.SpecC04', 'AsynqModel.Theorems.C04b']
THEOREMS = ["AsynqModel.Core." + n for n in ['C04_ctl_shape', "C04_settled_at_flush_min", "C04_settled_at_flush_step_min", 'C04_settled_stable', 'C04_no_item_completes_between_flushes', 'C04_flush_only_when_stack_at_base', 'C04_static', 'C04_settled_at_flush_static', 'C04_settled_stable_static', 'C04_no_item_completes_between_flushes_static', 'C04_flush_only_when_stack_at_base_static', 'C04_settledB_sound', 'C04_run_reach', 'C04_dagRun_reach', 'Spec_C04_accepts_settled', 'Spec_C04_accepts_settled_run', 'Spec_C04_only_count', 'Spec_C04_accepts_untreed', 'Spec_C04_accepts_sync', 'Spec_C04_settled_link', 'Spec_C04_watch_agrees', 'Spec_C04_fuel', 'C04_flush_count', 'C04_flush_count_run', 'C04_flush_count_state', 'Spec_C04_flush_count_accepts', 'C04b_nonasync_counterexample', 'C04b_guard_counterexample', 'C04b_shared_counterexample', 'C04b_two_kinds_counterexample']]
LEAN_MODULES = LEAN_MODULES + ['AsynqModel.Theorems.AuditFixes']
THEOREMS = THEOREMS + ["AsynqModel.Core." + n for n in ['roundsTop_chain', 'roundsTop_depChain', 'roundsTop_tree', 'C04_chain_flushes', 'C04_depChain_flushes', 'C04_tree_one_flush']]
LEAN_MODULES = LEAN_MODULES + ['AsynqModel.Theorems.NoNA']
THEOREMS = THEOREMS + ["AsynqModel.Core." + n for n in ['C04_settled_at_flush_any', 'Spec_C04_accepts_settled_any', 'C04_settled_stable_needs_noNonAsync']]
LEAN_MODULES = LEAN_MODULES + ['AsynqModel.Theorems.SpecC04b']
THEOREMS = THEOREMS + ['AsynqModel.Core.Spec_C04_accepts']
MIX = [('yield',4),('yield_err',3),('yield_ctx',2)]
RULE = ("grammar-generated task programs (profiles %s; trees and DAGs of tasks, 1-3 batch kinds with priority overrides "
        "and raising flushes, nested yield structures, errors, try/except, synchronous re-entry, contexts) interpreted on "
        "the real scheduler and replayed in the Lean machine with the implementation's flush choices; non-trivial = at "
        "least 2 tasks and 1 scheduler flush; distinct by hash of (configuration, programs)" % (", ".join(p for p, _ in MIX)))
RULE += "; plus family crossthread (two threads in mid-computation at the same time, warmed-up worker threads, root tasks prepared on one thread and computed on another; per-thread flush counts = own longest chain, no batch flushed by another thread's scheduler), judged by direct expectation (Drv/Families6t.lean)"
TRUSTED = cc.TRUSTED_CORE
ASSUMPTIONS = cc.ASSUMPTIONS_CORE


def extra(tier, rng):
    """the families of the statement: a balanced tree of any size flushes once, a chain of n flushes n times,
    siblings with chains of different lengths share flushes"""
    import coregen
    res = []
    for d, f in ((1, 2), (1, 6), (2, 3), (3, 2), (2, 5), (3, 3), (4, 2)):
        res.append({"cfg": {"kinds": {}}, "profile": "tree", "tops": [["value", coregen.balanced_tree(d, f)]]})
    for n in (1, 2, 3, 5, 8, 13, 25, 40):
        res.append({"cfg": {"kinds": {}}, "profile": "chain", "tops": [["call", coregen.dependent_chain(n)]]})
    for _ in range(40 if tier == "quick" else 600):
        ws = [rng.randint(1, 6) for _ in range(rng.randint(2, 5))]
        res.append({"cfg": {"kinds": {}}, "profile": "staggered", "tops": [["value", coregen.staggered(ws)]]})
    res.append({"cfg": {"kinds": {}}, "family": ["wide", 1100 if tier == "quick" else 2600]})
    res += cc.corefam4.eventhook_cases(tier, cc.fork(rng, "eventhook")) + cc.corefam4.debugthreads_cases(tier, cc.fork(rng, "debugthreads"))
    res += cc.corefam6t.crossthread_cases(tier, cc.fork(rng, "crossthread"))
    return res


def plan(tier, seed):
    return cc.make_plan(PID, tier, seed, MIX, 3000, 40000, ntops=(1,), extra=extra)


def run_case(case):
    return cc.run_case_for(PID, case)


def shrink(case):
    return cc.shrink_case(case)


def neighbours(case, rng):
    return cc.neighbours_case(case, rng, [p for p, _ in MIX])


def signature(case, v):
    return cc.signature_for(case, v)
